"""E4: the real parsimonious grammar and the real BasicVisitor run on text with symbolic layout.

The input is a `str` subclass holding a token sequence with choice points between tokens (blank runs, line ends,
PRINT/?, trailing NUL).  Three parsimonious primitives are replaced for the duration of a run (Regex, Literal and the
`space*` Quantifier); everything else - sequences, ordered choice, look-ahead, the packrat cache, every visit_* - is
the real code.  A primitive that reaches an undecided choice point evaluates its match under every alternative of
that point (and of later points the match runs into); only if the outcomes DIFFER does it fork.  Each finished path
has an outcome and a set of decided choice points; undecided ones did not matter, so one path covers all of their
combinations.
"""
import itertools

import z3
from parsimonious import expressions as E
from parsimonious.nodes import Node, RegexNode

from vf import smt

PH = "\x01"


class Fork(Exception):
    def __init__(self, cp):
        self.cp = cp


class SymText(str):
    def __new__(cls, parts, decisions):
        virt = []
        cps = []
        for p in parts:
            if isinstance(p, str):
                virt.append(p)
            else:
                w = max(max(len(a) for a in p), 1)
                cps.append((sum(len(v) for v in virt), w, p))
                virt.append(PH * w)
        s = super().__new__(cls, "".join(virt))
        s.parts = parts
        s.cps = cps
        s.decisions = decisions
        s.cp_at = {}
        for i, (st, w, alts) in enumerate(cps):
            for k in range(w):
                s.cp_at[st + k] = i
        s.vlen = str.__len__(s)
        # trailing choice points decided as the empty string do not count towards the length the parser must consume
        eff = s.vlen
        for i in range(len(cps) - 1, -1, -1):
            st, w, alts = cps[i]
            if st + w == eff and i in decisions and alts[decisions[i]] == "":
                eff = st
            else:
                break
        s.eff_len = eff
        return s

    def __len__(self):
        return self.eff_len

    def expand(self, pos, hyp=None):
        """actual characters from virtual position pos -> (text, vmap, first undecided choice point reached)"""
        out = []
        vmap = []
        i = pos
        n = self.vlen
        stop = None
        while i < n:
            ci = self.cp_at.get(i)
            if ci is None:
                out.append(str.__getitem__(self, i))
                i += 1
                vmap.append(i)
                continue
            st, w, alts = self.cps[ci]
            if ci in self.decisions:
                alt = alts[self.decisions[ci]]
            elif hyp is not None and ci in hyp:
                alt = alts[hyp[ci]]
            else:
                stop = ci
                break
            off = i - st
            rest = alt[off:]
            for k, ch in enumerate(rest):
                out.append(ch)
                vmap.append(st + off + k + 1)
            if rest:
                vmap[-1] = st + w
            i = st + w
        return "".join(out), vmap, stop

    def norm(self, p):
        """skip the phantom remainder of DECIDED choice points only"""
        while p < self.vlen:
            ci = self.cp_at.get(p)
            if ci is None:
                return p
            st, w, alts = self.cps[ci]
            if ci not in self.decisions:
                return p
            alt = alts[self.decisions[ci]]
            if p - st >= len(alt):
                p = st + w
            else:
                return p
        return p

    def __getitem__(self, key):
        if isinstance(key, slice):
            start, stop, _ = key.indices(self.vlen)
            out = []
            i = start
            while i < stop:
                ci = self.cp_at.get(i)
                if ci is None:
                    out.append(str.__getitem__(self, i))
                else:
                    st, w, alts = self.cps[ci]
                    alt = alts[self.decisions[ci]] if ci in self.decisions else ""
                    off = i - st
                    if off < len(alt):
                        out.append(alt[off])
                i += 1
            return "".join(out)
        return str.__getitem__(self, key)

    def concrete(self, assignment=None):
        out = []
        k = 0
        for p in self.parts:
            if isinstance(p, str):
                out.append(p)
            else:
                if k in self.decisions:
                    out.append(p[self.decisions[k]])
                elif assignment is not None and k in assignment:
                    out.append(p[assignment[k]])
                else:
                    out.append(p[0])
                k += 1
        return "".join(out)


_orig = {}
_space = None

# ---- "alive" test: could text beyond `actual` still change what the regex does? ----------------------------------
# A regex outcome computed on the decided part of the text is final unless some path of the regex consumes ALL of
# that part and could go on.  alive(P) is the prefix closure of P (look-arounds and anchors dropped, repeat counts
# relaxed: both only enlarge it), built from CPython's own parse tree of the pattern.
try:
    import re._parser as _sre_parse
except ImportError:  # pragma: no cover
    import sre_parse as _sre_parse
import re as _re

_alive_cache = {}


def _cls_item(op, av):
    op = str(op)
    if op == "LITERAL":
        return _re.escape(chr(av))
    if op == "RANGE":
        return _re.escape(chr(av[0])) + "-" + _re.escape(chr(av[1]))
    if op == "CATEGORY":
        return {"CATEGORY_DIGIT": r"\d", "CATEGORY_NOT_DIGIT": r"\D", "CATEGORY_SPACE": r"\s",
                "CATEGORY_NOT_SPACE": r"\S", "CATEGORY_WORD": r"\w", "CATEGORY_NOT_WORD": r"\W"}[str(av)]
    raise ValueError("gapsym.alive: class item " + op)


def _full_item(op, av):
    o = str(op)
    if o == "LITERAL":
        return _re.escape(chr(av))
    if o == "NOT_LITERAL":
        return "[^" + _re.escape(chr(av)) + "]"
    if o == "ANY":
        return "."
    if o == "IN":
        neg = any(str(a) == "NEGATE" for a, _ in av)
        return "[" + ("^" if neg else "") + "".join(_cls_item(a, b) for a, b in av if str(a) != "NEGATE") + "]"
    if o in ("MAX_REPEAT", "MIN_REPEAT"):
        lo, hi, sub = av
        return "(?:" + _full_seq(sub) + ")*"
    if o == "SUBPATTERN":
        return "(?:" + _full_seq(av[3]) + ")"
    if o == "BRANCH":
        return "(?:" + "|".join(_full_seq(b) for b in av[1]) + ")"
    if o in ("ASSERT", "ASSERT_NOT", "AT"):
        return ""
    raise ValueError("gapsym.alive: construct " + o)


def _full_seq(items):
    return "".join(_full_item(op, av) for op, av in items)


def _pref_item(op, av):
    o = str(op)
    if o in ("LITERAL", "NOT_LITERAL", "ANY", "IN"):
        return _full_item(op, av)
    if o in ("MAX_REPEAT", "MIN_REPEAT"):
        lo, hi, sub = av
        return "(?:" + _full_seq(sub) + ")*" + _pref_seq(sub)
    if o == "SUBPATTERN":
        return _pref_seq(av[3])
    if o == "BRANCH":
        return "(?:" + "|".join(_pref_seq(b) for b in av[1]) + ")"
    if o in ("ASSERT", "ASSERT_NOT", "AT"):
        return ""
    raise ValueError("gapsym.alive: construct " + o)


def _pref_seq(items):
    items = list(items)
    alts = [""]
    for i in range(len(items)):
        alts.append(_full_seq(items[:i]) + _pref_item(*items[i]))
    return "(?:" + "|".join(alts) + ")"


def alive_re(compiled):
    key = (compiled.pattern, compiled.flags)
    r = _alive_cache.get(key)
    if r is None:
        tree = _sre_parse.parse(compiled.pattern, compiled.flags)
        r = _re.compile(_pref_seq(tree), compiled.flags & (_re.I | _re.S | _re.M))
        _alive_cache[key] = r
    return r


def _outcome(text, pos, matcher, hyp):
    actual, vmap, stop = text.expand(pos, hyp)
    m_end = matcher(actual)
    if m_end is None:
        return (False, None, None, stop, len(actual), None)
    end = pos if m_end == 0 else vmap[m_end - 1]
    # positions stay those of real characters (visitors do arithmetic on node.end); only a match that reaches the end
    # of the text apart from empty decided choice points is extended to the very end
    return (True, end, actual[:m_end], stop, len(actual), m_end)


def _decide(text, pos, matcher, viable=None):
    base = _outcome(text, pos, matcher, None)
    stop = base[3]
    if stop is None:
        return base
    # the decided text alone settles the match: it ended before the undecided choice point, or (literals) the decided
    # text is already not a prefix of what is wanted
    if viable is not None:
        if not viable(text.expand(pos, None)[0]):
            return base
    frontier = [dict()]
    results = set()
    first = stop
    seen = 0
    while frontier:
        hyp = frontier.pop()
        o = _outcome(text, pos, matcher, hyp)
        seen += 1
        nstop = o[3]
        open_end = nstop is not None and (viable is None or viable(text.expand(pos, hyp)[0]))
        if open_end and seen < 400:
            alts = text.cps[nstop][2]
            for k in range(len(alts)):
                h = dict(hyp)
                h[nstop] = k
                frontier.append(h)
            continue
        results.add((o[0], o[1], o[2]))
        if len(results) > 1:
            raise Fork(first)
    return next(iter(results)) + (None, None, None)


def install(grammar):
    global _space
    _orig["regex"] = E.Regex._uncached_match
    _orig["lit"] = E.Literal._uncached_match
    _orig["quant"] = E.Quantifier._uncached_match
    _space = grammar["space"]

    def regex_match(self, text, pos, cache, error):
        if not isinstance(text, SymText):
            return _orig["regex"](self, text, pos, cache, error)

        def matcher(actual):
            m = self.re.match(actual)
            return None if m is None else m.end()

        alive = alive_re(self.re)
        o = _decide(text, pos, matcher, viable=lambda actual: alive.fullmatch(actual) is not None)
        if not o[0]:
            return None
        node = RegexNode(self, text, pos, o[1])
        node.match = None
        return node

    def lit_match(self, text, pos, cache, error):
        if not isinstance(text, SymText):
            return _orig["lit"](self, text, pos, cache, error)
        lit = self.literal

        def matcher(actual):
            return len(lit) if actual.startswith(lit) else None

        o = _decide(text, pos, matcher, viable=lambda actual: lit.startswith(actual))
        if not o[0]:
            return None
        return Node(self, text, pos, o[1])

    def quant_match(self, text, pos, cache, error):
        if isinstance(text, SymText) and self.members[0] is _space and self.min == 0 and self.max == float("inf"):
            n = text.vlen
            p = pos
            while p < n:
                ci = text.cp_at.get(p)
                if ci is None:
                    if str.__getitem__(text, p) == " ":
                        p += 1
                        continue
                    break
                st, w, alts = text.cps[ci]
                if ci in text.decisions:
                    alt = alts[text.decisions[ci]]
                    off = p - st
                    rest = alt[off:]
                    k = 0
                    while k < len(rest) and rest[k] == " ":
                        k += 1
                    if k == len(rest):
                        p = st + w
                        continue
                    p = p + k
                    break
                if all(set(a) <= {" "} for a in alts):
                    p = st + w
                    continue
                raise Fork(ci)
            return Node(self, text, pos, p, [])
        return _orig["quant"](self, text, pos, cache, error)

    E.Regex._uncached_match = regex_match
    E.Literal._uncached_match = lit_match
    E.Quantifier._uncached_match = quant_match


def uninstall():
    E.Regex._uncached_match = _orig["regex"]
    E.Literal._uncached_match = _orig["lit"]
    E.Quantifier._uncached_match = _orig["quant"]


def explore(parts, convert, max_paths=3000):
    """-> list of (decisions dict, outcome)"""
    results = []
    stack = [dict()]
    while stack:
        dec = stack.pop()
        text = SymText(parts, dec)
        try:
            out = convert(text)
        except Fork as f:
            alts = text.cps[f.cp][2]
            for k in range(len(alts)):
                d = dict(dec)
                d[f.cp] = k
                stack.append(d)
            continue
        results.append((dec, out))
        if len(results) > max_paths:
            raise RuntimeError("gapsym: path explosion")
    return results


def coverage(parts, results):
    """z3: the decided choice points of the paths partition the layout space (pairwise disjoint, jointly exhaustive)"""
    cps = [p for p in parts if not isinstance(p, str)]
    xs = [z3.Int(f"g{i}") for i in range(len(cps))]
    dom = [z3.And(x >= 0, x < len(c)) for x, c in zip(xs, cps)]
    conds = [z3.And(*[xs[i] == k for i, k in dec.items()]) if dec else z3.BoolVal(True) for dec, _ in results]
    v, _ = smt.check(dom + [z3.Not(z3.Or(*conds))], 20000)
    if v != "unsat":
        return "not-exhaustive:" + v
    if len(conds) > 1 and len(conds) <= 60:
        v2, _ = smt.check(dom + [z3.Or(*[z3.And(a, b) for a, b in itertools.combinations(conds, 2)])], 20000)
        if v2 != "unsat":
            return "overlap:" + v2
    return "ok"


def brute(parts, convert_concrete):
    cps = [p for p in parts if not isinstance(p, str)]
    outs = {}
    for combo in itertools.product(*[range(len(c)) for c in cps]):
        it = iter(combo)
        s = "".join(p if isinstance(p, str) else p[next(it)] for p in parts)
        o = convert_concrete(s)
        outs.setdefault(o, 0)
        outs[o] += 1
    return outs


def weight(parts, dec):
    cps = [p for p in parts if not isinstance(p, str)]
    n = 1
    for i, c in enumerate(cps):
        if i not in dec:
            n *= len(c)
    return n
