"""C15 - any input is either converted or refused with a documented error (E2 lemmas + crash monitor).

Solver part (z3 regex / string queries over the real regexes): every token the numeric / hex / dimension terminals
accept reaches its conversion without an exception; every procedure name that passes PROCNAME_REGEX.match is re-found
by PROCEDURE_START_PREFIX in the emitted header.  Monitor part: the real convert() is called on every single-token
deletion / duplication / swap of the statement-coverage and device programs, on extreme literals and on option
extremes, under a per-call watchdog; any exception other than the documented refusals is a finding, identified by
exception class and the function of the tool that raised it.
"""
import io
import itertools
import os
import re
import signal
import tempfile
import traceback

import z3

from vf import rxsmt, smt
from vf.core import REPO, Ctx, HarnessError, pmap, repo_source
from vf.realconv import compiler, exc_kind
from vf.tv import families
from vf.tv.lex import CB_TOKEN

WATCHDOG_S = 5


class Hang(Exception):
    pass


def _alarm(signum, frame):
    raise Hang()


def crash_site(e):
    """(exception class, module.function of the innermost frame inside coco/)"""
    inner = e
    while getattr(inner, "__cause__", None) is not None or (getattr(inner, "__context__", None) is not None and not inner.__suppress_context__):
        nxt = inner.__cause__ or inner.__context__
        if nxt is None:
            break
        inner = nxt
    frames = [os.path.basename(fr.filename)[:-3] + "." + fr.name for fr in traceback.extract_tb(inner.__traceback__) if os.sep + "coco" + os.sep in fr.filename]
    site = ">".join(frames[-2:]) if frames else "?"
    return type(inner).__name__, site


def guarded(src, opts, limit=None, via_file=False):
    """-> ('ok'|'refused'|'crash'|'hang', detail).  The watchdog counts the CPU time of this process (ITIMER_PROF), not
    wall time: a loaded machine must not turn a slow schedule into a 'hang'."""
    old = signal.signal(signal.SIGPROF, _alarm)
    signal.setitimer(signal.ITIMER_PROF, limit or WATCHDOG_S)
    try:
        try:
            if via_file:
                # the path of the command line: convert_file reads the text from a file object and writes the result
                compiler().convert_file(io.StringIO(src), io.StringIO(), **{k: v for k, v in opts.items() if k not in ("add_suffix", "skip_procedure_headers")})
            else:
                compiler().convert(src, **opts)
            return "ok", ""
        except Hang:
            return "hang", f"no result within {limit or WATCHDOG_S} s of CPU time"
        except RecursionError:
            return "crash", "RecursionError@?"
        except Exception as e:  # noqa: BLE001
            if exc_kind(e) == "refused":
                return "refused", type(e).__name__
            cls, site = crash_site(e)
            return "crash", f"{cls}@{site}"
    finally:
        signal.setitimer(signal.ITIMER_PROF, 0)
        signal.signal(signal.SIGPROF, old)


def tokens_of(src):
    out = []
    for line in src.split("\n"):
        toks = []
        pos = 0
        while pos < len(line):
            if line[pos] == " ":
                pos += 1
                continue
            m = CB_TOKEN.match(line, pos)
            if not m or m.end() == pos:
                toks.append(line[pos:])
                break
            toks.append(m.group(m.lastgroup))
            pos = m.end()
        out.append(toks)
    return out


_ALT_GROUPS = None


def alt_groups():
    """every ordered choice of the real grammar whose alternatives are all literals (operator spellings, draw modes,
    keyword alternatives): a token that is one alternative is replaced by each of the others"""
    global _ALT_GROUPS
    if _ALT_GROUPS is None:
        from parsimonious import expressions as E

        from coco.b09.grammar import grammar

        groups = []
        seen = set()

        def walk(e):
            if id(e) in seen:
                return
            seen.add(id(e))
            members = getattr(e, "members", ())
            if isinstance(e, E.OneOf) and members and all(isinstance(m, E.Literal) for m in members):
                g = tuple(m.literal for m in members)
                if len(g) > 1 and g not in groups:
                    groups.append(g)
            for m in members:
                walk(m)

        for rule in grammar.values():
            walk(rule)
        _ALT_GROUPS = groups
    return _ALT_GROUPS


def mutants(src):
    lines = tokens_of(src)
    for li, toks in enumerate(lines):
        for i in range(1, len(toks)):
            if re.fullmatch(r"[0-9.]+", toks[i]) and not (i == 0):
                # extreme magnitudes in every numeric operand position (float('inf'), denormal, huge integer)
                for lit in ("1E400", "1E-400", "99999999999999999999"):
                    t = list(toks)
                    t[i] = lit
                    new = [" ".join(x) for x in lines]
                    new[li] = " ".join(t)
                    yield "\n".join(new)
            for g in alt_groups():
                if toks[i] in g:
                    for alt in g:
                        if alt != toks[i]:
                            t = list(toks)
                            t[i] = alt
                            new = [" ".join(x) for x in lines]
                            new[li] = " ".join(t)
                            yield "\n".join(new)
    # an operand replaced by a function the tool turns into a procedure call (hoisted in front of the statement): every
    # numeric / string operand position of every statement must survive that
    for li, toks in enumerate(lines):
        for i in range(1, len(toks)):
            if re.fullmatch(r"[A-Z]|[0-9]+", toks[i]) and not (i + 1 < len(toks) and toks[i + 1] in ("=", "(") and i == 1):
                subs = ("INT ( X )", "JOYSTK ( 0 )")
            elif re.fullmatch(r"[A-Z]\$", toks[i]) and not (i + 1 < len(toks) and toks[i + 1] in ("=", "(") and i == 1):
                subs = ("INKEY$", "STR$ ( X )")
            else:
                continue
            for sub in subs:
                t = list(toks)
                t[i] = sub
                new = [" ".join(x) for x in lines]
                new[li] = " ".join(t)
                yield "\n".join(new)
    for li, toks in enumerate(lines):
        for i in range(1, len(toks)):
            for kind in ("del", "dup", "swap"):
                t = list(toks)
                if kind == "del":
                    del t[i]
                elif kind == "dup":
                    t.insert(i, t[i])
                else:
                    if i + 1 >= len(t):
                        continue
                    t[i], t[i + 1] = t[i + 1], t[i]
                new = [" ".join(x) for x in lines]
                new[li] = " ".join(t)
                yield "\n".join(new)


PLAIN = dict(add_standard_prefix=False, add_suffix=False, skip_procedure_headers=True)
FULL = dict(add_standard_prefix=True, add_suffix=True, skip_procedure_headers=False, output_dependencies=True, procname="prog", initialize_vars=True, filter_unused_linenum=True)


def check_one(job):
    src, oname = job
    if oname == "file":
        return (job, guarded(src, FULL, via_file=True))  # the text exactly as given (no line end added): empty files, NUL only ...
    return (job, guarded(src + "\n", PLAIN if oname == "plain" else FULL))


def extreme_inputs():
    srcs = ["", "\n", "\0", "10", "10 ", "A=1", "10 A=1\n\n\n20 B=2\n", "10 A=1\r20 B=2\r", "10 A=1\r\n20 B=2\r\n\0",
            "10 A=1E400", "10 A=1E-400", "10 A=" + "9" * 400, "10 A=-" + "9" * 40 + "." + "9" * 40, "99999999999999999999 END", "32700 END", "32699 END",
            "10 A=&HFFFFFF", "10 A=&H0", "10 DIM A(&H0)", "10 DIM A(0)", "10 DIM A(&HFFFFFF)", "10 DIM A(99999)", "10 DIM A(1,2,3)",
            "10 A=" + "(" * 30 + "1" + ")" * 30, "10 A=" + "-" * 50 + "1", "10 PRINT " + ";" * 200, "10 A$=\"" + "X" * 5000 + "\"",
            "10 " + ":".join(["A=1"] * 300), "\n".join(f"{i} A=1" for i in range(1, 400)), "10 DATA " + "," * 100, "10 DATA &HFF,", "10 DATA ,&HFF",
            "10 DATA &HFF,,1\n20 READ A,B,C", "10 REM " + "\x7f\x80\xff", "10 PRINT \"\x00\"", "10 GOTO 10", "10 NEXT", "10 NEXT I,J,K", "10 RETURN",
            "10 FOR I=1 TO 2", "10 IF A THEN", "10 IF A=1 THEN ELSE", "10 ON A GOTO", "10 ON ERR GOTO 10:ON ERR GOTO 10", "10 A=.", "10 A=1E", "10 A=--1", "10 A=& H FF",
            "10 A=&H FF", "10 FOR I=1 TO 2:FOR J=1 TO 2:NEXT I,J", "10 FOR I=1 TO 2:NEXT I,I", "10 FOR I=1 TO 2:FOR J=1 TO 2:FOR K=1 TO 2:NEXT J,K,I",
            "10 FOR I=1 TO 2:FOR J=1 TO 2:NEXT J,I:NEXT", "10 FOR G=1 TO 2:FOR H=1 TO 2:FOR I=1 TO 2:FOR J=1 TO 2:NEXT J,I:NEXT:NEXT", "10 NEXT I:FOR I=1 TO 2", "10 FOR I=1 TO 2:NEXT J",
            "10 POKE &HFFD8,0", "10 POKE 1E309,1", "10 POKE -1E400,0", "10 POKE 65496.5,0", "10 IF A THEN POKE 1 E 999,0", "10 SOUND 1E400,1", "10 A(1E400)=1", "10 ON 1E400 GOTO 10", "10 FOR I=1 TO 1E400:NEXT", "10 PRINT TAB(1E400)", "10 HCIRCLE(1,2),3,", "10 HCIRCLE(1,2),3,,", "10 PRINT@", "10 INPUT", "10 LINE INPUT \"X\";A", "10 DIM", "10 READ", "10 DATA", '10 PRINT "X" : REM RUN prog', "10 REM RUN prog", '10 PRINT "RUN prog"']
    return srcs


def monitor(ctx, tier):
    bases = list(families.statement_coverage()) + [src for name, tag, src in families.device_programs(False) if tag in ("vars", "lits")]
    jobs = []
    for b in bases:
        jobs.append((b, "plain"))
        for m in mutants(b):
            jobs.append((m, "plain"))
    if tier == "thorough":
        for b in bases:
            for m in mutants(b):
                jobs.append((m, "full"))
        # second-order edits: every edit of every 7th first-order edit (deterministic), plus every edit of the
        # control-flow templates of C02 and of the expression families of C01
        firsts = [m for b in bases for m in mutants(b)]
        for m1 in firsts[::7]:
            for m2 in mutants(m1):
                jobs.append((m2, "plain"))
        from vf.props import c01, c02

        for name in c02.TEMPLATES:
            try:
                src = c02.build([name]) if c02.valid([name]) else None
            except Exception:  # noqa: BLE001
                src = None
            if src:
                jobs.append((src, "plain"))
                for m in mutants(src):
                    jobs.append((m, "plain"))
        for e in list(c01.rel_family()) + list(c01.str_family()):
            for tpl in ("10 IF {e} THEN 10", "10 Z = {e}", "10 PRINT {e}"):
                src = tpl.format(e=e)
                jobs.append((src, "plain"))
                for m in mutants(src):
                    jobs.append((m, "plain"))
    for s in extreme_inputs():
        jobs.append((s, "plain"))
        jobs.append((s, "full"))
        jobs.append((s, "file"))
    for s in ("\x1a", "10 PRINT 1\x1a", "10 PRINT 1\n\x1a", "\r", "\r\n", " ", "\n\n", "10 PRINT 1", "10 PRINT 1\r"):
        jobs.append((s, "file"))
    # de-duplicate
    jobs = list(dict.fromkeys(jobs))
    ctx.bounds["monitor_inputs"] = len(jobs)
    results = pmap(check_one, jobs, chunksize=256)
    tally = {}
    for (src, oname), (status, detail) in results:
        ctx.stats["programs"] += 1
        tally[status] = tally.get(status, 0) + 1
        if status == "crash":
            ctx.violation(f"crash:{detail}", f"{src[:90]!r} [{oname}] raises {detail}", {"source": src, "options": oname})
        elif status == "hang":
            # replay before reporting: once more in this process with four times the CPU budget
            again = guarded(src, FULL, limit=4 * WATCHDOG_S, via_file=True) if oname == "file" else guarded(src + "\n", PLAIN if oname == "plain" else FULL, limit=4 * WATCHDOG_S)
            ctx.stats["traces_validated_against_impl"] += 1
            if again[0] != "hang":
                ctx.notes.append(f"watchdog fired once for {src[:60]!r} but the input converts in time on replay ({again[0]})")
                continue
            ctx.violation(f"hang:{re.sub(r'[0-9]+', 'N', src[:30])}", f"{src[:90]!r} [{oname}]: {detail}", {"source": src, "options": oname})
    ctx.extra["monitor_outcomes"] = tally
    for (src, oname), (status, detail) in results[:: max(1, len(results) // 8)]:
        ctx.sample({"input": src[:80], "options": oname, "outcome": status, "detail": detail})


def option_extremes(ctx):
    from coco.b09.configs import CompilerConfigs, StringConfigs

    src = '10 DIM A$(3) : A$(1) = "X" : B$ = A$(1) : PRINT B$ ; 1 : C$ = INKEY$ : CLS : REM RUN prog\n'
    for kw in (dict(default_str_storage=1), dict(default_str_storage=32766), dict(default_str_storage=0), dict(default_str_storage=-5),
               dict(procname=""), dict(procname="x" * 200), dict(procname="a b"), dict(procname="9"), dict(procname="_"), dict(procname="ecb_cls"),
               dict(procname="inkey"), dict(procname="ecb_str"), dict(procname="prog"), dict(procname="prog.bas")):
        opts = dict(FULL)
        opts.update(kw)
        status, detail = guarded(src, opts)
        ctx.stats["programs"] += 1
        if status in ("crash", "hang"):
            ctx.violation(f"{status}:option:{sorted(kw)[0]}:{detail}", f"options {kw}: {detail}", {"source": src, "options": kw})
    for mapping in ({"A$": 1}, {"A$()": 32766}, {"A$": 0}, {"A$": 32767}, {"AAA$": 5}, {"a$": 5}, {"A": 5}, {"$": 5}, {"": 5}, {"A$()()": 5}, {"A!$": 5}, {"A$": "x"}):
        try:
            sc = StringConfigs(strname_to_size=mapping)
            status, detail = guarded(src, dict(FULL, compiler_configs=CompilerConfigs(string_configs=sc)))
        except Exception as e:  # noqa: BLE001
            status, detail = ("refused", type(e).__name__) if exc_kind(e) == "refused" else ("crash", "%s@%s" % crash_site(e))
        ctx.stats["programs"] += 1
        if status in ("crash", "hang"):
            ctx.violation(f"{status}:config:{detail}", f"string config {mapping}: {detail}", {"mapping": mapping})


CONFIG_FILES = {
    "good": "string_configs:\n  strname_to_size:\n    A$: 100\n",
    "good-array": "string_configs:\n  strname_to_size:\n    \"A$()\": 50\n",
    "empty": "",
    "comment-only": "# nothing here\n",
    "empty-mapping": "{}\n",
    "top-level-list": "- string_configs:\n    strname_to_size:\n      A$: 100\n",
    "top-level-scalar": "A$ 100\n",
    "top-level-number": "42\n",
    "null": "null\n",
    "string-configs-list": "string_configs:\n  - A$\n",
    "string-configs-scalar": "string_configs: 5\n",
    "map-scalar": "string_configs:\n  strname_to_size: 7\n",
    "size-string": "string_configs:\n  strname_to_size:\n    A$: big\n",
    "size-zero": "string_configs:\n  strname_to_size:\n    A$: 0\n",
    "bad-key": "string_configs:\n  strname_to_size:\n    a$: 10\n",
    "unknown-field": "strings:\n  A$: 10\n",
    "non-string-key": "string_configs:\n  strname_to_size:\n    1: 10\n",
    "two-documents": "string_configs: {}\n---\nstring_configs: {}\n",
}


def config_files(ctx):
    """-c <file>: every YAML shape either loads or fails with the documented configuration validation error
    (pydantic ValidationError) or a YAML syntax error of the YAML library; never another exception"""
    import io

    from coco.b09 import compiler

    ctx.encode("configs.CompilerConfigs.load (executed on files of every YAML shape)", repo_source("coco/b09/configs.py"))
    tmp = tempfile.mkdtemp(prefix="c15cfg")
    try:
        for name, text in CONFIG_FILES.items():
            path = os.path.join(tmp, name + ".yaml")
            with open(path, "w") as f:
                f.write(text)
            ctx.stats["programs"] += 1
            try:
                compiler.convert_file(io.StringIO('10 A$ = "X" : PRINT A$\n'), io.StringIO(), config_file=path, procname="prog")
                status, detail = "ok", ""
            except Exception as e:  # noqa: BLE001
                mod = type(e).__module__ or ""
                if exc_kind(e) == "refused" or mod.startswith("ruamel") or mod.startswith("yaml"):
                    status, detail = "refused", type(e).__name__
                else:
                    status, detail = "crash", "%s@%s" % crash_site(e)
            if status == "crash":
                ctx.violation(f"crash:config-file:{name}:{detail}", f"config file {text!r}: {detail}", {"config": text})
    finally:
        import shutil

        shutil.rmtree(tmp, ignore_errors=True)


def cli_names(ctx):
    """decb_to_b09.start end to end for input file names over the characters PROCNAME_REGEX admits (and a few it does not)"""
    from coco import decb_to_b09

    tmp = tempfile.mkdtemp(prefix="c15cli")
    try:
        for stem in ["prog", "my_prog", "my-prog", "-x", "9lives", "a.b", "UPPER", "x", "inkey", "ecb_cls", "a b", "é", "prog.", ".hidden", "noext:hello", "noext:my-game", "noext:PROG_1", "noext:x"]:
            bare = stem.startswith("noext:")
            stem = stem.split(":")[-1]
            path = os.path.join(tmp, stem + ".bas") if not bare and not stem.endswith(".") and not stem.startswith(".") else os.path.join(tmp, stem)
            with open(path, "w") as f:
                f.write('10 PRINT "HI"\n')
            old = signal.signal(signal.SIGPROF, _alarm)
            signal.setitimer(signal.ITIMER_PROF, WATCHDOG_S * 4)
            try:
                try:
                    decb_to_b09.start([path, os.path.join(tmp, "out.b09")])
                    status, detail = "ok", ""
                except SystemExit as e:
                    status, detail = "refused", f"exit {e.code}"
                except Hang:
                    status, detail = "hang", ""
                except RecursionError:
                    status, detail = "crash", "RecursionError@?"
                except Exception as e:  # noqa: BLE001
                    status, detail = ("refused", type(e).__name__) if exc_kind(e) == "refused" else ("crash", "%s@%s" % crash_site(e))
            finally:
                signal.setitimer(signal.ITIMER_PROF, 0)
                signal.signal(signal.SIGPROF, old)
            ctx.stats["programs"] += 1
            if status in ("crash", "hang"):
                shape = "dash" if "-" in stem else "own-runtime-name" if stem in ("inkey", "ecb_cls") else "other:" + stem
                ctx.violation(f"{status}:cli-file-name:{shape}:{detail}", f"input file {os.path.basename(path)!r}: {detail}", {"file": os.path.basename(path)})
    finally:
        import shutil

        shutil.rmtree(tmp, ignore_errors=True)


def cli_content(ctx):
    """the command line on listings whose comments, literals and DATA items hold characters outside ASCII (the text is
    carried through unchanged): converted or refused, never a traceback.  Run in a fresh interpreter in UTF-8 mode so that
    the result does not depend on this process's locale."""
    import subprocess
    import sys

    tmp = tempfile.mkdtemp(prefix="c15cc")
    try:
        texts = {"comment": "10 REM caf\u00e9 \u2013 men\u00fc\n", "literal": '10 PRINT "\u00a9 1984 \u201cQUOTED\u201d"\n', "data": "10 DATA na\u00efve , 2\n20 READ A$ , B\n",
                 "apostrophe-comment": "10 A = 1 ' \u00bd price\n", "latin1-only": '10 PRINT "\u00e9\u00e8"\n', "ascii": '10 PRINT "PLAIN"\n'}
        for nm, text in texts.items():
            for extra in ([], ["-D"], ["-l", "-z", "-s", "80"]):
                inp, outp = os.path.join(tmp, nm + ".bas"), os.path.join(tmp, nm + ".b09")
                with open(inp, "w", encoding="utf-8") as f:
                    f.write(text)
                code = "import sys; sys.path.insert(0, %r); from coco import decb_to_b09; decb_to_b09.start(%r)" % (REPO, [inp, outp] + extra)
                r = subprocess.run([sys.executable, "-c", code], env=dict(os.environ, PYTHONUTF8="1", PYTHONHASHSEED="0"), capture_output=True, text=True, timeout=120)
                ctx.stats["programs"] += 1
                ctx.stats["obligations"] += 1
                if r.returncode == 0:
                    ctx.stats["identity"] += 1
                    continue
                last = (r.stderr.strip().split("\n") or [""])[-1]
                cls = last.split(":")[0].split(".")[-1]
                if cls in DOCUMENTED_CLI:
                    ctx.stats["identity"] += 1
                else:
                    ctx.violation(f"crash:cli-content:{nm}:{cls}", f"decb_to_b09 on a listing with non-ASCII text in its {nm} {extra}: {last[:140]}", {"source": text, "options": "cli", "argv": extra})
                    break
    finally:
        import shutil

        shutil.rmtree(tmp, ignore_errors=True)


DOCUMENTED_CLI = {"ParseError", "IncompleteParseError", "LineNumberTooLargeException", "ValidationError"}


def regex_lemmas(ctx, tier):
    from coco.b09 import procbank
    from coco.b09.grammar import PROCNAME_REGEX, grammar

    s = z3.String("tok")
    # int_literal / linenum: int() accepts every match (pure digits): the regex language is within \d+
    for rule in ("int_literal", "linenum"):
        pat = grammar[rule].re.pattern
        ctx.encode(f"grammar.{rule}", pat)
        ctx.stats["obligations"] += 1
        v, m = smt.check([z3.InRe(s, rxsmt.lang(pat)), z3.Not(z3.InRe(s, z3.Plus(z3.Range("0", "9")))), z3.Length(s) <= 8], 20000, True)
        ctx.stats[v] += 1
        ctx.sample({"lemma": f"every {rule} token is a digit string int() accepts", "verdict": v})
        if v == "sat":
            ctx.violation(f"regex:{rule}:non-digit", f"{rule} accepts {rxsmt.z3str(m.eval(s, True).as_string())!r}", {})
    # int_hex_literal in DIM: digits after H without blanks
    pat = grammar["int_hex_literal"].re.pattern
    ctx.encode("grammar.int_hex_literal", pat)
    HEX = z3.Union(z3.Range("0", "9"), z3.Range("A", "F"))
    ok = z3.Concat(z3.Re("&"), z3.Star(z3.Re(" ")), z3.Re("H"), z3.Plus(HEX))
    ctx.stats["obligations"] += 1
    v, m = smt.check([z3.InRe(s, rxsmt.lang(pat)), z3.Not(z3.InRe(s, ok)), z3.Length(s) <= 10], 20000, True)
    ctx.stats[v] += 1
    if v == "sat":
        lit = rxsmt.z3str(m.eval(s, True).as_string())
        status, detail = guarded(f"10 DIM A({lit})\n", PLAIN)
        ctx.stats["traces_validated_against_impl"] += 1
        if status == "crash":
            ctx.violation(f"crash:{detail}", f"DIM bound {lit!r}: {detail}", {"source": f"10 DIM A({lit})"})
    # procedure name: PROCNAME_REGEX.match (a prefix match) vs the header regex of the bank
    ctx.encode("grammar.PROCNAME_REGEX", PROCNAME_REGEX.pattern)
    ctx.encode("procbank.PROCEDURE_START_PREFIX", procbank.PROCEDURE_START_PREFIX.pattern)
    name = z3.String("procname")
    anyc = z3.Full(z3.ReSort(z3.StringSort()))
    csrc = repo_source("coco/b09/compiler.py")
    if "PROCNAME_REGEX.fullmatch(" in csrc:
        passes = z3.InRe(name, rxsmt.lang(PROCNAME_REGEX))
        how = "fullmatch"
    elif "PROCNAME_REGEX.match(" in csrc:
        passes = z3.InRe(name, z3.Concat(rxsmt.lang(PROCNAME_REGEX), anyc))  # .match = prefix match
        how = "match (prefix)"
    else:
        raise HarnessError("compiler.py no longer tests the procedure name with PROCNAME_REGEX.match/fullmatch; the lemma must be re-derived")
    ctx.bounds["procname_test_as_read_from_source"] = how
    header = z3.Concat(z3.StringVal("procedure "), name)
    refound = z3.InRe(header, rxsmt.lang(procbank.PROCEDURE_START_PREFIX))
    word = z3.InRe(name, z3.Plus(z3.Union(z3.Range("0", "9"), z3.Range("a", "z"), z3.Range("A", "Z"), z3.Re("_"))))
    ctx.stats["obligations"] += 1
    v, m = smt.check([passes, z3.Length(name) <= 6, z3.Length(name) >= 1, z3.Not(refound)], 30000, True)
    ctx.stats[v] += 1
    ctx.sample({"lemma": f"a procedure name accepted by PROCNAME_REGEX.{how} gives a header the bank re-finds with the same name", "verdict": v})
    if v == "sat":
        pn = rxsmt.z3str(m.eval(name, True).as_string())
        status, detail = guarded('10 PRINT "X"\n', dict(FULL, procname=pn))
        ctx.stats["traces_validated_against_impl"] += 1
        if status in ("crash", "hang"):
            cls = "non-word-char" if re.search(r"[^\w]", pn) else "other"
            ctx.violation(f"{status}:procname:{cls}:{detail}", f"procname {pn!r}: {detail}", {"procname": pn})
        else:
            ctx.note_inconclusive(f"procname lemma model {pn!r} converts without an exception ({status}); header handling not judged here")
    elif v == "unknown":
        ctx.note_inconclusive("procname lemma")


def run(tier):
    ctx = Ctx("C15", tier, "other", technique="z3 regex/string queries over the real token and procedure-name regexes + crash/hang monitor of the real convert() over all single-token edits of the statement families, extreme literals, option extremes and file names")
    smt.reset_stats()
    for rel in ("coco/b09/compiler.py", "coco/b09/parser.py", "coco/b09/visitors.py", "coco/b09/procbank.py", "coco/decb_to_b09.py", "coco/b09/configs.py"):
        ctx.encode(rel + " (executed: real convert() / start())", repo_source(rel))
    regex_lemmas(ctx, tier)
    monitor(ctx, tier)
    option_extremes(ctx)
    config_files(ctx)
    cli_names(ctx)
    cli_content(ctx)
    ctx.stats["obligations"] += ctx.stats["programs"]
    ctx.add_solver_stats(smt.STATS.export())
    ctx.extra["solver"] = {"z3": smt.z3_version()}
    ctx.explanation = ("The token/procedure-name lemmas are decided by z3 over the real regexes (bounded lengths); the monitor is an enumeration "
                       "(every single-token deletion, duplication and swap of the statement-coverage and device programs, extreme literals, option and "
                       "file-name extremes), each call under a 5 s watchdog. Crash identity = exception class @ innermost function of the tool.")
    ctx.assume("documented refusals: parsimonious ParseError/IncompleteParseError, compiler.ParseError, LineNumberTooLargeException, pydantic ValidationError")
    ctx.assume("arbitrary text beyond single-token edits of family programs and the listed extremes is outside; nesting deeper than 30 parentheses is outside")
    return ctx


def replay(rec):
    if "source" in rec:
        opts = rec.get("options")
        if opts == "cli":
            probe = Ctx("C15", "quick", "other", technique="replay")
            cli_content(probe)
            return bool(probe.new_violations or probe.known_hit)
        if opts == "file":
            r = guarded(rec["source"], FULL, via_file=True)
            print(r)
            return r[0] in ("crash", "hang")
        if isinstance(opts, str):
            o = PLAIN if opts == "plain" else FULL
        elif isinstance(opts, dict):
            o = dict(FULL)
            o.update(opts)
        else:
            o = PLAIN
        r = guarded(rec["source"] + "\n", o)
        print(r)
        return r[0] in ("crash", "hang")
    if "procname" in rec:
        r = guarded('10 PRINT "X"\n', dict(FULL, procname=rec["procname"]))
        print(r)
        return r[0] in ("crash", "hang")
    return True
