"""C04 - screen, graphics and sound statements reach the runtime with the right operands (E3 + E5).

Every device statement form x presence/absence pattern of optional operands x operand shapes: the real convert()
output is executed by the BASIC09 machine; each RUN is bound to the *real* param list of ecb.b09 and compared, per
parameter name, with what the reference map (vf/tv/refmap.py) says the source operand is - operands are distinct
symbolic variables, z3 decides equality of the argument terms.  POKE: the real BasicPoke.basic09_text is run on a
symbolic address (E5).  HBUFF prologue: emitted iff the program uses HBUFF.
"""
import re

import z3

from vf import smt, symproxy
from vf.core import Ctx, HarnessError, pmap, repo_source
from vf.realconv import classify, convert_full
from vf.tv import equiv, families, lib as tvlib

_LIB = None


def library():
    global _LIB
    if _LIB is None:
        _LIB = tvlib.load_library()
    return _LIB


def norm(detail):
    d = re.sub(r"tmp_\d+\$?", "tmp", detail, flags=re.I)
    d = re.sub(r"event \d+: ", "", d)
    d = re.sub(r"\b\d+(\.\d+)?\b", "N", d)
    d = re.sub(r"'[^']*'", "<tok>", d)
    return d[:100]


def check_one(job):
    form, tag, src = job
    st = smt.Stats()
    smt.STATS = st  # path-feasibility queries of the machines are charged to this job too
    out = {"job": job, "sigs": [], "counts": {}, "status": None}
    o = classify(src + "\n")
    out["status"] = o[0]
    if o[0] != "ok":
        if o[0] == "crash":
            out["sigs"].append((f"crash:{form}:{o[1]}", f"convert() raised {o[1]}", {}))
        out["stats"] = st.export()
        return out
    res = equiv.compare(src, o[1], library=library(), stats=st)
    out["emitted"] = o[1]
    out["counts"] = dict(res.counts)
    out["status"] = res.status
    if res.status in ("refgap", "outside"):
        out["note"] = res.note
        out["sigs"].append((f"harness-gap:{form}", "reference cannot read the source: " + res.note, {}))
    vclass = re.sub(r"\d+$", "", tag.split("+")[0])
    for f in res.findings:
        if f.kind in ("arity", "type-class", "missing-argument", "duplicate-decl", "uninitialised-read"):
            continue  # interface conformance is C14's subject; declarations C10; initialisation C03
        if f.kind == "syntax":
            out["sigs"].append((f"syntax:{form}:{vclass}:{norm(f.detail)}", f.detail, {}))
        elif f.kind == "unknown":
            out["sigs"].append(("unknown", f.detail, {}))
        else:
            out["sigs"].append((f"{f.kind}:{form}:{vclass}:{norm(f.detail)}", f.detail, f.witness))
    out["stats"] = st.export()
    return out


def poke_threshold(ctx):
    """E5: real BasicPoke.basic09_text with a symbolic literal address"""
    from coco.b09 import elements as el

    ctx.encode("elements.BasicPoke.basic09_text", repo_source("coco/b09/elements.py"))
    a = z3.Int("addr")
    for cls_name in ("BasicLiteral", "HexLiteral"):
        def fn():
            if cls_name == "BasicLiteral":
                addr = el.BasicLiteral(symproxy.SInt(a))
            else:
                addr = object.__new__(el.HexLiteral)
                el.AbstractBasicExpression.__init__(addr, is_str_expr=False)
                addr._literal = symproxy.SInt(a)
                addr._is_float = True
            return el.BasicPoke(addr, el.BasicLiteral(1.0)).basic09_text(0)

        old_hex = el.__dict__.get("hex")
        el.hex = symproxy.sym_hex
        try:
            paths = symproxy.explore(fn, premises=[a >= 0, a <= 0xFFFFFF])
        finally:
            if old_hex is None:
                del el.hex
            else:
                el.hex = old_hex
        ctx.stats["states"] += len(paths)
        for pc, (stt, text), holes in paths:
            if stt != "ok":
                ctx.harness_gap(f"BasicPoke on symbolic address: {stt} {text}")
                continue
            shape = "".join(p if isinstance(p, str) else "#" for p in symproxy.split_template(text))
            m = re.fullmatch(r"play\.octo := ([01])", shape)
            ctx.stats["obligations"] += 1
            if m:
                want = 65496 if m.group(1) == "0" else 65497
                v, mdl = smt.check(list(pc) + [a != want], 10000, True)
                what = f"`{shape}` is emitted only for address {want}"
            elif shape.startswith("POKE "):
                v, mdl = smt.check(list(pc) + [z3.Or(a == 65496, a == 65497)], 10000, True)
                what = "a plain POKE is emitted only for addresses other than 65496/65497"
            else:
                ctx.violation(f"poke-shape:{shape}", f"POKE emitted as {shape!r}", {"path": [str(c) for c in pc]})
                continue
            ctx.stats[v] += 1
            ctx.sample({"obligation": what, "address_literal_class": cls_name, "path": [str(c) for c in pc][2:], "verdict": v})
            if v == "sat":
                val = mdl.eval(a, True).as_long()
                src = f"10 POKE {val},1" if cls_name == "BasicLiteral" else f"10 POKE &H{val:X},1"
                o = classify(src + "\n")
                ctx.stats["traces_validated_against_impl"] += 1
                expect_octo = val in (65496, 65497)
                got_octo = o[0] == "ok" and "play.octo" in o[1]
                if o[0] == "ok" and expect_octo != got_octo:
                    ctx.violation(f"poke-threshold:{cls_name}", f"{src!r} -> {o[1].strip()!r}", {"source": src, "emitted": o[1]})
                else:
                    raise HarnessError(f"POKE model {val} did not replay: {o}")
            elif v == "unknown":
                ctx.note_inconclusive("poke threshold")


def hbuff_prologue(ctx):
    progs = [("10 HBUFF 1 , 2", True), ("10 HGET ( 1 , 2 ) - ( 3 , 4 ) , 1", False), ("10 A = 1", False), ("10 IF A = 1 THEN HBUFF 1 , 2", True),
             ("10 IF A = 1 THEN B = 1 ELSE HBUFF 1 , 2", True), ("10 IF A = 1 THEN B = 1 ELSE IF A = 2 THEN B = 2 ELSE HBUFF 1 , 2", True),
             ("10 FOR I = 1 TO 2 : HBUFF I , 9 : NEXT", True), ("10 REM HBUFF", False), ('10 PRINT "HBUFF 1,2"', False), ("10 HPUT ( 1 , 2 ) - ( 3 , 4 ) , 1 , PSET", False)]
    for src, uses in progs:
        for prefix in (True, False):
            out = convert_full(src + "\n", add_standard_prefix=prefix, skip_procedure_headers=True)
            has = "_ecb_init_hbuff" in out and re.search(r"(?im)^\s*dim pid\s*:\s*integer", out) is not None
            ctx.stats["obligations"] += 1
            ctx.stats["programs"] += 1
            want = uses and prefix
            if has == want:
                ctx.stats["identity"] += 1
            else:
                ctx.violation(f"hbuff-prologue:{'missing' if want else 'spurious'}:{src[3:]}", f"{src!r} add_standard_prefix={prefix}: prologue {'absent' if want else 'present'}", {"source": src, "options": {"add_standard_prefix": prefix}, "emitted": out})


def split_args(code, start):
    depth, k, args, cur = 1, start, [], ""
    while k < len(code) and depth:
        ch = code[k]
        if ch == '"':
            j = code.find('"', k + 1)
            j = len(code) - 1 if j < 0 else j
            cur += code[k:j + 1]
            k = j + 1
            continue
        if ch == "(":
            depth += 1
        elif ch == ")":
            depth -= 1
            if not depth:
                break
        if ch == "," and depth == 1:
            args.append(cur.strip())
            cur = ""
        else:
            cur += ch
        k += 1
    args.append(cur.strip())
    return args


def argument_representation(ctx):
    """BASIC09 hands a procedure the storage of each argument as it is, without conversion: a REAL where the procedure
    declares INTEGER or BYTE (or the other way round) is read as different bytes, and a string literal longer than the
    declared STRING[n] arrives cut.  For every RUN of every device program the representation of each argument (REAL
    variable / literal with a point, INTEGER literal / FIX(), declared type of a prologue variable, length of a string
    literal) is compared with the parameter's declared type in the library text."""
    lib = library()
    progs = [src for name, tag, src in families.device_programs(False) if tag in ("vars", "lits")]
    seen = set()
    n = 0
    for src in progs:
        o = classify(src + "\n", plain=False, add_standard_prefix=True, add_suffix=False, skip_procedure_headers=True)
        if o[0] != "ok":
            continue
        text = o[1]
        declared = {}
        for m in re.finditer(r"(?im)^\s*(?:\d+\s+)?dim\s+([^:\n]+):\s*(\w+)", text):
            for nm in m.group(1).split(","):
                declared[re.sub(r"\(.*", "", nm).strip().upper()] = m.group(2).lower()
        for line in text.split("\n"):
            code = re.sub(r"\(\*.*", "", line)
            for m in re.finditer(r"(?i)\brun\s+(\w+)\(", code):
                P = lib.get(m.group(1).lower())
                if P is None:
                    continue
                args = split_args(code, m.end())
                if len(args) != len(P.params):
                    continue  # arity is C14's subject
                for a, prm in zip(args, P.params):
                    pt = prm[2].lower()
                    if a.lower() == "pid" and "HBUFF" not in src:
                        continue  # HGET / HPUT without any HBUFF: no buffer prologue, hence no declaration of pid (not a program)
                    if re.fullmatch(r"-?\d+", a) or re.fullmatch(r"\$[0-9A-Fa-f]+", a) or re.match(r"(?i)FIX\(", a):
                        rep = "integer"
                    elif re.fullmatch(r"-?\d*\.\d*(E[+-]?\d+)?", a) or re.match(r"(?i)FLOAT\(", a):
                        rep = "real"
                    elif re.fullmatch(r'"[^"]*"', a):
                        rep = ("string", len(a) - 2)
                    elif re.fullmatch(r"[A-Za-z_][A-Za-z_0-9]*\$?", a):
                        rep = declared.get(a.upper()) or ("string-var" if a.endswith("$") else "real")
                    else:
                        rep = None  # an expression: BASIC09 evaluates it into a temporary of the expression's type (not decided here)
                    n += 1
                    ctx.stats["obligations"] += 1
                    bad = None
                    if rep in ("real", "integer", "byte") and pt in ("real", "integer", "byte") and rep != pt:
                        bad = f"{rep}-for-{pt}"
                    if isinstance(rep, tuple) and pt == "string":
                        cap = 32 if prm[3] in (None, -1) else prm[3]
                        if rep[1] > cap:
                            bad = f"literal-of-{rep[1]}-characters-for-string-{cap}"
                    if bad is None:
                        ctx.stats["identity"] += 1
                    elif (m.group(1).lower(), prm[0], bad) not in seen:
                        seen.add((m.group(1).lower(), prm[0], bad))
                        ctx.violation(f"arg-representation:{m.group(1).lower()}.{prm[0].lower()}:{bad}", f"{src!r} -> `{code.strip()[:110]}`: argument {a!r} is a {rep if isinstance(rep, str) else 'string literal'}, parameter {prm[0]} of {m.group(1)} is declared {pt}{'' if prm[3] in (None, -1) else '[' + str(prm[3]) + ']'}", {"source": src, "emitted": text})
    ctx.bounds["run_arguments_typed"] = n
    if not n:
        raise HarnessError("argument_representation: no RUN argument found")


FUNCTION_PROCEDURES = {"ecb_int", "ecb_val", "ecb_str", "ecb_hex", "ecb_instr", "ecb_string", "ecb_button", "ecb_joystk", "ecb_point", "ecb_read_filter"}


def inputs_not_written(ctx):
    """BASIC09 passes variables by reference: a runtime procedure that assigns one of its operand parameters changes the
    program's variable (`SET(X,Y,C)` must leave C alone).  In every procedure the tool calls from a program, the only
    parameters written are records (the display / music state) and, in the procedures that stand for a FUNCTION, the last
    parameter (its result)."""
    from vf.tv import b09front

    lib = library()

    def walk(stmts, acc):
        for st in stmts:
            if not isinstance(st, tuple):
                continue
            if st[0] == "assign" and st[1][0] in ("var", "idx"):
                acc.add(st[1][1].upper().split(".")[0])
            if st[0] == "for":
                acc.add(str(st[1]).upper())
            for x in st[1:]:
                if isinstance(x, list):
                    walk(x, acc)
                elif isinstance(x, tuple) and x and isinstance(x[0], tuple):
                    walk(list(x), acc)

    n = 0
    for name, P in sorted(lib.items()):
        if name.startswith("_"):
            continue  # helpers called by the library only: their conventions are the library's own business
        try:
            stmts = b09front.parse_program("\n".join(P.lines))
        except Exception as e:  # noqa: BLE001
            ctx.harness_gap(f"library procedure {name} cannot be read: {e}")
            continue
        acc = set()
        walk(stmts, acc)
        scalars = [p_ for p_ in P.params if p_[2].lower() in ("real", "integer", "byte", "string", "boolean")]
        for i, prm in enumerate(scalars):
            n += 1
            ctx.stats["obligations"] += 1
            is_result = name in FUNCTION_PROCEDURES and i == len(scalars) - 1
            if prm[0].upper() in acc and not is_result:
                ctx.violation(f"input-parameter-written:{name}.{prm[0].lower()}", f"procedure {name} assigns its parameter {prm[0]}; the tool passes the program's variable there by reference, so the statement changes it", {"source": "10 SET ( X , Y , C )", "procedure": name})
            else:
                ctx.stats["identity"] += 1
    ctx.bounds["operand_parameters_checked"] = n


def run(tier):
    ctx = Ctx("C04", tier, "translation_validation", technique="translation validation with SMT: RUN arguments bound to the real ecb.b09 param lists and compared per parameter name with a reference map, operands symbolic; BasicPoke on a symbolic address")
    smt.reset_stats()
    jobs = families.device_programs(deep=(tier == "thorough"))
    ctx.bounds.update({"device_forms": len(families.device_forms()), "programs": len(jobs), "operand_shapes": "variables, literals, v+1, INT(v), -v, Q(v)" + (", &H1F, (v*2), 1+VAL(S$), INKEY$, LEFT$" if tier == "thorough" else "")})
    for rel in ("coco/b09/grammar.py", "coco/b09/parser.py", "coco/b09/elements.py", "coco/b09/compiler.py"):
        ctx.encode(rel + " (executed: real convert())", repo_source(rel))
    ctx.encode("coco/resources/ecb.b09 (param lists)", tvlib.library_text())
    results = pmap(check_one, jobs, chunksize=16)
    for r in results:
        ctx.stats["programs"] += 1
        ctx.add_solver_stats(r["stats"])
        ctx.stats["states"] += r["counts"].get("cb_paths", 0) + r["counts"].get("b09_paths", 0)
        if r["sigs"]:
            ctx.stats["disagreements_checked"] += 1
        for sig, what, witness in r["sigs"]:
            if sig == "unknown":
                ctx.note_inconclusive(f"{r['job'][2]!r}: {what}")
            elif sig.startswith("harness"):
                ctx.harness_gap(f"{r['job'][2]!r}: {what}")
                continue
            else:
                ctx.violation(sig, f"{r['job'][2]!r} -> {what}", {"source": r["job"][2], "emitted": r.get("emitted"), "witness": witness})
    for r in results[:: max(1, len(results) // 8)]:
        ctx.sample({"source": r["job"][2], "emitted": (r.get("emitted") or "").strip()[:160], "status": r["status"]})
    poke_threshold(ctx)
    hbuff_prologue(ctx)
    # string operands of device statements that travel through a temporary keep their length under -s 80
    from vf.props import c03 as _c03

    _c03.capacity(ctx, [("devstr:" + st.split(" ")[1], st) for st in ('10 PLAY STRING$ ( 40 , "C" )', '10 HPRINT ( 0 , 0 ) , STRING$ ( 40 , "-" )', '10 HDRAW "U5" + STR$ ( N )', '10 PRINT @ 5 , HEX$ ( N ) + STRING$ ( 9 , "." )',
                                                                    '10 PLAY A$ + STR$ ( N )', "10 HPRINT ( 1 , 2 ) , INKEY$ + A$", "10 HDRAW LEFT$ ( A$ , 3 ) + HEX$ ( N )")])
    argument_representation(ctx)
    inputs_not_written(ctx)
    # operands that are record fields read by name (the default colour display.hfore, the sound octave play.octo) have the
    # value the runtime stored only if the program's record declarations agree field for field with the library's
    from vf.core import ContractCtx
    from vf.props import c14

    types = {}
    for src in ("10 HCIRCLE ( 1 , 2 ) , 3", '10 PLAY "A" : SOUND 1 , 2'):
        r = c14.check_one(("layout", src))
        for k, v in (r.get("types") or {}).items():
            types.setdefault(k, v)
    if not {"display_t", "play_t"} <= set(types):
        ctx.harness_gap(f"prologue record types not found: {sorted(types)}")
    else:
        c14.record_types(ContractCtx(ctx, "assumed:"), {k: types[k] for k in ("display_t", "play_t")})
    # the device functions are called with the assignment target as the result parameter; when the target is also an
    # operand (B = BUTTON(B), X = POINT(X, Y)) BASIC09 hands the procedure one variable twice: same result required
    from vf.props import contracts

    cctx = ContractCtx(ctx)
    _lib = tvlib.load_library()
    contracts.check_alias_equivalence(cctx, _lib, "ecb_button", "button", "retval", lambda c: contracts.integral(c["button"], 0, 3), "B = BUTTON(B)")
    for arg in ("x", "y"):
        contracts.check_alias_equivalence(cctx, _lib, "ecb_point", arg, "c0", lambda c: contracts.integral(c["x"], 0, 639) + contracts.integral(c["y"], 0, 191), f"{arg.upper()} = POINT(X, Y)")
    ctx.add_solver_stats(smt.STATS.export())
    ctx.extra["solver"] = {"z3": smt.z3_version()}
    ctx.explanation = "each program is one device statement; equality of every bound argument term with the reference operand is one obligation (identity or z3)"
    ctx.assume("reference map statement -> procedure / operand -> parameter name / defaults per the Color BASIC manuals (vf/tv/refmap.py); what the procedures do with the operands is outside")
    return ctx


def replay(rec):
    src = rec["source"]
    if "options" in rec:
        print(convert_full(src + "\n", skip_procedure_headers=True, **rec["options"]))
        return True
    o = classify(src + "\n")
    print(o)
    if o[0] != "ok":
        return o[0] == "crash"
    res = equiv.compare(src, o[1], library=library())
    for f in res.findings:
        print(f)
    return bool(res.findings)
