"""C08 - source layout does not change the translation (E4 gapsym + E2).

Every skeleton (token sequence of a family program) is converted ONCE symbolically over all its layouts: 0-2 blanks at
every token boundary (at least one between two alphanumeric tokens), PRINT or ?, LF / CR / CRLF / blank-line line
ends, optional final line end and trailing NUL, blanks inside numeric and hex literals.  z3 confirms that the explored
paths partition the layout space; all paths must have the same outcome (byte-identical output, or all refused).
Differing layouts are replayed through the unpatched convert().  z3 regex queries over the real content terminals
decide that none of them can swallow a line terminator.
"""
import itertools
import re

import z3

from vf import gapsym, rxsmt, smt
from vf.core import Ctx, HarnessError, pmap, repo_source
from vf.realconv import classify, compiler
from vf.tv import cbfront, families
from vf.tv.lex import RefGap

G = ("", " ", "  ")
G1 = (" ", "  ")
EOLS = ("\n", "\r", "\r\n", "\n\n", "\n \n", "\r\n  \r\n")
LEAD = ("", "\n", " \n", "  \r\n", "\r\r")
TAIL = ("", "\n", "\r", "\n \n", "\n  ")
KW = dict(add_standard_prefix=False, add_suffix=False, skip_procedure_headers=True)


def wordy(ch):
    return ch.isalnum() or ch == "$"


def tokens_of_line(rest):
    toks = []
    for kind, v in cbfront.line_tokens(rest):
        if kind == "rem":
            toks.append(("content", "REM" + v))
        elif kind == "data":
            toks.append(("content", "DATA" + v))
        else:
            toks.append((kind, v))
    return toks


def skeleton(src, eol_choices=True, tail=False, gaps=True):
    """program text (family spelling: one blank between tokens) -> parts list for gapsym"""
    parts = []
    if tail:
        parts.append(LEAD)
    lines = src.split("\n")
    for li, line in enumerate(lines):
        m = re.match(r"(\d+) ?(.*)$", line)
        if not m:
            raise RefGap("line without number")
        num, rest = m.group(1), m.group(2)
        # an apostrophe outside a string starts a comment: the rest of the line is content
        tail_comment = None
        inq = False
        for ci, ch in enumerate(rest):
            if ch == '"':
                inq = not inq
            elif ch == "'" and not inq:
                tail_comment = rest[ci:]
                rest = rest[:ci].rstrip(" ")
                break
        toks = tokens_of_line(rest) if rest else []
        if tail_comment is not None:
            toks.append(("content", tail_comment))
        parts.append(num)
        prev = num
        first = True
        for kind, v in toks:
            if kind == "content":
                # REM / DATA keep their payload; a REM after a statement needs no blank, DATA keyword is alphanumeric
                gap = G if (first or not (wordy(prev[-1]) and wordy(v[0]))) else G1
                parts.append(gap if gaps else gap[0])
                parts.append(v)
                prev = v
                first = False
                continue
            if v == "PRINT" and kind == "id":
                g0 = G if first or not wordy(prev[-1]) else G1
                parts.append(g0 if gaps else g0[0])
                parts.append(("PRINT", "?"))
                prev = "?"  # after `?` no separating blank is needed; after PRINT one is, when a letter follows
                prev_is_print = True
                first = False
                continue
            need1 = (not first) and wordy(prev[-1]) and wordy(v[0])
            if need1 and re.fullmatch(r"[0-9.]+", prev) and v in cbfront.STATEMENT_WORDS:
                need1 = False  # a numeric literal directly followed by a keyword (1.5ELSE, 1TO) needs no blank
            if prev == "?" and wordy(v[0]):
                need1 = True  # the PRINT spelling needs the blank; keep it for both spellings
            if gaps:
                parts.append(G1 if need1 else G)
            elif need1:
                parts.append(" ")
            parts.append(v)
            prev = v
            first = False
        if gaps and not (toks and toks[-1][0] == "content"):
            parts.append(G)  # blanks after a comment or a DATA item are content, not layout
        if li < len(lines) - 1:
            parts.append(EOLS if eol_choices else "\n")
    if tail:
        parts.append(TAIL)
        parts.append(("", "\0"))
    return parts


def literal_skeletons():
    """blanks inside numeric and hex literals"""
    sk = []
    for s1, s2 in (("-", "+"), ("+", "-"), ("-", "")):
        sk.append((f"lit:signed-exponent{s1}{s2}", ["10 A=", s1, G, "1.5", G, "E", G, s2, G, "3", G]))
    sk.append(("lit:int-exponent", ["10 A=", "2", G, "E", G, "1", G, ":", G, "B=1"]))
    sk.append(("lit:hex", ["10 A=", "&", G, "H", G, "FF", G]))
    sk.append(("lit:hex-dim", ["10 DIM A(", "&", G, "H", G, "1F", G, ")"]))
    sk.append(("lit:hex-data", ["10 DATA ", "&", G, "H", G, "1F", G, ",", G, "2"]))
    sk.append(("lit:before-else", ["10 IF A=1 THEN B=", "1.5", G, "ELSE", G, "B=2.5"]))
    sk.append(("lit:int-before-else", ["10 IF A=1 THEN B=", "1", G, "ELSE", G, "B=2"]))
    sk.append(("lit:exp-before-else", ["10 IF A=1 THEN B=", "1.5E3", G, "ELSE", G, "B=2"]))
    sk.append(("lit:before-to", ["10 FOR I=", ".5", G, "TO", G, "2.5", G, "STEP", G, ".5"]))
    sk.append(("lit:sign-gap", ["10", G, "A", G, "=", G, "-", G, "1", G]))
    return sk


def job_list(tier):
    jobs = []
    for src in families.statement_coverage():
        jobs.append(("stmt:" + src, src))
    for name, tag, src in families.device_programs(False):
        if tag in ("vars", "vars+seq", "vars+ifarm"):
            jobs.append((f"dev:{name}:{tag}", src))
    two = ["10 A=1\n20 B=2", "10 REM X\n20 PRINT A", '10 PRINT "X"\n20 GOTO 10', '10 A$="X\n20 B=1', "10 DATA 1,B C\n20 READ A,B$", "10 ' X\n20 END",
           "10 IF A=1 THEN 20\n20 END", "10 FOR I=1 TO 2\n20 NEXT I", '10 INPUT "P";A\n20 PRINT A', "10 DATA X Y\n20 DATA 2\n30 READ A$,B"]
    # every kind of last token in front of the end of the text: final line end / blank line / trailing NUL directly after it
    two += ["10 DATA 1,2", "10 DATA &HFF", "10 DATA 1,", "10 DATA X", '10 DATA "X"', "10 A=1", "10 A=1.5E3", "10 A=&HFF", '10 A$="X"', '10 A$="X', "10 REM X", "10 ' X",
            "10 PRINT A", "10 PRINT A;", "10 GOTO 10", "10 CLS 0", "10 NEXT", "10 RETURN", "10 HLINE(1,2)-(3,4),PSET,BF", "10 INPUT A$", "10 A=B(1)", "10 DIM A(3)"]
    for src in two:
        # line-end / tail / PRINT-spelling choices only (blank gaps are covered by the single-line skeletons)
        try:
            jobs.append(("lines:" + src.replace("\n", "|"), skeleton(src, eol_choices=True, tail=True, gaps=False)))
        except RefGap:
            pass
    return jobs


def convert_sym(text):
    try:
        return ("ok", compiler().convert(text, **KW))
    except gapsym.Fork:
        raise
    except Exception as e:  # noqa: BLE001
        return ("exc", type(e).__name__)


def convert_concrete(s):
    try:
        return ("ok", compiler().convert(s, **KW))
    except Exception as e:  # noqa: BLE001
        return ("exc", type(e).__name__)


def describe_choice(parts, idx):
    """class of the choice point with index idx: what stands left and right of it"""
    k = -1
    for pos, p in enumerate(parts):
        if not isinstance(p, str):
            k += 1
            if k == idx:
                left = next((q for q in reversed(parts[:pos]) if isinstance(q, str) and q), "^")
                right = next((q for q in parts[pos + 1:] if isinstance(q, str) and q), "$")
                if p == EOLS:
                    return "line-end"
                if p == TAIL:
                    return "final-line-end"
                if p == LEAD:
                    return "leading-blank-lines"
                if p == ("", "\0"):
                    return "trailing-nul"
                if p == ("PRINT", "?"):
                    return "print-spelling"

                def cls(t, side):
                    if t in ("^", "$"):
                        return t
                    if t.startswith("REM") or t.startswith("'"):
                        return "comment"
                    if t.startswith("DATA"):
                        return "data"
                    if t.startswith('"'):
                        return "string"
                    if re.fullmatch(r"[0-9.]+", t):
                        return "number"
                    if re.fullmatch(r"[A-Z][A-Z0-9]*\$?", t):
                        return t if t in cbfront.STATEMENT_WORDS or t in cbfront.NUM_FUNCS or t in cbfront.STR_FUNCS or t in ("H", "E", "B", "U", "BF", "PSET", "PRESET", "XOR") else "name"
                    return t

                return f"gap:{cls(left, 'l')}|{cls(right, 'r')}"
    return "?"


FORCE_FALLBACK = False  # set by run() when the self-check shows that the lazy text object cannot follow this tree's convert()


def enumerate_layouts(cps, limit=3000):
    """all layouts when there are at most `limit`; otherwise the compact layout, every single deviation from it and every
    pair of deviations at neighbouring choice points (stated in the evidence as the fallback bound)"""
    total = 1
    for c in cps:
        total *= len(c)
    if total <= limit:
        for combo in itertools.product(*[range(len(c)) for c in cps]):
            yield {i: k for i, k in enumerate(combo)}
        return
    base = {i: 0 for i in range(len(cps))}
    yield dict(base)
    for i, c in enumerate(cps):
        for k in range(1, len(c)):
            d = dict(base)
            d[i] = k
            yield d
    for i in range(len(cps) - 1):
        for k1 in range(1, len(cps[i])):
            for k2 in range(1, len(cps[i + 1])):
                d = dict(base)
                d[i], d[i + 1] = k1, k2
                yield d


def check_one(job):
    label, src_or_parts = job
    from coco.b09.grammar import grammar

    st = smt.Stats()
    smt.STATS = st
    out = {"label": label, "sigs": [], "paths": 0, "layouts": 0, "cps": 0, "status": None}
    try:
        parts = src_or_parts if isinstance(src_or_parts, list) else skeleton(src_or_parts)
    except RefGap as e:
        out["status"] = "refgap"
        out["stats"] = st.export()
        return out
    cps = [p for p in parts if not isinstance(p, str)]
    out["cps"] = len(cps)
    total = 1
    for c in cps:
        total *= len(c)
    out["layouts"] = total
    fallback = FORCE_FALLBACK
    results = []
    if not fallback:
        gapsym.install(grammar)
        try:
            results = gapsym.explore(parts, convert_sym)
        except RuntimeError as e:
            out["sigs"].append(("harness:" + str(e), label, None))
            out["stats"] = st.export()
            return out
        finally:
            gapsym.uninstall()
        out["paths"] = len(results)
    outcomes = {}
    concrete_results = []
    for dec, o_sym in results:
        # the symbolic run decides which choice points the PARSE depends on; the outcome itself is taken from the real,
        # unpatched convert() on the path's representative layout (visitors may read text the lazy run left undecided)
        layout0 = gapsym.SymText(parts, dec).concrete({j: 0 for j in range(len(cps))})
        o = convert_concrete(layout0)
        if o[0] != o_sym[0] or (o[0] == "exc" and o != o_sym):
            # the code under test does something with the text that the lazy text object cannot follow (a regex pass over
            # the whole program, for instance): this skeleton is decided by concrete enumeration instead
            fallback = True
            break
        concrete_results.append((dec, o))
        outcomes.setdefault(o, []).append(dec)
    if fallback:
        out["fallback"] = True
        outcomes = {}
        concrete_results = []
        for dec in enumerate_layouts(cps):
            layout0 = gapsym.SymText(parts, dec).concrete({j: 0 for j in range(len(cps))})
            o = convert_concrete(layout0)
            concrete_results.append((dec, o))
            outcomes.setdefault(o, []).append(dec)
        out["paths"] = len(concrete_results)
        st.bump("obligations")
        st.bump("identity")
    else:
        cov = gapsym.coverage(parts, results)
        st.bump("obligations")
        if cov != "ok":
            out["sigs"].append(("harness:coverage " + cov, label, None))
        else:
            st.bump("unsat")
    results = concrete_results
    # visitor-level dependence on undecided text (node.text of a node that spans a gap): the lazy exploration cannot see
    # it, so every alternative of every choice point a path left undecided is tried concretely, one at a time
    sweep_seen = set()
    for dec, o in results:
        for i in range(len(cps)):
            if i in dec:
                continue
            for k in range(1, len(cps[i])):
                key = (i, k, tuple(sorted(dec.items())))
                trial = dict(dec)
                trial[i] = k
                layout = gapsym.SymText(parts, trial).concrete({j: 0 for j in range(len(cps))})
                if layout in sweep_seen:
                    continue
                sweep_seen.add(layout)
                out["sweep"] = out.get("sweep", 0) + 1
                r2 = convert_concrete(layout)
                if r2 != o:
                    outcomes.setdefault(r2, []).append(trial)
    out["status"] = "uniform" if len(outcomes) == 1 else "differs"
    if len(outcomes) > 1:
        # baseline = the outcome of the most compact layout (first alternative everywhere)
        base_text = gapsym.SymText(parts, {}).concrete({i: 0 for i in range(len(cps))})
        base = convert_concrete(base_text)
        seen = set()
        for o, decs in outcomes.items():
            if o == base:
                continue
            dec = min(decs, key=lambda d: (len(d), sorted(d.items())))
            layout = gapsym.SymText(parts, dec).concrete({i: 0 for i in range(len(cps))})
            real = convert_concrete(layout)
            if real != o:
                out["sigs"].append(("harness:replay", f"{label}: symbolic outcome {str(o)[:60]} but the real parser gives {str(real)[:60]} for {layout!r}", None))
                continue
            if real == base:
                continue
            # which decided choice points matter: those whose value differs from the baseline layout
            culprits = sorted(set(describe_choice(parts, i) for i, k in dec.items() if k != 0))
            # minimise: flip each deviating choice back to the baseline; keep those that are needed
            cur = dict(dec)
            for i, k in sorted(dec.items()):
                if k == 0:
                    continue
                trial = {j: (0 if j == i else v) for j, v in cur.items()}
                lay2 = gapsym.SymText(parts, trial).concrete({j: 0 for j in range(len(cps))})
                r2 = convert_concrete(lay2)
                if r2 != base:
                    cur = trial  # still differs from the baseline without this deviation: it is not needed
                    layout, real = lay2, r2
            cls = sorted(set(describe_choice(parts, i) for i, k in cur.items() if k != 0))
            kind = "rejected" if real[0] == "exc" and base[0] == "ok" else "accepted" if base[0] == "exc" and real[0] == "ok" else "different-output" if real[0] == "ok" else "different-error"
            sig = f"layout:{kind}:" + "+".join(cls)
            if sig in seen:
                continue
            seen.add(sig)
            out["sigs"].append((sig, f"{label}: {base_text!r} -> {str(base)[:70]} but {layout!r} -> {str(real)[:70]}", {"baseline": base_text, "layout": layout}))
    out["stats"] = st.export()
    return out


def self_check():
    """gapsym must agree with brute force on small skeletons (each run)"""
    from coco.b09.grammar import grammar

    for parts in (["10", G, "A", G, "=", G, "B", G, "+", G, "C", G],
                  ["10", G, "A", G, "=", G, "&", G, "H", G, "FF", G],
                  ["10", G, "REM", G, "X", ("\n", "\r", "\r\n"), "20", G, ("PRINT", "?"), G, "A", G, ("", "\n", "\r"), ("", "\0")]):
        gapsym.install(grammar)
        try:
            res = gapsym.explore(parts, convert_sym)
        finally:
            gapsym.uninstall()
        cnt = {}
        for dec, o in res:
            cnt[o] = cnt.get(o, 0) + gapsym.weight(parts, dec)
        br = gapsym.brute(parts, convert_concrete)
        if cnt != br:
            return -1  # the lazy text object cannot follow this tree's convert(): every skeleton is enumerated concretely
    return 3


def content_terminals(ctx):
    from coco.b09.grammar import grammar

    s = z3.String("content")
    anyc = z3.Full(z3.ReSort(z3.StringSort()))
    for rule in ("comment_text", "str_literal", "partial_str_lit", "data_str_literal"):
        pat = grammar[rule].re.pattern
        ctx.encode(f"grammar.{rule}", pat)
        for ch, nm in (("\r", "CR"), ("\n", "LF")):
            ctx.stats["obligations"] += 1
            v, m = smt.check([z3.InRe(s, rxsmt.lang(pat)), z3.InRe(s, z3.Concat(anyc, z3.Re(ch), anyc)), z3.Length(s) <= 5], 20000, True)
            ctx.stats[v] += 1
            ctx.sample({"lemma": f"{rule} cannot match across a {nm}", "verdict": v})
            if v == "sat":
                val = rxsmt.z3str(m.eval(s, True).as_string())
                # replay: a two-line program with that terminator must convert like its LF spelling
                carrier = {"comment_text": "10 REM X{e}20 PRINT 1{e}", "str_literal": '10 A$="X"{e}20 PRINT 1{e}', "partial_str_lit": '10 A$="X{e}20 PRINT 1{e}',
                           "data_str_literal": "10 DATA X{e}20 PRINT 1{e}"}[rule]
                a, b = convert_concrete(carrier.format(e="\n")), convert_concrete(carrier.format(e=ch))
                ctx.stats["traces_validated_against_impl"] += 1
                if a != b:
                    ctx.violation(f"terminal-swallows-{nm}:{rule}", f"{rule} matches {val!r}: {carrier.format(e=ch)!r} converts differently from its LF spelling", {"baseline": carrier.format(e=chr(10)), "layout": carrier.format(e=ch)})
            elif v == "unknown":
                ctx.note_inconclusive(f"content terminal {rule}")


def comment_content(ctx, tier):
    """blanks inside comments are content: (1) z3: the real comment_text terminal matches EVERY text without CR / LF / NUL
    completely (so the grammar hands the visitor the whole rest of the line); (2) the visitor side over a product of
    content choice points - blank runs before, between and after up to two visible characters, REM and apostrophe, alone
    and after a statement, every line end: the emitted comment is `(*` + the source text + ` *)`, byte for byte"""
    from coco.b09.grammar import grammar

    pat = grammar["comment_text"].re.pattern
    t = z3.String("comment")
    allowed = z3.Star(z3.Union(z3.Range(chr(1), chr(9)), z3.Range(chr(11), chr(12)), z3.Range(chr(14), chr(126))))
    ctx.stats["obligations"] += 1
    v, m = smt.check([z3.InRe(t, allowed), z3.Not(z3.InRe(t, rxsmt.lang(pat))), z3.Length(t) <= 6], 20000, True)
    ctx.stats[v] += 1
    ctx.sample({"lemma": "comment_text matches every text without CR / LF / NUL completely", "verdict": v})
    if v == "sat":
        val = rxsmt.z3str(m.eval(t, True).as_string())
        a = convert_concrete(f"10 REM{val}\n")
        ctx.stats["traces_validated_against_impl"] += 1
        if a != ("ok", f"10 (*{val} *)\n"):
            ctx.violation("comment-content:terminal", f"comment_text does not match {val!r} completely: `10 REM{val}` -> {str(a)[:80]}", {"baseline": f"10 REM{val}\n", "layout": f"10 REM{val}\n"})
    elif v == "unknown":
        ctx.note_inconclusive("comment_text language lemma")
    B = ("", " ", "   ")
    vis1 = ("", "X", "*", "-", "1") if tier == "thorough" else ("", "X", "*")
    vis2 = ("", "Y", '"') if tier == "thorough" else ("", "Y")
    carriers = (("10 {k}{c}", "10 (*{c} *)"), ("10 A=1 {k}{c}", "10 A := 1.0\n(*{c} *)"), ("10 A=1:{k}{c}\n20 B=2", "10 A := 1.0\n(*{c} *)\n20 B := 2.0"))
    bad = {}
    n = 0
    for (src, want), kw, b1, c1, b2, c2, b3, eol in itertools.product(carriers, ("REM", "'"), B, vis1, B, vis2, B, ("\n", "\r\n", "")):
        if src.startswith("10 {k}") is False and kw == "REM" and "A=1 {k}" in src:
            pass
        text = b1 + c1 + b2 + c2 + b3
        if kw == "REM" and text[:1].isalnum():
            continue  # REMX is read as REM + X by the tool and as a name by Color BASIC: not a layout question
        n += 1
        program = src.format(k=kw, c=text) + eol
        got = convert_concrete(program)
        exp = ("ok", want.format(c=text) + "\n")
        ctx.stats["obligations"] += 1
        if got == exp:
            ctx.stats["identity"] += 1
            continue
        kind = "blank-only" if text.strip(" ") == "" and text else "empty" if not text else "leading-blanks" if got[0] == "ok" and text.lstrip(" ") in got[1] and text not in got[1] else "other"
        key = f"comment-content:{kind}:{'rejected' if got[0] != 'ok' else 'changed'}"
        bad.setdefault(key, (program, got, exp))
    ctx.stats["programs"] += n
    ctx.stats["traces_validated_against_impl"] += n
    for key, (program, got, exp) in bad.items():
        ctx.violation(key, f"{program!r} -> {str(got)[:90]}; the comment text is content and must come out as {exp[1]!r}", {"baseline": program, "layout": program, "expected": exp[1]})
    ctx.bounds["comment_content"] = {"blank_runs": list(B), "visible": [list(vis1), list(vis2)], "programs": n}


def string_content(ctx, tier):
    """blanks inside string literals are content: in every statement position that takes a literal, the emitted literal is
    the source literal character for character (INPUT appends its `? `, nothing else changes) - over a product of blank
    runs before, between and after up to two visible characters"""
    B = ("", " ", "   ")
    vis1 = ("", "X", "?", ":") if tier == "thorough" else ("", "X", "?")
    vis2 = ("", "Y", ";") if tier == "thorough" else ("", "Y")
    carriers = [('10 PRINT "{c}"', '"{c}"'), ('10 A$="{c}"', '"{c}"'), ('10 INPUT "{c}";A$', '"{c}? "'), ('10 LINE INPUT "{c}";A$', '"{c}"'), ('10 IF A$="{c}" THEN 10', '"{c}"'),
                ('10 DATA "{c}",1', '"{c}"'), ('10 PRINT@5,"{c}";', '"{c}"'), ('10 A$=B$+"{c}"+C$', '"{c}"'), ('10 HPRINT(1,2),"{c}"', '"{c}"'), ('10 A$="{c}', '"{c}"'),
                ('10 A$(1)="{c}"', '"{c}"'), ('10 Z=INSTR(1,A$,"{c}")', '"{c}"')]
    bad = {}
    n = 0
    for (src, want), b1, c1, b2, c2, b3 in itertools.product(carriers, B, vis1, B, vis2, B):
        text = b1 + c1 + b2 + c2 + b3
        n += 1
        program = src.format(c=text) + "\n"
        got = convert_concrete(program)
        ctx.stats["obligations"] += 1
        if got[0] == "ok" and want.format(c=text) in got[1]:
            ctx.stats["identity"] += 1
            continue
        kind = "blank-only" if text and not text.strip(" ") else "empty" if not text else "trailing-blanks" if text.endswith(" ") and (got[0] == "ok" and want.format(c=text.rstrip(" ")) in got[1]) else "leading-blanks" if text.startswith(" ") and (got[0] == "ok" and want.format(c=text.lstrip(" ")) in got[1]) else "other"
        stmt = src.split(" ")[1].split("(")[0].split('"')[0].split("=")[0] if src.startswith("10 ") else src
        key = f"string-content:{stmt}:{kind}:{'rejected' if got[0] != 'ok' else 'changed'}"
        bad.setdefault(key, (program, got, want.format(c=text)))
    ctx.stats["programs"] += n
    ctx.stats["traces_validated_against_impl"] += n
    for key, (program, got, want) in bad.items():
        ctx.violation(key, f"{program!r} -> {str(got)[:90]}; the literal is content and must come out as {want!r}", {"baseline": program, "layout": program, "expected_fragment": want})
    ctx.bounds["string_content"] = {"blank_runs": list(B), "visible": [list(vis1), list(vis2)], "programs": n}


def run(tier):
    ctx = Ctx("C08", tier, "model_checking", technique="real parsimonious grammar and visitor executed on text with symbolic layout choice points (lazy forking on match-result dependence), z3-checked partition of the layout space, replay through the unpatched parser; z3 regex lemmas for content terminals")
    smt.reset_stats()
    global FORCE_FALLBACK
    sc = self_check()
    FORCE_FALLBACK = sc < 0
    if FORCE_FALLBACK:
        ctx.notes.append("gapsym self-check failed on this tree (convert() processes the program text outside the parser primitives): all skeletons decided by concrete enumeration of layouts (all when <= 3000, else single and neighbouring-pair deviations)")
        ctx.bounds["layout_engine"] = "concrete fallback"
    else:
        ctx.stats["traces_validated_against_impl"] += sc
    jobs = job_list(tier) + literal_skeletons()
    ctx.bounds.update({"skeletons": len(jobs), "blanks_per_gap": "0..2 (1..2 between alphanumeric tokens)", "line_ends": list(EOLS), "print_spelling": ["PRINT", "?"], "tail": ["", "LF", "CR"] + ["NUL"]})
    for rel in ("coco/b09/grammar.py", "coco/b09/parser.py"):
        ctx.encode(rel + " (real grammar and visitor, three parsimonious primitives patched)", repo_source(rel))
    results = pmap(check_one, jobs, chunksize=4)
    total_layouts = 0
    for r in results:
        ctx.stats["states"] += r["paths"]
        ctx.stats["transitions"] += r["cps"]
        ctx.stats["programs"] += 1
        total_layouts += r["layouts"]
        if r.get("stats"):
            ctx.add_solver_stats(r["stats"])
        for sig, what, witness in r["sigs"]:
            if sig.startswith("harness"):
                ctx.harness_gap(f"{sig}: {what}")
                continue
            ctx.violation(sig, what, witness or {})
            ctx.stats["traces_validated_against_impl"] += 1
    for r in results[:: max(1, len(results) // 8)]:
        ctx.sample({"skeleton": r["label"][:80], "choice_points": r["cps"], "layouts": r["layouts"], "paths": r["paths"], "status": r["status"]})
    ctx.extra["layouts_covered"] = str(total_layouts)
    content_terminals(ctx)
    comment_content(ctx, tier)
    string_content(ctx, tier)
    ctx.add_solver_stats(smt.STATS.export())
    ctx.extra["solver"] = {"z3": smt.z3_version()}
    ctx.assume("layout = blanks between tokens, PRINT spelling, line ends, trailing NUL, blanks inside numeric / hex literals; longer blank runs, tabs and blanks inside content are outside")
    return ctx


def replay(rec):
    a, b = convert_concrete(rec["baseline"]), convert_concrete(rec["layout"])
    print(a, b)
    if "expected" in rec:
        return a != ("ok", rec["expected"])
    if "expected_fragment" in rec:
        return a[0] != "ok" or rec["expected_fragment"] not in a[1]
    return a != b
