"""C06 - every jump lands on the line it names; label filtering never breaks a target (E3 + E5).

Family: a five-line program whose line 20 (or 30) carries one jump-bearing statement form; every form x every
assignment of its target slots to {self, next, forward, backward, line 0, missing line}.  For each program and each
of filter on/off x suffix on/off: refusal iff a target is missing; otherwise both machines run all paths (z3 decides
feasibility / equality) so each jump must land on the PRINT tag of the line it names; the label set of the output must
be exactly the referenced lines (filter on) or all lines except an unreferenced line 0 (filter off); statements are
the same with and without filtering.  The >32699 rule is decided for every line number by running the real checker on
a symbolic int (E5); the 32700 dispatcher is executed with a symbolic error number.
"""
import itertools
import re

import z3

from vf import smt, symproxy
from vf.core import Ctx, HarnessError, pmap, repo_source
from vf.realconv import classify, convert_plain
from vf.tv import b09front, equiv, lib as tvlib, machine
from vf.tv.lex import SyntaxErr

# jump-bearing statement forms; {0} {1} {2} target slots
FORMS = {
    "GOTO": ("GOTO {0}", 1),
    "THEN": ("IF A = 1 THEN {0}", 1),
    "THEN-ELSE": ("IF A = 1 THEN {0} ELSE {1}", 2),
    "STMT-ELSE": ('IF A = 1 THEN PRINT "X" ELSE {0}', 1),
    "THEN-STMT": ('IF A = 1 THEN {0} ELSE PRINT "X"', 1),
    "THEN-GOTO": ("IF A = 1 THEN GOTO {0}", 1),
    "NESTED": ("IF A = 1 THEN IF B = 2 THEN {0}", 1),
    "NESTED-ELSE": ('IF A = 1 THEN IF B = 2 THEN PRINT "X" ELSE {0}', 1),
    "ELIF": ("IF A = 1 THEN {0} ELSE IF B = 2 THEN {1} ELSE {2}", 3),
    "ELIF-FINAL": ('IF A = 1 THEN PRINT "X" ELSE IF B = 2 THEN PRINT "Y" ELSE {0}', 1),
    "ELIF-ARM": ('IF A = 1 THEN PRINT "X" ELSE IF B = 2 THEN {0} ELSE PRINT "Z"', 1),
    "ELIF-NOELSE-ARM": ('IF A = 1 THEN {0} ELSE IF B = 2 THEN {1} ELSE PRINT "Z"', 2),
    "ON-GOTO": ("ON A GOTO {0} , {1}", 2),
    "ON-GOTO3": ("ON A GOTO {0} , {1} , {2}", 3),
    "STMT-GOTO": ('PRINT "X" : GOTO {0}', 1),
    "FOR-GOTO": ("FOR I = 1 TO 2 : NEXT I : GOTO {0}", 1),
}
GOSUB_FORMS = {
    "GOSUB": "GOSUB {0}",
    "ON-GOSUB": "ON A GOSUB {0} , {0}",
    "THEN-GOSUB": "IF A = 1 THEN GOSUB {0}",
    "ELIF-GOSUB": 'IF A = 1 THEN PRINT "X" ELSE IF B = 2 THEN PRINT "Y" ELSE GOSUB {0}',
}
OPTS = [dict(filter_unused_linenum=f, add_suffix=s, add_standard_prefix=False, skip_procedure_headers=True) for f in (False, True) for s in (False, True)]


HOLLOW = {"colon": " :", "colons": " : :", "bare": "", "blank": " ", "rem": " REM", "quote": " '"}  # a line without a statement is still a line


def program(form_text, targets, *, at=20, line0=False, hollow=None):
    """the jump form sits on line `at`; a one-shot guard keeps self / backward jumps from looping"""
    guard = any(t <= at for t in targets if t is not None)
    stmt = form_text.format(*targets)
    if guard:
        stmt = "IF C = 0 THEN C = 1 : " + stmt
    lines = []
    if line0:
        lines.append('0 PRINT "L0"')
    lines.append("10 INPUT A , B")
    for n in (20, 30):
        if hollow and n == 30 and n != at:
            lines.append("30" + HOLLOW[hollow])
            continue
        lines.append(f'{n} PRINT "L{n}"' + (" : " + stmt if n == at else ""))
    lines.append('40 PRINT "L40" : END')
    lines.append('90 PRINT "S" : RETURN')
    return "\n".join(lines)


def jobs_for(tier):
    jobs = []
    for name, (text, k) in FORMS.items():
        pool = [20, 30, 40, 0, 55]
        for at in (20, 30):
            for targets in itertools.product(pool, repeat=k):
                if tier == "quick" and k == 3 and len(set(targets)) == 3 and 55 in targets:
                    continue
                line0 = 0 in targets
                jobs.append((name, targets, at, line0))
                if not line0 and targets == tuple([40] * k):
                    jobs.append((name, targets, at, True))  # unreferenced line 0
    for name, text in GOSUB_FORMS.items():
        for t in (90, 55):
            jobs.append((name, (t,), 20, False))
            jobs.append((name, (t,), 20, True))
    # the target (or a line passed over) holds no statement at all: `30 :`, a bare `30`, `30 REM`
    for name, (text, k) in FORMS.items():
        for h in HOLLOW:
            if tier == "quick" and h in ("colons", "blank", "quote") and name not in ("GOTO", "THEN", "ON-GOTO"):
                continue
            jobs.append((name, tuple([30] * k), 20, False, h))
            if k > 1:
                jobs.append((name, tuple([40] + [30] * (k - 1)), 20, False, h))
            jobs.append((name, tuple([40] * k), 20, False, h))
    return jobs


def form_text(name):
    return FORMS[name][0] if name in FORMS else GOSUB_FORMS[name]


_LIB = None


def library():
    global _LIB
    if _LIB is None:
        _LIB = tvlib.load_library()
    return _LIB


def labels_of(text):
    out = []
    for line in text.split("\n"):
        m = re.match(r"\s*(\d+)(\s|$)", line)
        if m:
            out.append(int(m.group(1)))
    return out


def strip_labels(text):
    return "\n".join(re.sub(r"^(\s*)\d+\s", r"\1", ln) for ln in text.split("\n"))


def check_one(job):
    name, targets, at, line0 = job[:4]
    hollow = job[4] if len(job) > 4 else None
    st = smt.Stats()
    smt.STATS = st  # path-feasibility queries of the machines are charged to this job too
    src = program(form_text(name), targets, at=at, line0=line0, hollow=hollow)
    out = {"job": job, "src": src, "sigs": [], "stats": None, "counts": {}}
    missing = 55 in targets
    all_lines = ([0] if line0 else []) + [10, 20, 30, 40, 90]
    tclass = "+".join(("self" if t == at else "missing" if t == 55 else "line0" if t == 0 else "back" if t < at else "fwd") for t in targets)
    if hollow:
        tclass += ":line-without-statement-" + hollow
    texts = {}
    for oi, opts in enumerate(OPTS):
        o = classify(src + "\n", plain=False, **opts)
        flt = opts["filter_unused_linenum"]
        if missing:
            if o[0] != "refused":
                out["sigs"].append((f"missing-target-not-refused:{name}:{tclass}", f"target 55 does not exist, result {o[0]}", oi))
            continue
        if o[0] != "ok":
            out["sigs"].append((f"{o[0]}:{name}:{tclass}:{o[1]}", f"valid program not converted: {o}", oi))
            continue
        texts[oi] = o[1]
        labs = labels_of(o[1])
        if len(labs) != len(set(labs)):
            out["sigs"].append((f"duplicate-label:{name}:{tclass}", f"labels {labs}", oi))
        referenced = set(t for t in targets)
        want = set(referenced) if flt else set(n for n in all_lines if not (n == 0 and 0 not in referenced))
        got = set(labs) - {32700}
        if got != want:
            out["sigs"].append((f"label-set:{name}:{tclass}:{'filter' if flt else 'nofilter'}:missing={sorted(want - got)}:extra={sorted(got - want)}", f"labels {sorted(got)} expected {sorted(want)}", oi))
        res = equiv.compare(src, o[1], library=library(), stats=st, step_bound=80)
        for k, v in res.counts.items():
            out["counts"][k] = out["counts"].get(k, 0) + v
        if res.status in ("refgap", "outside"):
            out["sigs"].append(("harness-gap", res.note, oi))
        for f in res.findings:
            if f.kind in ("arity", "type-class", "missing-argument", "duplicate-decl", "uninitialised-read"):
                continue
            if f.kind == "nontermination" and name.startswith("ELIF") is False and "NOELSE" not in name:
                pass
            d = re.sub(r"event \d+: ", "", f.detail)
            d = re.sub(r"\d+", "N", d)[:50]
            out["sigs"].append((f"{f.kind}:{name}:{tclass}:{'filter' if flt else 'nofilter'}:{d}", f.detail, oi))
    # the bundle path (output_dependencies: the text goes through the procedure bank once more) keeps every line and label
    if not missing and (hollow or (name in ("GOTO", "GOSUB", "ON-GOTO", "THEN-ELSE") and at == 20)):
        for flt in (False, True):
            oi = [i for i, o in enumerate(OPTS) if o["add_suffix"] and o["filter_unused_linenum"] == flt][0]
            if oi not in texts:
                continue
            ob = classify(src + "\n", plain=False, filter_unused_linenum=flt, add_suffix=True, add_standard_prefix=False, skip_procedure_headers=False, output_dependencies=True, procname="prog")
            if ob[0] != "ok":
                out["sigs"].append((f"bundle:{ob[0]}:{name}:{tclass}", f"with dependencies: {ob}", oi))
                continue
            marker = "procedure prog\n"
            k = ob[1].rfind(marker)
            part = ob[1][k + len(marker):] if k >= 0 else ob[1]
            if part.rstrip() != texts[oi].rstrip():
                a, b = part.rstrip().split("\n"), texts[oi].rstrip().split("\n")
                d = [(x, y) for x, y in itertools.zip_longest(a, b) if x != y][:1]
                lost = sorted(set(labels_of(texts[oi])) - set(labels_of(part)))
                out["sigs"].append((f"bundle-changes-program:{name}:{tclass}:{'filter' if flt else 'nofilter'}:labels-lost={lost}", f"program part of the bundle differs from the output without dependencies: {d}", oi))
    # filtering removes labels only
    for s in (False, True):
        a = [i for i, o in enumerate(OPTS) if o["add_suffix"] == s and not o["filter_unused_linenum"]][0]
        b = [i for i, o in enumerate(OPTS) if o["add_suffix"] == s and o["filter_unused_linenum"]][0]
        if a in texts and b in texts and strip_labels(texts[a]) != strip_labels(texts[b]):
            out["sigs"].append((f"filter-changes-statements:{name}:{tclass}", "outputs differ beyond labels", b))
    out["stats"] = st.export()
    return out


def line_number_threshold(ctx):
    from coco.b09 import elements as el, visitors as vis

    ctx.encode("visitors.LineNumberCheckerVisitor.visit_line", repo_source("coco/b09/visitors.py"))
    n = z3.Int("linenum")

    def fn():
        line = el.BasicLine(symproxy.SInt(n), el.BasicStatements([el.BasicKeywordStatement("END")]))
        v = vis.LineNumberCheckerVisitor(set())
        # the checker discards the line from its reference set; a symbolic int cannot be hashed, so give it a
        # set-like object whose discard is a no-op (the set is empty here)
        class NoSet:
            def discard(self, x):
                return None
        v._references = NoSet()
        v.visit_line(line)
        return "accepted"

    paths = symproxy.explore(fn, premises=[n >= 0, n <= 10**7])
    ctx.stats["states"] += len(paths)
    for pc, (stt, val), holes in paths:
        ctx.stats["obligations"] += 1
        if stt == "exc" and type(val).__name__ == "LineNumberTooLargeException":
            v, m = smt.check(list(pc) + [n <= 32699], 10000, True)
            what = "refused only when > 32699"
        elif stt == "ok":
            v, m = smt.check(list(pc) + [n > 32699], 10000, True)
            what = "accepted only when <= 32699"
        else:
            ctx.harness_gap(f"line checker on symbolic number: {stt} {val!r}")
            continue
        ctx.stats[v] += 1
        ctx.sample({"obligation": "line number " + what, "path": [str(c) for c in pc][2:], "verdict": v})
        if v == "sat":
            val_n = m.eval(n, True).as_long()
            o = classify(f"{val_n} END\n")
            ctx.stats["traces_validated_against_impl"] += 1
            wrong = (o[0] == "ok" and val_n > 32699) or (o[0] != "ok" and val_n <= 32699)
            if wrong:
                ctx.violation("line-number-threshold", f"line {val_n}: {o[0]}", {"source": f"{val_n} END", "result": str(o)})
            else:
                raise HarnessError(f"line threshold model {val_n} did not replay: {o}")


def refusals(ctx):
    cases = [
        ("10 ON ERR GOTO 20 : ON ERR GOTO 20\n20 END", "refused", "two ON ERR"),
        ("10 ON BRK GOTO 20 : ON BRK GOTO 20\n20 END", "refused", "two ON BRK"),
        ("10 ON ERR GOTO 20\n20 ON ERR GOTO 10", "refused", "two ON ERR on two lines"),
        ("10 ON ERR GOTO 20 : ON BRK GOTO 20\n20 END", "ok", "one ON ERR and one ON BRK"),
        ("10 ON BRK GOTO 20 : ON ERR GOTO 20\n20 END", "ok", "one ON BRK and one ON ERR"),
        ("10 ON ERR GOTO 20\n20 END", "ok", "one ON ERR"),
        ("10 ON BRK GOTO 20\n20 END", "ok", "one ON BRK"),
        ("10 ON ERR GOTO 30\n20 END", "refused", "ON ERR to a missing line"),
        ("10 ON BRK GOTO 30\n20 END", "refused", "ON BRK to a missing line"),
        ("10 IF A = 1 THEN ON ERR GOTO 20 ELSE ON ERR GOTO 20\n20 END", "refused", "two ON ERR in IF arms"),
        ('10 IF A = 1 THEN PRINT "X" ELSE IF A = 2 THEN PRINT "Y" ELSE ON ERR GOTO 20\n15 ON ERR GOTO 20\n20 END', "refused", "two ON ERR, one in a final ELSE"),
    ]
    # the > 32699 rule through the whole pipeline (the symbolic run above covers the checker alone): programs with and
    # without jumps, the big number first, last or in the middle, referenced or not
    for n, want in ((32699, "ok"), (32700, "refused"), (32701, "refused"), (40000, "refused"), (63999, "refused"), (65536, "refused")):
        cases += [
            (f"{n} END", want, f"line {n} alone, no jump"),
            (f"10 A = 1\n{n} PRINT A", want, f"line {n} last, no jump"),
            (f"10 GOTO 10\n{n} END", want, f"line {n} unreferenced beside a jump"),
            (f"10 GOTO {n}\n{n} END", want, f"line {n} referenced"),
            (f"10 IF A = 1 THEN B = 2\n{n} REM X", want, f"line {n} after an IF without jump"),
        ]
    # jumps to lines that do not exist, above and below the 32699 limit, from every jump-bearing statement kind
    for t in (55, 32699, 32700, 33000, 40000, 63999):
        cases += [
            (f"10 GOTO {t}", "refused", f"line {t} missing: GOTO"),
            (f"10 GOSUB {t}\n20 END", "refused", f"line {t} missing: GOSUB"),
            (f"10 IF X = 1 THEN {t}", "refused", f"line {t} missing: THEN"),
            (f"10 IF X = 1 THEN 10 ELSE {t}", "refused", f"line {t} missing: ELSE"),
            (f"10 ON X GOTO 20 , {t}\n20 END", "refused", f"line {t} missing: ON GOTO"),
            (f"10 ON ERR GOTO {t}\n20 END", "refused", f"line {t} missing: ON ERR"),
            (f"10 ON BRK GOTO {t}\n20 END", "refused", f"line {t} missing: ON BRK"),
            (f"10 ON ERR GOTO 20 : GOTO {t}\n20 END", "refused", f"line {t} missing: GOTO beside a handler"),
        ]
    for src, want, what in cases:
        is_line = what.startswith("line ")
        for kw in (dict(), dict(filter_unused_linenum=True), dict(add_suffix=False), dict(filter_unused_linenum=True, add_suffix=False)):
            if kw and not is_line:
                continue
            o = classify(src + "\n", plain=False, skip_procedure_headers=True, **kw)
            ctx.stats["programs"] += 1
            ctx.stats["obligations"] += 1
            if o[0] == want:
                ctx.stats["identity"] += 1
            elif is_line:
                ctx.violation(f"line-limit:{re.sub('[0-9]+', 'N', what)}:{'ok' if want == 'ok' else 'refusal'}-expected", f"{src!r} {kw}: expected {want}, got {o[0]} {o[1] if o[0] != 'ok' else ''}", {"source": src, "options": dict(kw, add_standard_prefix=False, skip_procedure_headers=True) if False else None})
            else:
                ctx.violation(f"handler-rule:{what}", f"{src!r}: expected {want}, got {o[0]} {o[1] if o[0] != 'ok' else ''}", {"source": src})

def line_zero_with_prefix(ctx):
    """the label rules with the generated prologue in front of the program (the command line's setting): an
    unreferenced line 0 loses its label, a referenced one keeps it, whatever else is emitted before it"""
    progs = [("unreferenced", '0 X = 1\n10 GOTO 10', {10}, {10}), ("referenced", '0 X = 1\n10 GOTO 0', {0, 10}, {0}),
             ("unreferenced-no-jump", '0 X = 1\n10 Y = 2', {10}, set()), ("referenced-by-then", '0 X = 1\n10 IF X = 1 THEN 0', {0, 10}, {0})]
    for name, src, want_nofilter, want_filter in progs:
        for flt in (False, True):
            for extra in (dict(), dict(initialize_vars=True), dict(add_suffix=False)):
                o = classify(src + "\n", plain=False, add_standard_prefix=True, skip_procedure_headers=True, filter_unused_linenum=flt, **extra)
                ctx.stats["programs"] += 1
                ctx.stats["obligations"] += 1
                if o[0] != "ok":
                    ctx.violation(f"prefix-labels:{name}:not-converted", f"{src!r}: {o}", {"source": src})
                    continue
                got = set(labels_of(o[1])) - {32700}
                want = want_filter if flt else want_nofilter
                if got == want:
                    ctx.stats["identity"] += 1
                else:
                    ctx.violation(f"prefix-labels:{name}:{'filter' if flt else 'nofilter'}:missing={sorted(want - got)}:extra={sorted(got - want)}", f"{src!r} with the standard prefix: labels {sorted(got)}, expected {sorted(want)}", {"source": src, "options": dict(add_standard_prefix=True, filter_unused_linenum=flt, **extra)})


def dispatcher(ctx):
    """run the emitted 32700 block with a symbolic error number; handler targets range over line 0, 30 and 40"""
    cases = []
    for err, brk in itertools.product((None, 0, 30, 40), repeat=2):
        if err is None and brk is None:
            continue
        for order in ("eb", "be"):
            if (err is None or brk is None) and order == "be":
                continue
            stm = {"e": f"ON ERR GOTO {err}" if err is not None else None, "b": f"ON BRK GOTO {brk}" if brk is not None else None}
            head = "10 " + " : ".join(stm[k] for k in order if stm[k])
            name = ("ERR" if brk is None else "BRK" if err is None else "ERR+BRK" if order == "eb" else "BRK+ERR") + f":err={err}:brk={brk}"
            cases.append((name, head, err, brk))
    for name, head, err, brk in cases:
        line0 = '0 PRINT "T0" : END\n' if 0 in (err, brk) else ""
        src = line0 + head + '\n20 END\n30 PRINT "T30" : END\n40 PRINT "T40" : END'
        o = classify(src + "\n", plain=False, add_standard_prefix=False, add_suffix=True, skip_procedure_headers=True)
        ctx.stats["programs"] += 1
        if o[0] != "ok":
            ctx.violation(f"dispatcher:{name}:not-converted", f"{src!r}: {o}", {"source": src})
            continue
        try:
            prog = machine.lower(b09front.parse_program(o[1]), "b09")
        except SyntaxErr as e:
            ctx.violation(f"dispatcher:{name}:syntax", str(e), {"source": src, "emitted": o[1]})
            continue
        if 32700 not in prog.labels:
            ctx.violation(f"dispatcher:{name}:no-32700", "no line 32700 in the output", {"source": src, "emitted": o[1]})
            continue
        if "ON ERROR GOTO 32700" not in o[1]:
            ctx.violation(f"dispatcher:{name}:no-on-error", "handler statement does not arm line 32700", {"source": src, "emitted": o[1]})
        sem = machine.Sem("real")
        m = machine.Machine(prog, sem, init_mode="symbolic", lib=library(), refmap=None)
        st0 = machine.initial_state()
        st0.pc = prog.labels[32700]
        errnum = sem.const("init_ERRNUM", "n")
        leaves = m.run(st0, 40)
        ctx.stats["states"] += len(leaves)
        for leaf in leaves:
            tags = [str(it[1]) for ev in leaf.trace if ev[0] == "print" for it in ev[1] if it[0] == "item"]
            landed = tags[0].strip('"') if tags else "nowhere"
            is_break = errnum == sem.num(2.0)
            ctx.stats["obligations"] += 1
            terr = None if err is None else f"T{err}"
            tbrk = None if brk is None else f"T{brk}"
            if brk is not None and err is not None:
                if tbrk == terr:
                    want_cond = z3.BoolVal(landed == terr)
                else:
                    want_cond = is_break if landed == tbrk else z3.Not(is_break) if landed == terr else z3.BoolVal(False)
            elif brk is not None:
                want_cond = is_break if landed == tbrk else z3.Not(is_break)  # other errors must not reach the BRK target
            else:
                want_cond = z3.BoolVal(landed == terr)
            v, mdl = smt.check(list(leaf.cond) + [z3.Not(want_cond)], 10000, True)
            ctx.stats[v] += 1
            ctx.sample({"dispatcher": name, "lands_at": landed, "path": [str(c) for c in leaf.cond], "verdict": v})
            if v == "sat":
                val = mdl.eval(errnum, model_completion=True)
                ctx.violation(f"dispatcher:{name}:lands-{landed}", f"error number {val} is dispatched to {landed}; emitted: {o[1]!r}", {"source": src, "emitted": o[1], "errnum": str(val)})


def run(tier):
    ctx = Ctx("C06", tier, "translation_validation", technique="translation validation with SMT over reference-graph programs (both symbolic machines, z3 for path feasibility/equality) + label-set checks + real checker/dispatcher code on symbolic numbers")
    smt.reset_stats()
    jobs = jobs_for(tier)
    ctx.bounds.update({"forms": sorted(FORMS) + sorted(GOSUB_FORMS), "targets": "self, next, forward, backward, line 0, missing", "programs": len(jobs), "option_sets": OPTS})
    for rel in ("coco/b09/visitors.py", "coco/b09/compiler.py", "coco/b09/elements.py", "coco/b09/error_handler.py"):
        ctx.encode(rel + " (executed: real convert())", repo_source(rel))
    results = pmap(check_one, jobs, chunksize=16)
    for r in results:
        ctx.stats["programs"] += len(OPTS)
        ctx.add_solver_stats(r["stats"])
        ctx.stats["states"] += r["counts"].get("cb_paths", 0) + r["counts"].get("b09_paths", 0)
        ctx.stats["transitions"] += r["counts"].get("forks", 0)
        if r["sigs"]:
            ctx.stats["disagreements_checked"] += 1
        for sig, what, oi in r["sigs"]:
            if sig.startswith("harness"):
                ctx.harness_gap(f"{r['src']!r}: {what}")
                continue
            if sig.startswith("unknown"):
                ctx.note_inconclusive(what)
                continue
            ctx.violation(sig, f"{r['src']!r} [{OPTS[oi]}] -> {what}", {"source": r["src"], "options": OPTS[oi]})
    for r in results[:: max(1, len(results) // 8)]:
        ctx.sample({"form": r["job"][0], "targets": list(r["job"][1]), "source": r["src"]})
    line_number_threshold(ctx)
    refusals(ctx)
    line_zero_with_prefix(ctx)
    dispatcher(ctx)
    ctx.add_solver_stats(smt.STATS.export())
    ctx.extra["solver"] = {"z3": smt.z3_version()}
    ctx.explanation = "each program x option set: refusal rule, label-set rule, statement preservation, and trace equivalence (each jump must land on the tagged line)"
    ctx.assume("when only one handler is requested: break goes to the BRK target if there is one, other errors never go to the BRK target")
    return ctx


def replay(rec):
    src = rec["source"]
    opts = rec.get("options") or OPTS[0]
    o = classify(src + "\n", plain=False, **opts)
    print(o)
    if o[0] == "ok":
        res = equiv.compare(src, o[1], library=library())
        print(res.findings, labels_of(o[1]))
    return True
