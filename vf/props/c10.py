"""C10 - every array and string gets exactly one declaration with the requested size (E5 + loader).

The real convert() pipeline is run with the default string size and one configured per-name size as z3-backed
integers (symproxy.SInt; the size-keyed defaultdict of BasicDimStatement is shadowed by an ==-comparing container).
Every feasible path yields output text with holes; the loader reads the declarations and z3 decides, for ALL sizes in
1..32766, that each string identifier occurring in the program has the capacity requested for it (configured size if
DIMmed and configured, else the default; 32 means no explicit size).  Arrays: declared once, before first use, with
bound+1 (11 if never DIMensioned) elements per dimension; nothing declared twice.
"""
import re

import z3

from vf import smt, symproxy
from vf.core import Ctx, HarnessError, pmap, repo_source
from vf.realconv import classify
from vf.tv import b09front, cbfront
from vf.tv.lex import RefGap, SyntaxErr

HOLE_BASE = 900000

PROGRAMS = [
    ("assign", '10 A$ = "X"'),
    ("only-in-len", "10 Z = LEN ( B$ )"),
    ("only-in-mid", "10 PRINT MID$ ( B$ , 1 , 2 )"),
    ("only-in-left", "10 Z$ = LEFT$ ( B$ , 1 )"),
    ("read-target", "10 READ C$\n20 DATA X"),
    ("input-target", "10 INPUT D$"),
    ("line-input-target", "10 LINE INPUT D$"),
    ("implicit-str-array", '10 E$ ( 1 ) = "X"'),
    ("implicit-str-array-read", "10 Z$ = E$ ( 1 )"),
    ("implicit-str-array-only-in-len", "10 Z = LEN ( E$ ( 1 ) )"),
    ("implicit-str-array-read-target", "10 READ E$ ( 1 )\n20 DATA X"),
    ("dim-str-array", '10 DIM F$ ( 5 ) : F$ ( 1 ) = "X"'),
    ("dim-str-array-2d", '10 DIM F$ ( 2 , 3 ) : F$ ( 1 , 2 ) = "X"'),
    ("dim-str-scalar", '10 DIM G$ : G$ = "X"'),
    ("dim-mixed", '10 DIM G$ , H ( 3 ) , F$ ( 4 ) : G$ = F$ ( 1 )'),
    ("dim-three-interleaved", '10 DIM A$ , B$ , C$ : A$ = B$ + C$'),
    ("dim-three-interleaved2", '10 DIM B$ , A$ , G$ , C$ : A$ = B$ + C$ + G$'),
    ("dim-arrays-interleaved", '10 DIM K$ ( 5 ) , T$ , F$ ( 7 ) , U$ : T$ = K$ ( 1 ) + F$ ( 2 ) + U$'),
    ("dim-repeated-str-scalar", '10 DIM G$ , H , G$ : G$ = "X"'),
    ("dim-repeated-num-scalar", "10 DIM H , H : H = 1"),
    ("dim-scalar-twice-two-statements", '10 DIM G$ : DIM G$ : G$ = "X"'),
    ("dim-two-statements", '10 DIM G$\n20 DIM H ( 5 )\n30 G$ = "X" : PRINT G$'),
    ("dim-two-statements-arrays", '10 DIM F$ ( 5 )\n20 DIM K$ ( 6 )\n30 F$ ( 1 ) = K$ ( 2 )'),
    ("dim-after-other-line", '10 A$ = "Y"\n20 DIM G$\n30 G$ = A$'),
    ("temp-str", '10 A$ = STR$ ( 1 ) + "X"'),
    ("temp-print-number", "10 PRINT 1"),
    ("temp-string-fn", '10 A$ = STRING$ ( 3 , "X" )'),
    ("temp-inkey", "10 A$ = INKEY$"),
    ("temp-hex", "10 A$ = HEX$ ( 5 ) + A$"),
    ("temp-read-filter", "10 READ A\n20 DATA ,"),
    ("temp-two", "10 PRINT 1 ; 2"),
    ("temp-in-if-arm", '10 IF A = 1 THEN PRINT 1 ELSE PRINT "X"'),
    ("temp-in-final-else", '10 IF A = 1 THEN PRINT "X" ELSE IF A = 2 THEN PRINT "Y" ELSE A$ = STR$ ( 2 ) + "Z"'),
    ("str-in-final-else", '10 IF A = 1 THEN PRINT "X" ELSE IF A = 2 THEN PRINT "Y" ELSE B$ = "Z"'),
    ("dim-num-array", "10 DIM A ( 5 ) : A ( 1 ) = 2"),
    ("dim-num-array-2d", "10 DIM A ( 2 , 3 ) : A ( 1 , 2 ) = 2"),
    ("dim-num-array-3d", "10 DIM A ( 2 , 3 , 4 ) : A ( 1 , 2 , 3 ) = 2"),
    ("dim-num-array-hex", "10 DIM A ( &H10 ) : A ( 1 ) = 2"),
    ("dim-several", "10 DIM A ( 5 ) , B ( 6 ) , C$ ( 7 ) , NA$ ( 8 ) , NA ( 9 )"),
    ("implicit-num-array", "10 A ( 1 ) = 2"),
    ("implicit-num-array-read", "10 Z = A ( 1 ) + 1"),
    ("implicit-num-array-in-fn", "10 Z = ABS ( A ( 1 ) )"),
    ("implicit-num-array-read-target", "10 READ A ( 1 )\n20 DATA 5"),
    ("implicit-num-array-input-target", "10 INPUT A ( 1 )"),
    ("implicit-num-array-in-if-arm", "10 IF Z = 1 THEN A ( 1 ) = 2"),
    ("implicit-num-array-in-final-else", '10 IF Z = 1 THEN PRINT "X" ELSE IF Z = 2 THEN PRINT "Y" ELSE A ( 1 ) = 2'),
    ("implicit-num-array-in-for", "10 FOR I = 1 TO A ( 1 ) : NEXT I"),
    ("implicit-two-arrays", "10 A ( 1 ) = B ( 2 )"),
    ("scalar-and-array-same-name", "10 DIM NA ( 5 ) : NA = 1 : NA ( 1 ) = NA"),
    ("str-scalar-and-array-same-name", '10 DIM NA$ ( 5 ) : NA$ = "X" : NA$ ( 1 ) = NA$'),
    ("dim-then-use-later", "10 DIM A ( 5 )\n20 A ( 1 ) = 2\n30 B ( 3 ) = A ( 1 )"),
    ("joystk", "10 Z = JOYSTK ( 0 )"),
    # names that occur only in a PRINT item that starts with a sign or NOT
    ("print-neg-implicit-array", "10 PRINT - Q ( 2 )"),
    ("print-neg-len", "10 PRINT - LEN ( W$ )"),
    ("print-not-and-neg", "10 PRINT NOT Q ( 1 ) ; - LEN ( V$ ( 2 ) )"),
    ("print-at-neg", "10 PRINT @ 5 , - Q ( 3 ) ; - ASC ( U$ )"),
    # the DIM statement stands later in the text than the first reference (subroutine that sets things up, run first)
    ("dim-in-subroutine", "10 GOSUB 100\n20 A ( 15 ) = 1\n30 END\n100 DIM A ( 20 ) : RETURN"),
    ("dim-str-in-subroutine", '10 GOSUB 100\n20 F$ ( 3 ) = "X"\n30 END\n100 DIM F$ ( 7 ) : RETURN'),
    ("dim-after-goto", "10 GOTO 100\n20 A ( 2 ) = 1 : END\n100 DIM A ( 4 ) : GOTO 20"),
]
TEXT_ORDER_FREE = {"dim-in-subroutine", "dim-str-in-subroutine", "dim-after-goto"}  # the DIM runs first although it stands later
CONFIG_KEYS = {"G$": "G$", "F$()": "arr_F$", "NA$()": "arr_NA$", "NA$": "NA$", "K$()": "arr_K$", "B$": "B$", "E$()": "arr_E$"}


def run_symbolic(src, init_vars):
    """real convert() with symbolic default size s and symbolic configured size c for every key in CONFIG_KEYS"""
    from coco.b09 import compiler, elements as el
    from coco.b09.configs import CompilerConfigs, StringConfigs

    s, c = z3.Int("s"), z3.Int("c")

    def fn():
        sc = StringConfigs.model_construct(strname_to_size={k: symproxy.SInt(c) for k in CONFIG_KEYS})
        cfg = CompilerConfigs.model_construct(string_configs=sc)
        return compiler.convert(src + "\n", add_standard_prefix=False, add_suffix=False, skip_procedure_headers=True,
                                default_str_storage=symproxy.SInt(s), compiler_configs=cfg, initialize_vars=init_vars)

    had = hasattr(el, "defaultdict")
    old = getattr(el, "defaultdict", None)
    if had:
        el.defaultdict = lambda factory=None: symproxy.SymDict(factory)
    try:
        paths = symproxy.explore(fn, premises=[s >= 1, s <= 32766, c >= 1, c <= 32766])
    finally:
        if had:
            el.defaultdict = old
    proxy_trouble = [p for p in paths if p[1][0] == "exc" and re.search(r"SInt|SymDict|SStr|unhashable", f"{type(p[1][1]).__name__} {p[1][1]}")]
    if proxy_trouble:
        # the code now does something with the sizes that the integer proxy cannot follow (hashing, grouping ...): fall
        # back to concrete size pairs; the same obligations are then decided under s == sv, c == cv
        paths = []
        for sv, cv in ((80, 200), (200, 80), (40, 40), (32, 64), (64, 32)):
            sc = StringConfigs.model_construct(strname_to_size={k: cv for k in CONFIG_KEYS})
            cfg = CompilerConfigs.model_construct(string_configs=sc)
            try:
                text = compiler.convert(src + "\n", add_standard_prefix=False, add_suffix=False, skip_procedure_headers=True, default_str_storage=sv, compiler_configs=cfg, initialize_vars=init_vars)
                paths.append(([s == sv, c == cv], ("ok", text), []))
            except Exception as e:  # noqa: BLE001
                paths.append(([s == sv, c == cv], ("exc", e), []))
    return s, c, paths


def hole_text(text):
    return symproxy.HOLE_RE.sub(lambda m: str(HOLE_BASE + int(m.group(1))), text)


def collect_uses(stmts, uses, order):
    """identifiers in order of first textual use: ('var'|'idx', NAME, nsubscripts)"""

    def ex(e):
        if not isinstance(e, tuple) or not e or not isinstance(e[0], str):
            if isinstance(e, (list, tuple)):
                for x in e:
                    ex(x)
            return
        if e[0] == "var":
            uses.append(("var", e[1], 0, order[0]))
        elif e[0] == "idx":
            uses.append(("idx", e[1], len(e[2]), order[0]))
            for x in e[2]:
                ex(x)
        else:
            for x in e[1:]:
                ex(x)

    for st in stmts:
        order[0] += 1
        k = st[0]
        if k in ("dim", "param", "type", "label", "line", "rem", "base", "data", "nop"):
            continue
        if k == "if":
            ex(st[1])
            collect_uses(st[2], uses, order)
            if st[3] is not None:
                collect_uses(st[3], uses, order)
        elif k == "loop":
            collect_uses(st[1], uses, order)
        elif k in ("exitif", "while"):
            ex(st[1])
            collect_uses(st[2], uses, order)
        else:
            ex(st[1:])


def collect_decls(stmts, decls, order, problems):
    for st in stmts:
        order[0] += 1
        if st[0] in ("dim", "param"):
            for name, dims, tname, slen in st[1]:
                key = b09front.canon(name).upper()
                if key in decls:
                    problems.append(("duplicate-decl", key))
                decls[key] = (dims, tname, slen, order[0])
        elif st[0] == "if":
            collect_decls(st[2], decls, order, problems)
            if st[3] is not None:
                collect_decls(st[3], decls, order, problems)
        elif st[0] == "loop":
            collect_decls(st[1], decls, order, problems)
        elif st[0] in ("exitif", "while"):
            collect_decls(st[2], decls, order, problems)


def source_dims(src):
    """reference reading of the source DIM statements: canonical name -> bounds"""
    out = {}
    try:
        lines = cbfront.parse_program(src)
    except RefGap:
        return out

    def walk(stmts):
        for st in stmts:
            if st[0] == "dim":
                for key, bounds in st[1]:
                    out[key.upper()] = bounds
            elif st[0] == "if":
                walk(st[2])
                if st[3]:
                    walk(st[3])

    for _, stmts in lines:
        walk(stmts)
    return out


def check_one(job):
    label, src, init_vars = job
    st = smt.Stats()
    smt.STATS = st
    out = {"job": job, "sigs": [], "paths": 0, "samples": []}
    s, c, paths = run_symbolic(src, init_vars)
    out["paths"] = len(paths)
    sdims = source_dims(src)
    for pc, (stt, text), holes in paths:
        if stt == "exc":
            out["sigs"].append((f"crash:{label}:{type(text).__name__}", f"{type(text).__name__}: {text}", None))
            continue
        if stt != "ok":
            out["sigs"].append(("harness:" + str(text), str(text), None))
            continue
        try:
            stmts = b09front.parse_program(hole_text(text))
        except SyntaxErr as e:
            out["sigs"].append((f"syntax:{label}", str(e), None))  # C07 reports it; recorded here only as a pointer
            continue
        decls, problems = {}, []
        collect_decls(stmts, decls, [0], problems)
        uses = []
        collect_uses(stmts, uses, [0])
        for kind, key in problems:
            out["sigs"].append((f"duplicate-decl:{key}:{label}", f"{key} is declared twice in {text!r}", None))
        first_use = {}
        for kind, name, nsub, pos in uses:
            key = name.upper()
            first_use.setdefault((kind, key), (nsub, pos))
        for (kind, key), (nsub, pos) in first_use.items():
            if re.match(r"^(DISPLAY|PLAY|PID|ERNO|ERRNUM)", key):
                continue
            d = decls.get(key)
            # ---- arrays
            if kind == "idx":
                if d is None or d[0] is None:
                    out["sigs"].append((f"array-not-declared:{label}", f"{key} is subscripted but never declared as an array", None))
                else:
                    if d[3] > pos and label not in TEXT_ORDER_FREE:
                        out["sigs"].append((f"array-declared-after-use:{label}", f"{key}", None))
                    want = [b + 1 for b in sdims[key]] if key in sdims else [11] * nsub
                    if list(d[0]) != want:
                        out["sigs"].append((f"array-extent:{label}:declared={d[0]}:expected={want}", f"{key} declared {d[0]}, source needs {want}", None))
            # ---- strings
            if key.endswith("$"):
                dimmed_in_source = key in sdims or (kind == "var" and any(k2 == key for k2 in source_scalar_dims(src)))
                cfgkey = [k for k, ident in CONFIG_KEYS.items() if ident.upper() == key]
                expected = c if (cfgkey and dimmed_in_source) else s
                if d is None or d[2] is None:
                    cap = z3.IntVal(32)
                elif d[2] >= HOLE_BASE:
                    hk, term, _ = holes[d[2] - HOLE_BASE]
                    cap = term
                else:
                    cap = z3.IntVal(d[2])
                st.bump("obligations")
                if cap.eq(expected):
                    st.bump("identity")
                    continue
                v, m = smt.check(list(pc) + [cap != expected], 10000, True, stats=st)
                st.bump(v)
                if v == "sat":
                    sv, cv = m.eval(s, True).as_long(), m.eval(c, True).as_long()
                    what = "configured" if expected is c else "default"
                    declared = "no explicit size" if (d is None or d[2] is None) else "explicit size"
                    pos_class = "temp" if key.startswith("TMP_") else label
                    out["sigs"].append((f"string-size:{pos_class}:{what}:{declared}", f"{key}: requested {what} size but declared with {declared}; e.g. default={sv} configured={cv}", {"default_str_storage": sv, "configured": cv}))
                elif v == "unknown":
                    out["sigs"].append(("unknown", f"{key} size", None))
        if len(out["samples"]) < 2:
            out["samples"].append({"source": src, "path": [str(x) for x in pc][4:], "emitted": text[:200]})
    out["stats"] = st.export()
    return out


def source_scalar_dims(src):
    out = []
    try:
        lines = cbfront.parse_program(src)
    except RefGap:
        return out

    def walk(stmts):
        for st in stmts:
            if st[0] == "dim":
                for key, bounds in st[1]:
                    if bounds is None:
                        out.append(key.upper())
            elif st[0] == "if":
                walk(st[2])
                if st[3]:
                    walk(st[3])

    for _, stmts in lines:
        walk(stmts)
    return out


def config_validation(ctx):
    """real StringConfigs.check_mappings on a symbolic size"""
    from coco.b09.configs import StringConfigs

    ctx.encode("configs.StringConfigs.check_mappings", repo_source("coco/b09/configs.py"))
    n = z3.Int("size")
    for key in ("A$", "B1$()"):
        def fn():
            return StringConfigs.check_mappings({key: symproxy.SInt(n)})

        paths = symproxy.explore(fn, premises=[n >= -5, n <= 40000])
        ctx.stats["states"] += len(paths)
        for pc, (stt, val), holes in paths:
            ctx.stats["obligations"] += 1
            if stt == "ok":
                v, m = smt.check(list(pc) + [z3.Or(n < 1, n > 32766)], 10000, True)
                what = "accepted only within 1..32766"
            elif stt == "exc" and isinstance(val, AssertionError):
                v, m = smt.check(list(pc) + [n >= 1, n <= 32766], 10000, True)
                what = "rejected only outside 1..32766"
            else:
                ctx.harness_gap(f"check_mappings: {stt} {val!r}")
                continue
            ctx.stats[v] += 1
            ctx.sample({"obligation": f"size of {key} {what}", "verdict": v})
            if v == "sat":
                bad = m.eval(n, True).as_long()
                try:
                    StringConfigs(strname_to_size={key: bad})
                    accepted = True
                except Exception:  # noqa: BLE001
                    accepted = False
                ctx.stats["traces_validated_against_impl"] += 1
                if accepted != (1 <= bad <= 32766):
                    ctx.violation("config-size-range", f"size {bad} for {key}: accepted={accepted}", {"key": key, "size": bad})
                else:
                    raise HarnessError(f"config size model {bad} did not replay")


BUNDLE_PROGRAMS = [
    ("bundle-play", '10 PLAY "CDE"'), ("bundle-string", '10 A$ = STRING$ ( 3 , "X" )'), ("bundle-hdraw-string", '10 HDRAW "U5" : A$ = STRING$ ( 2 , "Y" )'),
    ("bundle-hprint", '10 HPRINT ( 1 , 2 ) , "HI"'), ("bundle-many", '10 PLAY "C" : HDRAW "U5" : A$ = STRING$ ( 2 , "Y" ) + STR$ ( 1 ) + HEX$ ( 2 ) : B = INSTR ( 1 , A$ , "Y" ) + VAL ( A$ )'),
]


def bundle_sizes(job):
    """the whole emitted bundle (program plus bundled runtime procedures) under a symbolic default size: every string
    declaration in it - DIM or PARAM, of the program or of a library procedure - carries that size"""
    label, src = job
    from coco.b09 import compiler, elements as el

    st = smt.Stats()
    smt.STATS = st
    out = {"job": job, "sigs": [], "paths": 0, "samples": []}
    s = z3.Int("s")

    def fn():
        return compiler.convert(src + "\n", add_standard_prefix=True, add_suffix=True, output_dependencies=True, procname="prog", default_str_storage=symproxy.SInt(s))

    had = hasattr(el, "defaultdict")
    old = getattr(el, "defaultdict", None)
    if had:
        el.defaultdict = lambda factory=None: symproxy.SymDict(factory)
    try:
        paths = symproxy.explore(fn, premises=[s >= 1, s <= 32766, s != 32])
    finally:
        if had:
            el.defaultdict = old
    out["paths"] = len(paths)
    for pc, (stt, text), holes in paths:
        if stt != "ok":
            out["sigs"].append((f"harness:bundle conversion on a symbolic size: {stt} {str(text)[:80]}", str(text), None))
            continue
        ndecl = 0
        for ln in text.replace("\r", "\n").split("\n"):
            code = re.sub(r'"[^"]*"', '""', ln)
            code = re.sub(r"\(\*.*", "", code)
            if not re.match(r"(?i)\s*(\d+\s+)?(dim|param)\b", code):
                continue
            for m in re.finditer(r"(?i):\s*string\b\s*(\[\s*([^\]]*)\])?(<<>>)?", code):
                if re.match(r"(?i)\s*param\b", code) and not m.group(1) and not m.group(3) and label != "never":
                    # PARAM s: STRING without a tag in the library text: declared that way by the library itself
                    lib_has = True
                ndecl += 1
                st.bump("obligations")
                size = m.group(2)
                if m.group(3) or size is None:
                    # is this declaration one the library wrote without a placeholder?  then it is not the tool's to size
                    plain_in_library = (not m.group(3)) and any(code.strip().lower() == l2.strip().lower() for l2 in library_lines())
                    if plain_in_library:
                        st.bump("identity")
                        continue
                    out["sigs"].append((f"bundle-string-size:{label}:{'placeholder-left' if m.group(3) else 'no-explicit-size'}", f"{code.strip()!r} in the emitted bundle", {"default_str_storage": 80}))
                    continue
                hm = symproxy.HOLE_RE.fullmatch(size.strip())
                if hm:
                    term = holes[int(hm.group(1))][1]
                    if term.eq(s):
                        st.bump("identity")
                        continue
                    v, mdl = smt.check(list(pc) + [term != s], 10000, True, stats=st)
                    st.bump(v)
                    if v == "sat":
                        out["sigs"].append((f"bundle-string-size:{label}:wrong-size", f"{code.strip()!r}: size differs from the requested default for s={mdl.eval(s, True)}", {"default_str_storage": mdl.eval(s, True).as_long()}))
                elif size.strip().isdigit():
                    # a literal size: must be one the library text itself carries
                    if any(code.strip().lower() == l2.strip().lower() for l2 in library_lines()):
                        st.bump("identity")
                    else:
                        out["sigs"].append((f"bundle-string-size:{label}:literal-size", f"{code.strip()!r}: literal size under a symbolic request", {"default_str_storage": 80}))
        if not ndecl:
            out["sigs"].append(("harness:no string declaration found in the bundle", label, None))
        if len(out["samples"]) < 1:
            out["samples"].append({"source": src, "string_declarations_in_bundle": ndecl, "options": "output_dependencies=True, symbolic default_str_storage"})
    out["stats"] = st.export()
    return out


_LIBLINES = None


def library_lines():
    global _LIBLINES
    if _LIBLINES is None:
        from vf.tv import lib as tvlib

        _LIBLINES = [re.sub(r"\(\*.*", "", ln.rstrip("\r")) for ln in tvlib.library_text().split("\n")]
    return _LIBLINES


def library_string_flows(ctx):
    """a string handed from one bundled procedure to another keeps its capacity: where the caller's variable is declared
    with the size placeholder (= the requested size), the callee's parameter is too - and fixed sizes agree likewise"""
    from vf.tv import lib as tvlib

    lib = tvlib.load_library()
    n = 0
    for pn, P in sorted(lib.items()):
        decl = {p_[0].lower(): p_ for p_ in P.params}
        decl.update({k: (k,) + tuple(v) for k, v in P.dims.items()})
        for callee, args, raw in P.runs:
            Q = lib.get(callee.lower())
            if Q is None:
                continue
            for i, a in enumerate(args):
                if a[0] != "var" or a[1].lower() not in decl or i >= len(Q.params):
                    continue
                d = decl[a[1].lower()]
                if d[2] != "string" or Q.params[i][2] != "string":
                    continue
                n += 1
                ctx.stats["obligations"] += 1
                if d[3] == Q.params[i][3]:
                    ctx.stats["identity"] += 1
                else:
                    size = lambda x: "the requested size" if x == -1 else "32 (no size given)" if x is None else str(x)  # noqa: E731
                    ctx.violation(f"library-string-flow:{callee.lower()}.{Q.params[i][0].lower()}", f"{pn} passes {a[1]} (declared with {size(d[3])}) to {callee}, whose parameter {Q.params[i][0]} is declared with {size(Q.params[i][3])}: `{raw}`", {"source": "10 PLAY \"C\"", "bundle": True, "witness": {"default_str_storage": 80}, "library_flow": [pn, callee]})
    ctx.bounds["library_string_flows"] = n
    if not n:
        raise HarnessError("no string flow between bundled procedures found (vacuous)")


def run(tier):
    ctx = Ctx("C10", tier, "translation_validation", technique="real convert() pipeline executed with z3-backed string sizes (symbolic default and configured size); declarations read back by the loader; z3 decides capacity = requested size for all sizes 1..32766")
    smt.reset_stats()
    jobs = [(label, src, iv) for label, src in PROGRAMS for iv in (False, True)]
    ctx.bounds.update({"programs": len(PROGRAMS), "sizes": "1..32766 (symbolic)", "config_keys": CONFIG_KEYS})
    for rel in ("coco/b09/visitors.py", "coco/b09/elements.py", "coco/b09/compiler.py", "coco/b09/configs.py"):
        ctx.encode(rel + " (executed on symbolic sizes)", repo_source(rel))
    results = pmap(check_one, jobs, chunksize=1)
    for r in results:
        ctx.stats["programs"] += 1
        ctx.stats["states"] += r["paths"]
        if r.get("stats"):
            ctx.add_solver_stats(r["stats"])
        for smp in r["samples"][:1]:
            ctx.sample(smp, limit=10)
        if r["sigs"]:
            ctx.stats["disagreements_checked"] += 1
        for sig, what, witness in r["sigs"]:
            if sig == "unknown":
                ctx.note_inconclusive(what)
            elif sig.startswith("harness"):
                ctx.harness_gap(f"{r['job'][1]!r}: {what}")
                continue
            elif sig.startswith("syntax:"):
                ctx.stats["unloadable_outputs(C07)"] += 1
            else:
                ctx.violation(sig, f"{r['job'][1]!r} (initialize_vars={r['job'][2]}) -> {what}", {"source": r["job"][1], "initialize_vars": r["job"][2], "witness": witness})
    for r in pmap(bundle_sizes, BUNDLE_PROGRAMS, chunksize=1):
        ctx.stats["programs"] += 1
        ctx.stats["states"] += r["paths"]
        ctx.add_solver_stats(r["stats"])
        for smp in r["samples"]:
            ctx.sample(smp, limit=14)
        for sig, what, witness in r["sigs"]:
            if sig.startswith("harness"):
                ctx.harness_gap(f"{r['job'][1]!r}: {sig}")
            else:
                ctx.violation(sig, f"{r['job'][1]!r} with dependencies -> {what}", {"source": r["job"][1], "bundle": True, "witness": witness})
    library_string_flows(ctx)
    # "the per-name size from the configuration file": the file is read again for every conversion (edited file, same
    # relative name in another directory) - the C12 obligation, claimed here for the size clause
    from vf.props import c12 as _c12

    _c12.config_history(ctx)
    config_validation(ctx)
    ctx.add_solver_stats(smt.STATS.export())
    ctx.extra["solver"] = {"z3": smt.z3_version()}
    ctx.explanation = "each string identifier on each symbolic path is one obligation (capacity term = requested term for all sizes); array rules are decided on the loaded declarations"
    ctx.assume("a string declared without STRING[n] has BASIC09's default capacity 32")
    return ctx


def replay(rec):
    from coco.b09.configs import CompilerConfigs, StringConfigs

    w = rec.get("witness") or {}
    if rec.get("library_flow"):
        probe = Ctx("C10", "quick", "translation_validation", technique="replay")
        library_string_flows(probe)
        return bool(probe.new_violations or probe.known_hit)
    if rec.get("bundle"):
        from vf.realconv import convert_full

        text = convert_full(rec["source"] + "\n", output_dependencies=True, procname="prog", default_str_storage=w.get("default_str_storage", 80))
        bad = [ln for ln in text.replace("\r", "\n").split("\n") if re.search(r"(?i):\s*string\s*(<<>>|$)", ln)]
        print(bad[:5])
        return bool(bad)
    kw = dict(initialize_vars=rec.get("initialize_vars", False))
    if w:
        kw["default_str_storage"] = w["default_str_storage"]
        kw["compiler_configs"] = CompilerConfigs(string_configs=StringConfigs(strname_to_size={k: w["configured"] for k in CONFIG_KEYS}))
    print(classify(rec["source"] + "\n", **kw))
    return True
