"""C02 - control flow of the translated program follows the source program (E3).

Programs = a fixed tail (END, a subroutine, a jump target) preceded by 1..3 lines drawn exhaustively from a set of
control-flow line templates (IF forms, FOR/NEXT forms, GOTO, GOSUB, ON..GOTO/GOSUB, END/STOP), x the four
combinations of filter_unused_linenum x initialize_vars.  Inputs come from an INPUT statement (symbolic script).
Both machines run every path; z3 decides path feasibility and equality of the traces (PRINT tags in order, END/STOP)
and final stores.  A finding is reduced to the smallest sub-list of template lines that still shows it.
"""
import itertools
import re

from vf import smt
from vf.core import Ctx, HarnessError, pmap, repo_source
from vf.realconv import classify
from vf.tv import equiv, lib as tvlib

P = 'PRINT "{t}"'

# name -> line text; {t} fresh print tag, {G} forward GOTO target, {S} subroutine line, {H} second jump target
TEMPLATES = {
    "P": 'PRINT "{t}"',
    "PP": 'PRINT "{t}" : PRINT "{t}"',
    "SET": "C = C + 1 : PRINT \"{t}\"",
    "IFL": "IF A = 1 THEN {G}",
    "IFS": 'IF A = 1 THEN PRINT "{t}"',
    "IFSS": 'IF A = 1 THEN PRINT "{t}" : PRINT "{t}"',
    "IFSG": 'IF A = 1 THEN PRINT "{t}" : GOTO {G}',
    "IFELSE": 'IF A = 1 THEN PRINT "{t}" ELSE PRINT "{t}"',
    "IFELSE2": 'IF A = 1 THEN PRINT "{t}" : PRINT "{t}" ELSE PRINT "{t}" : PRINT "{t}"',
    "IFLL": "IF A = 1 THEN {G} ELSE {H}",
    "IFLS": 'IF A = 1 THEN {G} ELSE PRINT "{t}"',
    "IFSL": 'IF A = 1 THEN PRINT "{t}" ELSE {H}',
    "ELIF": 'IF A = 1 THEN PRINT "{t}" ELSE IF B = 2 THEN PRINT "{t}" ELSE PRINT "{t}"',
    "ELIF2": 'IF A = 1 THEN PRINT "{t}" ELSE IF B = 2 THEN PRINT "{t}" ELSE IF B = 3 THEN PRINT "{t}" ELSE PRINT "{t}"',
    "ELIFL": "IF A = 1 THEN {G} ELSE IF B = 2 THEN {H} ELSE {G}",
    "ELIFL2": "IF A = 1 THEN {G} ELSE IF B = 2 THEN {G} ELSE {H}",
    "ELIFSL": 'IF A = 1 THEN PRINT "{t}" ELSE IF B = 2 THEN PRINT "{t}" ELSE {H}',
    "ELIFGOSUB": 'IF A = 1 THEN PRINT "{t}" ELSE IF B = 2 THEN PRINT "{t}" ELSE GOSUB {S}',
    "ELIFNOELSE": 'IF A = 1 THEN PRINT "{t}" ELSE IF B = 2 THEN PRINT "{t}"',
    "IFIF": 'IF A = 1 THEN IF B = 2 THEN PRINT "{t}"',
    "PIF": 'PRINT "{t}" : IF A = 1 THEN PRINT "{t}"',
    "IFGOSUB": "IF A = 1 THEN GOSUB {S} ELSE GOSUB {S}",
    "GOTO": "GOTO {G}",
    "GOSUB": "GOSUB {S}",
    "GOSUB2": 'GOSUB {S} : PRINT "{t}" : GOSUB {S}',
    "ONGOTO": "ON A GOTO {G} , {H}",
    "ONGOSUB": 'ON A GOSUB {S} , {S} : PRINT "{t}"',
    "FOR": 'FOR I = 1 TO 2 : PRINT "{t}" : NEXT I',
    "FORBARE": 'FOR I = 1 TO 2 : PRINT "{t}" : NEXT',
    "FORSTEP": 'FOR I = 1 TO 5 STEP 2 : PRINT "{t}" : NEXT I',
    "FORDOWN": 'FOR I = 2 TO 1 STEP - 1 : PRINT "{t}" : NEXT I',
    "FOR2": 'FOR I = 1 TO 2 : FOR J = 1 TO 2 : PRINT "{t}" : NEXT J , I',
    "FOR2BARE": 'FOR I = 1 TO 2 : FOR J = 1 TO 2 : PRINT "{t}" : NEXT : NEXT',
    "FOR2MIX": 'FOR I = 1 TO 2 : FOR J = 1 TO 2 : PRINT "{t}" : NEXT J : NEXT',
    "FOR2BAREJI": 'FOR J = 1 TO 2 : FOR I = 1 TO 2 : PRINT "{t}" : NEXT : NEXT',
    "FORJ": 'FOR J = 1 TO 2 : PRINT "{t}" : NEXT J',
    "FORLINE": 'FOR I = 1 TO 2 : PRINT "{t}"',
    "NEXTBARE": 'PRINT "{t}" : NEXT',
    "FORIF": 'FOR I = 1 TO 2 : IF A = 1 THEN PRINT "{t}"',
    "NEXTI": "NEXT I",
    "FORGOSUB": "FOR I = 1 TO 2 : GOSUB {S} : NEXT I",
    "FORVAR": 'FOR I = 1 TO 2 : C = C + I : NEXT I : PRINT "{t}"',
    "IFNUM": 'IF A THEN PRINT "{t}"',
    "IFNUMELSE": 'IF A THEN PRINT "{t}" ELSE PRINT "{t}"',
    "ELIFNUM": 'IF A = 1 THEN PRINT "{t}" ELSE IF B THEN PRINT "{t}" ELSE PRINT "{t}"',
    "ELIFNUML": "IF A THEN {G} ELSE IF B THEN {H} ELSE {G}",
    "FOR3LISTBARE": 'FOR G = 1 TO 2 : FOR I = 1 TO 2 : FOR J = 1 TO 2 : PRINT "{t}" : NEXT J , I : PRINT "{t}" : NEXT',
    "FOR4LISTBARE": 'FOR G = 1 TO 2 : FOR H = 1 TO 2 : FOR I = 1 TO 2 : FOR J = 1 TO 2 : PRINT "{t}" : NEXT J , I : NEXT : PRINT "{t}" : NEXT',
    "FOR3LIST3": 'FOR K = 1 TO 2 : FOR J = 1 TO 2 : FOR I = 1 TO 2 : PRINT "{t}" : NEXT I , J , K',
    "FOR3BARELIST": 'FOR K = 1 TO 2 : FOR J = 1 TO 2 : FOR I = 1 TO 2 : PRINT "{t}" : NEXT : NEXT J , K',
    # loop bounds taken from the input: every trip count 1..3 is one path (the guard keeps zero-trip loops out: Color
    # BASIC runs their body once, BASIC09 does not - outside the property's fragment)
    "FORSYM": 'IF B < 1 OR B > 3 THEN END\nFOR I = 1 TO B : PRINT "{t}" : NEXT I',
    "FORSYMBARE": 'IF B < 1 OR B > 3 THEN END\nFOR I = 1 TO B : PRINT "{t}" : NEXT',
    "FORSYMDOWN": 'IF B < 1 OR B > 3 THEN END\nFOR I = B TO 1 STEP - 1 : PRINT "{t}" : NEXT I',
    "FORSYMSTEP": 'IF B < 1 OR B > 5 THEN END\nFOR I = 1 TO B STEP 2 : PRINT "{t}" : NEXT I',
    "FORSYM2": 'IF B < 1 OR B > 2 THEN END\nFOR J = 1 TO 2 : FOR I = 1 TO B : PRINT "{t}" : NEXT : NEXT',
    "FORSYMIF": 'IF B < 1 OR B > 3 THEN END\nFOR I = 1 TO B : IF I = A THEN PRINT "{t}"\nNEXT I',
    "FORSYMGOTO": 'IF B < 1 OR B > 3 THEN END\nFOR I = 1 TO B : IF I = A THEN {G}\nNEXT I',
    # nested IFs whose conditions contain OR / AND (a merge of the two tests must keep their grouping)
    "IFIFOR1": 'IF A = 1 OR B = 1 THEN IF B = 2 THEN PRINT "{t}"',
    "IFIFOR2": 'IF A = 1 THEN IF B = 1 OR A = 2 THEN PRINT "{t}"',
    "IFIFOR2L": "IF A = 1 THEN IF B = 1 OR B = 2 THEN {G}",
    "IFIFAND": 'IF A = 1 AND B = 1 THEN IF A = 1 OR B = 2 THEN PRINT "{t}"',
    "IFIFELSE": 'IF A = 1 OR B = 1 THEN IF B = 2 THEN PRINT "{t}" ELSE PRINT "{t}"',
    # statements after a jump-bearing statement on the same line / in the same arm
    "ONGOTOTAIL": 'ON A GOTO {G} , {H} : PRINT "{t}" : END',
    "ONGOTOTAIL2": 'ON A GOTO {G} : PRINT "{t}"',
    "ONGOSUBTAIL": 'ON A GOSUB {S} : PRINT "{t}" : ON B GOSUB {S} , {S} : PRINT "{t}"',
    "IFONGOTO": 'IF B = 2 THEN ON A GOTO {G} , {H} : PRINT "{t}"',
    "IFONGOTOELSE": 'IF B = 2 THEN ON A GOTO {G} , {H} : PRINT "{t}" ELSE PRINT "{t}" : ON A GOTO {H} : PRINT "{t}"',
    "GOSUBTAIL": 'GOSUB {S} : PRINT "{t}" : GOTO {G}',
    "GOTOTAIL": 'GOTO {G} : PRINT "{t}"',
    # ELSE IF chains whose arms are all line numbers but whose first THEN part is statements; lone THEN GOSUB / THEN GOTO
    "ELIFSLL": 'IF A = 1 THEN PRINT "{t}" ELSE IF B = 2 THEN {G} ELSE {H}',
    "ELIFSLLL": 'IF A = 1 THEN PRINT "{t}" : PRINT "{t}" ELSE IF B = 2 THEN {G} ELSE IF B = 3 THEN {H} ELSE {G}',
    "IFTHENGOSUB": 'IF A = 1 THEN GOSUB {S}',
    "IFTHENGOTO": 'IF A = 1 THEN GOTO {G}',
    "IFTHENGOSUB2": 'IF A = 1 THEN GOSUB {S} : PRINT "{t}"',
    # loop step taken from the input (sign given by the guard): signed and parenthesised step expressions
    "FORSYMNEGSTEP": 'IF B < 1 OR B > 3 OR A < 1 OR A > 2 THEN END\nFOR I = B TO 1 STEP - A : PRINT "{t}" : NEXT I',
    "FORSYMPOSSTEP": 'IF B < 1 OR B > 3 OR A < 1 OR A > 2 THEN END\nFOR I = 1 TO B STEP A : PRINT "{t}" : NEXT I',
    "FORSYMPARSTEP": 'IF B < 1 OR B > 3 OR A < 1 OR A > 2 THEN END\nFOR I = B TO 1 STEP - ( A + 0 ) : PRINT "{t}" : NEXT',
    "FORSYMPLUSSTEP": 'IF B < 1 OR B > 3 OR A < 1 OR A > 2 THEN END\nFOR I = 1 TO B STEP + A : PRINT "{t}" : NEXT I',
    # every relation in the condition, with statements, with an empty THEN part, with an empty ELSE part: the boundary
    # (operands equal) is one of the paths
    "IFLT": 'IF A < 1 THEN PRINT "{t}" ELSE PRINT "{t}"',
    "IFGT": 'IF A > 1 THEN PRINT "{t}" ELSE PRINT "{t}"',
    "IFLE": 'IF A <= 1 THEN PRINT "{t}" ELSE PRINT "{t}"',
    "IFGE": 'IF A >= 1 THEN PRINT "{t}" ELSE PRINT "{t}"',
    "IFNE": 'IF A <> 1 THEN PRINT "{t}" ELSE PRINT "{t}"',
    "IFEMPTYLT": 'IF A < 1 THEN ELSE PRINT "{t}"',
    "IFEMPTYGT": 'IF A > 1 THEN ELSE PRINT "{t}"',
    "IFEMPTYLE": 'IF A <= 1 THEN ELSE PRINT "{t}"',
    "IFEMPTYGE": 'IF A >= 1 THEN ELSE PRINT "{t}"',
    "IFEMPTYEQ": 'IF A = 1 THEN ELSE PRINT "{t}"',
    "IFEMPTYNE": 'IF A <> 1 THEN ELSE PRINT "{t}"',
    "IFEMPTYCOLON": 'IF A < 1 THEN : ELSE PRINT "{t}" : PRINT "{t}"',
    "IFEMPTYAND": 'IF A < 1 AND B > 2 THEN ELSE PRINT "{t}"',
    "IFEMPTYNUM": 'IF A THEN ELSE PRINT "{t}"',
    "IFEMPTYL": "IF A <= 1 THEN ELSE {G}",
    "IFEMPTYELSEPART": 'IF A >= 1 THEN PRINT "{t}" ELSE',
    # jumps back to line 0 (a legal line number; a one-shot guard keeps the program finite)
    "BACK0": 'IF C = 0 THEN C = 1 : PRINT "{t}" : GOTO {Z}',
    "THEN0": "C = C + 1 : IF C = 1 THEN {Z}",
    "ELSE0": 'IF C <> 0 THEN PRINT "{t}" ELSE C = 1 : GOTO {Z}',
    "ONGOTO0": "C = C + 1 : IF C = 1 THEN ON A GOTO {Z} , {G}",
    # line 0 as a target in the last / a middle position of the list (the first target comes from another grammar rule)
    "ONGOTO0TAIL": "C = C + 1 : IF C = 1 THEN ON A GOTO {G} , {Z}",
    "ONGOTO0MID": "C = C + 1 : IF C = 1 THEN ON A GOTO {H} , {Z} , {G}",
    "ONGOTODUP": "ON A GOTO {G} , {G} , {H}",
    "ONGOSUBDUP": 'ON A GOSUB {S} , {S2} , {S} : PRINT "{t}"',
    # a statement list that starts with an empty statement (leading colon): on a line, in a THEN part, in an ELSE part
    "COLONLEAD": ': PRINT "{t}" : PRINT "{t}"',
    "COLONIF": ": IF A = 1 THEN {G}",
    "COLONARMS": 'IF A = 1 THEN : PRINT "{t}" : GOTO {G} ELSE : PRINT "{t}"',
    "COLONFOR": 'FOR I = 1 TO 2\n: PRINT "{t}"\nNEXT I',
    "END": "END",
    "STOP": "STOP",
    "IFEND": "IF A = 1 THEN END",
    "IFSTOP": 'IF A = 1 THEN PRINT "{t}" : STOP',
}
# FORIF opens a loop that NEXTI (a later line) closes: only generated as the adjacent pair
PAIR_ONLY = {"FORIF": "NEXTI", "FORLINE": "NEXTBARE"}
SOLO_EXCLUDED = {"NEXTI", "NEXTBARE"}
# variations of one construct: on their own and next to a few simple neighbours, not in every pair
VARIANTS = {"IFLT", "IFGT", "IFLE", "IFGE", "IFNE", "IFEMPTYLT", "IFEMPTYGT", "IFEMPTYLE", "IFEMPTYGE", "IFEMPTYEQ", "IFEMPTYNE", "IFEMPTYCOLON", "IFEMPTYAND",
            "IFEMPTYNUM", "IFEMPTYL", "IFEMPTYELSEPART", "BACK0", "THEN0", "ELSE0", "ONGOTO0", "ONGOTO0TAIL", "ONGOTO0MID", "ONGOTODUP", "ONGOSUBDUP", "COLONLEAD", "COLONIF", "COLONARMS", "COLONFOR", "FORSYMNEGSTEP", "FORSYMPOSSTEP", "FORSYMPARSTEP", "FORSYMPLUSSTEP"}

OPTION_SETS = [
    dict(filter_unused_linenum=False, initialize_vars=False),
    dict(filter_unused_linenum=True, initialize_vars=False),
    dict(filter_unused_linenum=False, initialize_vars=True),
    dict(filter_unused_linenum=True, initialize_vars=True),
]


def build(names):
    """assemble the program text for a list of template names"""
    n = len(names)
    lines = (['0 PRINT "Z"'] if any("{Z}" in TEMPLATES[nm] for nm in names) else []) + ["5 INPUT A , B"]
    tag = [0]

    def fresh():
        tag[0] += 1
        return f"T{tag[0]}"

    end_line = 10 * (n + 1)
    sub_line = end_line + 10
    tgt_line = end_line + 20
    for i, name in enumerate(names):
        text = TEMPLATES[name]
        while "{t}" in text:
            text = text.replace("{t}", fresh(), 1)
        text = text.replace("{G}", str(end_line)).replace("{S2}", str(sub_line + 5)).replace("{S}", str(sub_line)).replace("{H}", str(tgt_line)).replace("{Z}", "0")
        for k, part in enumerate(text.split("\n")):
            lines.append(f"{10 * (i + 1) + 3 * k} {part}")
    lines.append(f'{end_line} PRINT "E" : END')
    lines.append(f'{sub_line} PRINT "S" : RETURN')
    if any("{S2}" in TEMPLATES[nm] for nm in names):
        lines.append(f'{sub_line + 5} PRINT "S2" : RETURN')
    lines.append(f'{tgt_line} PRINT "H" : END')
    return "\n".join(lines)


def valid(names):
    for i, nm in enumerate(names):
        if nm in PAIR_ONLY and (i + 1 >= len(names) or names[i + 1] != PAIR_ONLY[nm]):
            return False
        if nm in SOLO_EXCLUDED and (i == 0 or PAIR_ONLY.get(names[i - 1]) != nm):
            return False
    return True


def sequences(tier):
    names = list(TEMPLATES)
    seqs = []
    heavy = {n for n in names if n.startswith("FORSYM") or n in ("FOR4LISTBARE", "FOR3LISTBARE", "FOR3LIST3", "FOR3BARELIST")}
    light = ("P", "IFL", "IFSG", "GOTO", "GOSUB", "FORBARE", "IFELSE", "ELIF")
    for n in (1, 2):
        for s in itertools.product(names, repeat=n):
            if not valid(s):
                continue
            if n == 2 and tier == "quick" and (set(s) & heavy) and not all(x in heavy or x in light for x in s):
                continue  # the many-path templates are paired with a few simple neighbours only in the quick tier
            if n == 2 and len([x for x in s if x in heavy]) == 2:
                continue  # two many-path templates in a row: the product of their paths, nothing new
            if n == 2 and (set(s) & VARIANTS) and not all(x in VARIANTS or x in ("P", "IFSG", "FORBARE") for x in s):
                continue
            if n == 2 and len([x for x in s if x in VARIANTS]) == 2 and tier == "quick":
                continue
            seqs.append(s)
    if tier == "thorough":
        core = [n for n in names if n not in VARIANTS and n not in ("ELIFNOELSE", "FOR2MIX", "PP", "IFELSE2", "ELIF2", "FORDOWN", "FORSTEP", "FORJ", "GOSUB2", "IFSS", "NEXTI", "FORIF", "FORLINE", "NEXTBARE", "STOP", "END", "SET", "IFLS", "IFSL", "ELIFSL", "IFEND", "FORVAR", "IFNUM", "IFNUMELSE", "ELIFNUM", "ELIFNUML", "FOR3LISTBARE", "FOR4LISTBARE", "FOR3LIST3", "FOR3BARELIST", "FORSYMBARE", "FORSYMDOWN", "FORSYMSTEP", "FORSYM2", "FORSYMIF", "FORSYMGOTO", "IFIFOR2L", "IFIFAND", "IFIFELSE", "ONGOTOTAIL2", "ONGOSUBTAIL", "IFONGOTOELSE", "GOSUBTAIL", "GOTOTAIL", "ELIFSLLL", "IFTHENGOTO", "IFTHENGOSUB2")]
    else:
        core = ["P", "IFL", "IFSG", "IFELSE", "IFLL", "ELIF", "GOSUB", "ONGOTO", "FORBARE", "FOR2BARE", "FOR", "IFSTOP", "GOTO"]
    for s in itertools.product(core, repeat=3):
        seqs.append(s)
    return seqs


_LIB = None


def library():
    global _LIB
    if _LIB is None:
        _LIB = tvlib.load_library()
    return _LIB


def run_program(src, oi, st):
    opts = OPTION_SETS[oi]
    o = classify(src + "\n", **opts)
    if o[0] != "ok":
        return o[0], o[1], [], {}
    init_mode = "zero" if opts["initialize_vars"] else "symbolic"
    res = equiv.compare(src, o[1], library=library(), init_mode=init_mode, stats=st, step_bound=140)
    kinds = []
    for f in res.findings:
        if f.kind in ("arity", "type-class", "missing-argument", "duplicate-decl"):
            continue
        kinds.append((f.kind, f.detail, f.witness))
    if res.status in ("refgap", "outside"):
        kinds.append(("harness-gap", res.note, {}))
    return "ok", o[1], kinds, dict(res.counts)


def kind_key(kind, detail):
    if kind in ("syntax", "type-error"):
        d = re.sub(r"'[^']*'", "<tok>", detail)
        return f"{kind}:{re.sub(r'[0-9]+', 'N', d)[:60]}"
    return kind


def check_one(job):
    names, oi = job
    st = smt.Stats()
    smt.STATS = st  # path-feasibility queries of the machines are charged to this job too
    src = build(names)
    status, emitted, kinds, counts = run_program(src, oi, st)
    out = {"job": job, "src": src, "status": status, "sigs": [], "counts": counts, "emitted": emitted if status == "ok" else None}
    if status == "crash":
        out["sigs"].append((f"crash:{emitted}:{'+'.join(names)}", f"convert() raised {emitted}", src))
    seen = set()
    for kind, detail, witness in kinds:
        kk = kind_key(kind, detail)
        if kk in seen:
            continue
        seen.add(kk)
        if kind == "harness-gap":
            out["sigs"].append(("harness-gap", detail, src))
            continue
        if kind == "unknown":
            out["sigs"].append(("unknown", detail, src))
            continue
        # reduce: smallest sub-list of the template lines (in order) that still shows the same kind, default options first
        best = None
        for size in range(1, len(names) + 1):
            for idxs in itertools.combinations(range(len(names)), size):
                sub = tuple(names[i] for i in idxs)
                if not valid(sub):
                    continue
                for o2 in ([0, oi] if oi != 0 else [0]):
                    if sub == tuple(names) and o2 == oi:
                        got = [kind_key(k, d) for k, d, _ in kinds]
                    else:
                        _, _, k2, _ = run_program(build(sub), o2, st)
                        got = [kind_key(k, d) for k, d, _ in k2]
                    if kk in got:
                        best = (sub, o2)
                        break
                if best:
                    break
            if best:
                break
        sub, o2 = best or (tuple(names), oi)
        optnote = "" if o2 == 0 else ":" + ",".join(k for k, v in OPTION_SETS[o2].items() if v)
        out["sigs"].append((f"{kk}:{'+'.join(sub)}{optnote}", detail, build(sub)))
    out["stats"] = st.export()
    return out


def run(tier):
    ctx = Ctx("C02", tier, "translation_validation", technique="translation validation with SMT: both symbolic machines run every path of source and emitted program; z3 decides path feasibility and equality of traces/stores; findings reduced to minimal template lists")
    smt.reset_stats()
    seqs = sequences(tier)
    jobs = [(s, oi) for s in seqs for oi in range(len(OPTION_SETS))]
    ctx.bounds.update({"templates": len(TEMPLATES), "lines_from_templates_max": 3, "sequences": len(seqs), "option_sets": OPTION_SETS, "step_bound": 140, "loop_trip_counts": "literal >= 1, or taken from the input with every value 1..3 (1..5 with STEP 2) a path"})
    for rel in ("coco/b09/grammar.py", "coco/b09/parser.py", "coco/b09/elements.py", "coco/b09/visitors.py", "coco/b09/prog.py", "coco/b09/compiler.py"):
        ctx.encode(rel + " (executed: real convert())", repo_source(rel))
    results = pmap(check_one, jobs, chunksize=32)
    statuses = {}
    for r in results:
        ctx.stats["programs"] += 1
        statuses[r["status"]] = statuses.get(r["status"], 0) + 1
        if r.get("stats"):
            ctx.add_solver_stats(r["stats"])
        ctx.stats["states"] += r["counts"].get("cb_paths", 0) + r["counts"].get("b09_paths", 0)
        ctx.stats["transitions"] += r["counts"].get("forks", 0)
        ctx.stats["cb_paths_beyond_step_bound"] += r["counts"].get("cb_bound", 0)
        if r["sigs"]:
            ctx.stats["disagreements_checked"] += 1
        for sig, what, src in r["sigs"]:
            if sig == "unknown":
                ctx.note_inconclusive(f"{'+'.join(r['job'][0])}: {what}")
            elif sig.startswith("harness"):
                ctx.harness_gap(f"{r['src']!r}: {what}")
                continue
            else:
                ctx.violation(sig, f"{src!r} -> {what}", {"source": src, "options": OPTION_SETS[r["job"][1]], "full_program": r["src"]})
    for r in results[:: max(1, len(results) // 8)]:
        ctx.sample({"templates": list(r["job"][0]), "options": OPTION_SETS[r["job"][1]], "source": r["src"], "paths": r["counts"].get("cb_paths"), "status": r["status"]})
    ctx.extra["program_status"] = statuses
    ctx.add_solver_stats(smt.STATS.export())
    ctx.extra["solver"] = {"z3": smt.z3_version()}
    ctx.explanation = "programs = template sequences x option sets; each compared leaf pair is one obligation"
    ctx.assume("Color BASIC: IF arms extend to the end of the line, ELSE pairs with the nearest IF, FOR body runs at least once, bare NEXT closes the innermost open FOR, NEXT A,B closes A then B")
    ctx.assume("BASIC09: block IF/ELSE/ENDIF, LOOP/EXITIF/ENDEXIT/ENDLOOP, pre-tested FOR; loops in the family have literal bounds with at least one trip, so the zero-trip difference is outside")
    return ctx


def replay(rec):
    st = smt.Stats()
    smt.STATS = st  # path-feasibility queries of the machines are charged to this job too
    for oi, o in enumerate(OPTION_SETS):
        if o == rec.get("options"):
            break
    else:
        oi = 0
    status, emitted, kinds, _ = run_program(rec["source"], 0, st)
    print(status, emitted)
    for k in kinds:
        print(k[:2])
    if not kinds and oi:
        status, emitted, kinds, _ = run_program(rec["source"], oi, st)
        print(status, emitted, [k[:2] for k in kinds])
    return bool(kinds) or status == "crash"
