"""C01 - translated expressions evaluate to the same values as in Color BASIC (E3 + E2 + E5).

A: every expression shape of the reference grammar up to a size bound x statement contexts -> real convert() ->
   both machines -> z3 decides equality of all observable terms for all variable values.
B: literal spellings: language of the real num_literal / hex_literal regexes vs what float()/int(,16) can read (E2).
C: hex threshold: real HexLiteral.basic09_text run on a symbolic int (E5), read back by a signed-16-bit reader.
"""
import itertools
import re

import z3

from vf import rxsmt, smt, symproxy
from vf.core import Ctx, HarnessError, pmap, repo_source
from vf.realconv import classify, convert_plain
from vf.tv import b09front, cbfront, equiv, explain, lib as tvlib
from vf.tv.lex import RefGap, SyntaxErr

LEAVES = ["A", "B", "C", "2"]
OPS = ["+", "-", "*", "/", "^", "AND", "OR"]

CONTEXTS = {
    "assign": "10 Z = {e}",
    "if": "10 IF {e} THEN 20\n20 END",
    "ifelse": "10 IF {e} THEN 20 ELSE 30\n20 END\n30 END",
    "ifstmt": "10 IF {e} THEN Z = 1 ELSE Z = 2",
    "elseif": "10 IF {e} THEN Z = 1 ELSE IF A = 9 THEN Z = 2 ELSE Z = 3",
    "print": "10 PRINT {e}",
    "forstart": "10 FOR I = {e} TO 99 : GOTO 20 : NEXT I\n20 END",
    "forlimit": "10 FOR I = 1 TO {e} : GOTO 20 : NEXT I\n20 END",
    "forstep": "10 FOR I = 1 TO 99 STEP {e} : GOTO 20 : NEXT I\n20 END",
    "index": "10 Z = Q ( {e} )",
    "on": "10 ON {e} GOTO 20 , 30\n20 END\n30 END",
}
# the translation of an expression does not depend on the rest of the program: the same statement next to a DATA line
# that spells the same constants (with an empty item, which makes the tool rewrite the DATA items in place), and twice
ENV_CONTEXTS = {
    "envdata": "1 DATA {lits} , , 7\n10 Z = {e}",
    "envdatatail": "10 Z = {e}\n20 DATA 7 , {lits} ,\n30 READ Y , X",
    "envtwice": "10 Z = {e}\n20 Y = {e}",
}
# the value reaches an array element as it reaches a scalar (the tool has a short cut for `target = converted function`)
ELEM_CONTEXTS = {"elem": "10 Q ( 2 ) = {e}\n20 Z = Q ( 2 )", "elemvar": "10 DIM Q ( 5 ) : Q ( C ) = {e} : Z = Q ( C )", "elemlet": "10 LET Q ( 1 , 2 ) = {e}\n20 Z = Q ( 1 , 2 )"}
SELEM_CONTEXTS = {"selem": "10 R$ ( 2 ) = {e}\n20 Z$ = R$ ( 2 )", "selemvar": "10 DIM R$ ( 5 ) : R$ ( C ) = {e} : Z$ = R$ ( C )"}
ELEM_EXPRS = ["INT ( A )", "VAL ( A$ )", "INSTR ( 1 , A$ , B$ )", "INT ( A ) + 1", "INT ( INT ( A ) )", "ABS ( A )", "A + 1", "LEN ( A$ )", "- INT ( A )", "2"]
SELEM_EXPRS = ["STR$ ( A )", "HEX$ ( A )", "STRING$ ( 3 , A$ )", "INKEY$", "LEFT$ ( A$ , 2 )", 'STR$ ( A ) + "X"', "CHR$ ( INT ( A ) )", '"L"']
NUM_CONTEXTS = ["assign", "if", "ifelse", "ifstmt", "print", "forstart", "forlimit", "forstep", "index", "on"]
BOOL_CONTEXTS = ["if", "ifelse", "ifstmt", "elseif"]
STR_CONTEXTS = {"sassign": "10 Z$ = {e}", "sprint": "10 PRINT {e}"}


def shapes(nops):
    for opsel in itertools.product(OPS, repeat=nops):
        for pre in itertools.product(range(3), repeat=nops + 1):
            parts = []
            for i in range(nops + 1):
                v = LEAVES[i % len(LEAVES)]
                parts.append([v, "- " + v, "NOT " + v][pre[i]])
                if i < nops:
                    parts.append(opsel[i])
            yield " ".join(parts)


def paren_family():
    for o1, o2 in itertools.product(OPS, repeat=2):
        yield f"( A {o1} B ) {o2} C"
        yield f"A {o1} ( B {o2} C )"
        yield f"ABS ( A {o1} B ) {o2} C"
        yield f"- ( A {o1} B ) {o2} C"
        yield f"NOT ( A {o1} B ) {o2} C"
        yield f"A {o1} - ( B {o2} C )"
        yield f"A {o1} Q ( B {o2} C )"
    for o1, o2 in itertools.product(OPS, repeat=2):
        # a parenthesised group that itself starts with a prefix operator
        yield f"A {o1} ( - B {o2} C )"
        yield f"( - A {o1} B ) {o2} C"
        yield f"A {o1} ( + B {o2} C )"
        yield f"A {o1} ( NOT B {o2} C )"
    for o in OPS:
        yield f"( - A ) {o} B"
        yield f"A {o} ( - B )"
        yield f"( NOT A ) {o} B"
        yield f"A {o} ( ( B ) )"
    for o in OPS:
        yield f"A {o} 2 ^ - B"
        yield f"A ^ - B {o} C"
        yield f"SGN ( - A ) {o} LEN ( A$ )"
        yield f"INT ( A ) {o} INT ( B )"
        yield f"- INT ( A ) {o} B"
        yield f"PEEK ( A {o} 1 ) + ASC ( A$ )"
    for lit in ("1.5", "1E3", "&HFF", "&H8000", "&H7FFF", ".5", "100000", "0", "1E-7", "1.25E-5", ".00000015", "6.02E-23", "1E16", "2.5E+20",
                "123456789", ".1", "1E-5", ".00002", "1 E 3", "99999999", "1E38", "&H0", "&HFFFF", "&H10000", "&HFFFFFF", "0.5", "00012", "12.500"):
        yield f"A + {lit}"
        yield f"- {lit} ^ 2"
    yield "ABS ( INT ( A ) )"
    yield "INT ( INT ( A ) )"
    yield "INT ( ABS ( A ) )"
    yield "VAL ( A$ ) + 1"
    yield "INSTR ( 1 , A$ , B$ ) * 2"
    yield "LEN ( A$ + B$ )"
    yield "ASC ( MID$ ( A$ , B , 1 ) )"
    yield "LEN ( STR$ ( A ) )"


def rel_family():
    rels = ["=", "<", ">", "<=", ">=", "<>", "=<", "=>"]
    for r in rels:
        yield f"A {r} B"
        yield f"A + 1 {r} B * 2"
        yield f"- A {r} B"
        yield f"A$ {r} B$"
        yield f'A$ + "X" {r} B$'
        yield f"NOT A {r} B"
    for o1 in ("AND", "OR"):
        for n1, n2 in itertools.product(("", "NOT "), repeat=2):
            yield f"{n1}A = 1 {o1} {n2}B < 2"
            yield f"{n1}A = 1 {o1} {n2}B < 2 OR C = 3"
            yield f"{n1}A = 1 {o1} {n2}B < 2 AND C = 3"
            yield f"{n1}( A = 1 {o1} B < 2 ) AND {n2}C = 3"
            yield f'{n1}A$ = "X" {o1} {n2}B = 2'
    for e in ("A", "A + B", "A AND B", "NOT A", "- A", "NOT A = 1", "A * B = C", "A < B + 1", "ABS ( A )", "( A )",
              "( A = 1 )", "( A = 1 ) AND ( B = 2 )", "A OR B = 2", "A = 1 OR B", "INT ( A ) = 1", "- INT ( A ) = 1",
              "LEN ( A$ ) > 2 AND A", "A = - B ^ 2", "A = 1 AND NOT B = 2 OR C = 3"):
        yield e


def str_family():
    yield 'A$ + B$'
    yield 'A$ + "X" + B$'
    yield 'LEFT$ ( A$ , 2 ) + B$'
    yield 'A$ + MID$ ( B$ , A , B + 1 )'
    yield 'CHR$ ( A + B ) + A$'
    yield 'STR$ ( A ) + B$'
    yield 'RIGHT$ ( A$ + B$ , 3 )'
    yield 'A$ + STRING$ ( 3 , B$ )'
    yield 'HEX$ ( A ) + STR$ ( B )'
    yield 'CHR$ ( INT ( A ) )'
    yield 'LEFT$ ( INKEY$ , 1 )'


def family(tier):
    jobs = []
    maxops = 3 if tier == "thorough" else 2
    for n in range(0, maxops + 1):
        for e in shapes(n):
            for c in NUM_CONTEXTS:
                jobs.append((c, e))
    if tier == "quick":
        for e in shapes(3):
            jobs.append(("assign", e))
    else:
        # four operators: assignment context, unary operators restricted to two operand positions
        for opsel in itertools.product(OPS, repeat=4):
            for i, j in itertools.combinations(range(5), 2):
                for pi, pj in itertools.product((1, 2), repeat=2):
                    parts = []
                    for k in range(5):
                        v = LEAVES[k % 4]
                        pre = pi if k == i else pj if k == j else 0
                        parts.append([v, "- " + v, "NOT " + v][pre])
                        if k < 4:
                            parts.append(opsel[k])
                    jobs.append(("assign", " ".join(parts)))
    for e in paren_family():
        for c in NUM_CONTEXTS:
            jobs.append((c, e))
    for e in list(shapes(0)) + list(shapes(1)) + [e for e in paren_family() if e.startswith("A + ") or e.startswith("- ")]:
        for c in ENV_CONTEXTS:
            jobs.append((c, e))
    for e in ELEM_EXPRS:
        for c in ELEM_CONTEXTS:
            jobs.append((c, e))
    for e in SELEM_EXPRS:
        for c in SELEM_CONTEXTS:
            jobs.append((c, e))
    for e in rel_family():
        for c in BOOL_CONTEXTS:
            jobs.append((c, e))
    for e in str_family():
        for c in STR_CONTEXTS:
            jobs.append((c, e))
    return jobs


_LIB = None


def library():
    global _LIB
    if _LIB is None:
        _LIB = tvlib.load_library()
    return _LIB


def source_for(ctxname, e):
    if ctxname in ELEM_CONTEXTS or ctxname in SELEM_CONTEXTS:
        return (ELEM_CONTEXTS.get(ctxname) or SELEM_CONTEXTS[ctxname]).format(e=e)
    if ctxname in ENV_CONTEXTS:
        lits = [t for t in e.split(" ") if re.fullmatch(r"[0-9.][0-9.]*(E[+-]?[0-9]+)?|&H[0-9A-F]+", t)] or ["2"]
        return ENV_CONTEXTS[ctxname].format(e=e, lits=" , ".join(dict.fromkeys(lits)))
    tpl = CONTEXTS.get(ctxname) or STR_CONTEXTS[ctxname]
    return tpl.format(e=e)


def expression_signatures(e):
    """explain a disagreement through the simplest context the expression fits in"""
    for tpl, rx in (("10 Z = {e}", r"Z := (.*)$"), ("10 IF {e} THEN 10", r"IF (.*) THEN 10$"), ("10 Z$ = {e}", r"Z\$ := (.*)$")):
        o = classify(tpl.format(e=e) + "\n")
        if o[0] != "ok":
            continue
        line = [ln for ln in o[1].split("\n") if ln.startswith("10 ")]
        if not line:
            continue
        m = re.search(rx, line[0].split(" \\ ")[-1])
        if not m:
            continue
        try:
            return explain.explain(cbfront.parse_expression(e), b09front.parse_expression(m.group(1)))
        except (RefGap, SyntaxErr):
            continue
    return None


def opset(e):
    try:
        t = explain.canon(cbfront.parse_expression(e))
    except RefGap:
        return "?"
    acc = set()

    def walk(x):
        if isinstance(x, tuple) and x and isinstance(x[0], str):
            k = explain.root_kind(x)
            if k != "leaf":
                acc.add(k)
            if x[0] == "call":
                acc.add("fn")
            for y in x[1:]:
                walk(y)
        elif isinstance(x, (tuple, list)):
            for y in x:
                walk(y)

    walk(t)
    return "+".join(sorted(acc))


BUILTIN_RE = re.compile(r"(?<![A-Z])(ABS|ATN|COS|EXP|FIX|LEN|LOG|PEEK|RND|SGN|SIN|SQR|TAN|ASC|CHR\$|LEFT\$|RIGHT\$|MID\$|TAB|STR\$|VAL|INT)(?![A-Z$])")


def normalise_syntax(msg):
    msg = re.sub(r"'[^']*'", "<tok>", msg)
    msg = BUILTIN_RE.sub("<builtin>", msg)
    return msg[:80]


def check_one(job):
    ctxname, e = job
    st = smt.Stats()
    smt.STATS = st  # path-feasibility queries of the machines are charged to this job too
    src = source_for(ctxname, e)
    out = {"job": job, "src": src, "status": None, "sigs": [], "stats": None, "counts": {}}
    o = classify(src + "\n")
    if o[0] == "refused":
        out["status"] = "refused"
        out["stats"] = st.export()
        return out
    if o[0] == "crash":
        out["status"] = "crash"
        out["sigs"].append((f"crash:{o[1]}", f"convert() raised {o[1]}", {}))
        out["stats"] = st.export()
        return out
    res = equiv.compare(src, o[1], library=library(), stats=st)
    out["counts"] = dict(res.counts)
    out["status"] = res.status
    out["emitted"] = o[1]
    if res.status in ("refgap", "outside"):
        out["note"] = res.note
        out["stats"] = st.export()
        return out
    for f in res.findings:
        if f.kind == "value-differs" or f.kind == "trace-differs":
            sigs = expression_signatures(e)
            if sigs:
                for s in sigs:
                    out["sigs"].append((s, f"{f.kind}: {f.detail}", f.witness))
            else:
                where = ",".join(f.witness.get("where", [])) if f.witness else ""
                out["sigs"].append((f"{f.kind}:{ctxname}:{where or f.detail[:40]}", f.detail, f.witness))
        elif f.kind == "syntax":
            out["sigs"].append(("syntax:" + normalise_syntax(f.detail), f.detail, {}))
        elif f.kind == "type-error":
            if "condition" in f.detail or "PRINT item" in f.detail:
                out["sigs"].append((f"type-error:{ctxname}:{normalise_syntax(f.detail)}", f.detail, {}))
            else:
                out["sigs"].append((f"type-error:{normalise_syntax(f.detail)}:{opset(e)}", f.detail, {}))
        elif f.kind in ("arity", "type-class", "unresolved", "missing-argument", "duplicate-decl", "uninitialised-read", "tmp-read-before-write"):
            continue  # C14 / C10 / C03 territory
        elif f.kind == "unknown":
            out["sigs"].append(("unknown", f.detail, {}))
        else:
            out["sigs"].append((f"{f.kind}:{ctxname}", f.detail, f.witness))
    out["stats"] = st.export()
    return out


# --------------------------------------------------------------------------- B: literal spellings (E2)
def literal_lemmas(ctx, tier):
    from coco.b09.grammar import grammar

    maxlen = 7 if tier == "quick" else 9
    pat = grammar["num_literal"].re.pattern
    ctx.encode("grammar.num_literal regex", pat)
    R = rxsmt.lang(pat)
    sp = z3.Star(z3.Re(" "))
    D = z3.Range("0", "9")
    digits = z3.Concat(D, z3.Star(z3.Concat(sp, D)))
    sign = z3.Option(z3.Union(z3.Re("+"), z3.Re("-")))
    mant = z3.Union(
        z3.Concat(digits, z3.Option(z3.Concat(sp, z3.Re("."), z3.Option(z3.Concat(sp, digits))))),
        z3.Concat(z3.Re("."), sp, digits),
    )
    expo = z3.Option(z3.Concat(sp, z3.Re("E"), sp, sign, sp, digits))
    FLOAT_OK = z3.Concat(sp, sign, sp, mant, expo, sp)  # what float() reads once blanks are removed
    s = z3.String("lit")
    # known classes (regular): no digit at all in the mantissa; exponent marker without digits; more than one sign
    anyc = z3.Full(z3.ReSort(z3.StringSort()))
    nodigit_mant = z3.Concat(z3.Star(z3.Union(z3.Re(" "), z3.Re("+"), z3.Re("-"))), z3.Re("."), z3.Star(z3.Union(z3.Re(" "), z3.Re("E"), z3.Re("+"), z3.Re("-"), D)))
    classes = {
        "literal:mantissa-without-digit": z3.Intersect(nodigit_mant, z3.Complement(z3.Concat(anyc, z3.Re("."), sp, D, anyc))),
        "literal:exponent-without-digit": z3.Concat(anyc, z3.Re("E"), z3.Star(z3.Union(z3.Re(" "), z3.Re("+"), z3.Re("-")))),
        "literal:several-signs": z3.Concat(sp, z3.Union(z3.Re("+"), z3.Re("-")), sp, z3.Union(z3.Re("+"), z3.Re("-")), anyc),
    }
    base = [z3.InRe(s, R), z3.Length(s) <= maxlen, z3.Length(s) >= 1, z3.Not(z3.InRe(s, FLOAT_OK))]
    # each known class: still inhabited?  replay one member through the real tool
    for name, cls in classes.items():
        ctx.stats["obligations"] += 1
        v, m = smt.check(base + [z3.InRe(s, cls)], 20000, True)
        ctx.stats[v] += 1
        if v == "sat":
            lit = rxsmt.z3str(m.eval(s, True).as_string())
            o = classify(f"10 A={lit}\n")
            ctx.stats["traces_validated_against_impl"] += 1
            if o[0] == "crash":
                ctx.violation(name, f"num_literal accepts {lit!r}, conversion raises {o[1]}", {"literal": lit, "source": f"10 A={lit}"})
            # accepted-but-tokenised-differently models are not findings
    ctx.stats["obligations"] += 1
    v, m = smt.check(base + [z3.Not(z3.InRe(s, c)) for c in classes.values()], 30000, True)
    ctx.stats[v] += 1
    ctx.sample({"lemma": "every num_literal spelling outside the known classes is readable by float()", "max_len": maxlen, "verdict": v})
    if v == "sat":
        lit = rxsmt.z3str(m.eval(s, True).as_string())
        o = classify(f"10 A={lit}\n")
        ctx.stats["traces_validated_against_impl"] += 1
        if o[0] == "crash":
            ctx.violation("literal:other:" + re.sub(r"\d", "9", lit), f"num_literal accepts {lit!r}, conversion raises {o[1]}", {"literal": lit})
        else:
            ctx.note_inconclusive(f"literal lemma model {lit!r} is tokenised differently by the real parser ({o[0]})")
    elif v == "unknown":
        ctx.note_inconclusive("literal lemma")
    # hex: blanks between & H and digits
    hpat = grammar["hex_literal"].re.pattern
    ctx.encode("grammar.hex_literal regex", hpat)
    H = rxsmt.lang(hpat)
    HEX = z3.Union(z3.Range("0", "9"), z3.Range("A", "F"))
    ok = z3.Concat(z3.Re("&"), z3.Star(z3.Re(" ")), z3.Re("H"), z3.Plus(HEX))
    ctx.stats["obligations"] += 1
    v, m = smt.check([z3.InRe(s, H), z3.Not(z3.InRe(s, ok)), z3.Length(s) <= 10], 20000, True)
    ctx.stats[v] += 1
    if v == "sat":
        lit = rxsmt.z3str(m.eval(s, True).as_string())
        o = classify(f"10 A={lit}\n")
        ctx.stats["traces_validated_against_impl"] += 1
        if o[0] == "crash":
            ctx.violation("literal:hex-blank-after-H", f"hex_literal accepts {lit!r}, conversion raises {o[1]}", {"literal": lit})
        elif o[0] == "ok":
            pass
    ctx.sample({"lemma": "digits of every hex_literal spelling reach int(.,16) without blanks", "verdict": v})


# --------------------------------------------------------------------------- C: hex threshold (E5)
def hex_threshold(ctx):
    from coco.b09 import elements as el

    ctx.encode("elements.HexLiteral.basic09_text", repo_source("coco/b09/elements.py"))
    n = z3.Int("n")
    for is_float in (False, True):
        def fn():
            h = object.__new__(el.HexLiteral)
            el.AbstractBasicExpression.__init__(h, is_str_expr=False)
            h._literal = symproxy.SInt(n)
            h._is_float = is_float
            return h.basic09_text(0)

        old_hex = el.__dict__.get("hex")
        el.hex = symproxy.sym_hex
        try:
            paths = symproxy.explore(fn, premises=[n >= 0, n <= 0xFFFFFF])
        finally:
            if old_hex is None:
                del el.hex
            else:
                el.hex = old_hex
        ctx.stats["states"] += len(paths)
        for pc, (stt, text), holes in paths:
            if stt != "ok":
                ctx.harness_gap(f"HexLiteral.basic09_text on a symbolic literal: {stt} {text}")
                continue
            tpl = symproxy.split_template(text)
            shape = "".join(p if isinstance(p, str) else "#" for p in tpl)
            # reader: "$#" is a 16-bit two's complement hex constant, "#" / "#.0" decimal; float(x) = x
            m = re.fullmatch(r"(float\()?(\$)?(0x)?#(\.0)?(\))?", shape)
            if not m or (m.group(1) is None) != (m.group(5) is None):
                ctx.violation(f"hex-shape:{shape}", f"hex literal emitted as {shape!r}", {"is_float": is_float, "path": [str(c) for c in pc]})
                continue
            hole = [p for p in tpl if isinstance(p, int)][0]
            kind, term, _ = holes[hole]
            if m.group(2):
                if kind != "hex":
                    ctx.violation(f"hex-shape:{shape}/{kind}", "decimal digits after $", {"is_float": is_float})
                    continue
                value = z3.If(term >= 0x8000, term - 0x10000, term)
                fits = term <= 0xFFFF
            else:
                value = term
                fits = z3.BoolVal(True)
            ctx.stats["obligations"] += 1
            v, mdl = smt.check(list(pc) + [z3.Or(value != n, z3.Not(fits))], 10000, True)
            ctx.stats[v] += 1
            ctx.sample({"obligation": "hex literal text denotes the source value", "is_float": is_float, "shape": shape, "path": [str(c) for c in pc][2:], "verdict": v})
            if v == "sat":
                val = mdl.eval(n, True).as_long()
                text = convert_plain(f"10 A=&H{val:X}\n")
                ctx.stats["traces_validated_against_impl"] += 1
                mm = re.search(r"\$([0-9A-F]+)", text)
                if mm and int(mm.group(1), 16) >= 0x8000:
                    ctx.violation("hex-threshold", f"&H{val:X} is emitted as ${mm.group(1)}, which BASIC09 reads as a negative 16-bit constant", {"value": val, "source": f"10 A=&H{val:X}", "emitted": text})
                else:
                    raise HarnessError(f"hex threshold model {val} did not replay: {text!r}")
            elif v == "unknown":
                ctx.note_inconclusive("hex threshold")


def run(tier):
    ctx = Ctx("C01", tier, "translation_validation", technique="translation validation: symbolic Color BASIC machine vs symbolic BASIC09 machine over real convert() output, z3 decides term equality; regex->z3 literal lemmas; symbolic-int run of HexLiteral")
    smt.reset_stats()
    jobs = family(tier)
    ctx.bounds.update({"binary_operators_max": 3 if tier == "thorough" else 2, "assign_context_operators_max": 4 if tier == "thorough" else 3,
                       "contexts": NUM_CONTEXTS + BOOL_CONTEXTS + list(STR_CONTEXTS) + list(ENV_CONTEXTS), "leaves": LEAVES, "bv_input_range": [-6, 6], "step_bound": 60})
    for rel in ("coco/b09/grammar.py", "coco/b09/parser.py", "coco/b09/elements.py", "coco/b09/visitors.py", "coco/b09/compiler.py"):
        ctx.encode(rel + " (executed: real convert())", repo_source(rel))
    ctx.encode("coco/resources/ecb.b09 (param lists)", tvlib.library_text())
    results = pmap(check_one, jobs, chunksize=128)
    statuses = {}
    for r in results:
        ctx.stats["programs"] += 1
        statuses[r["status"]] = statuses.get(r["status"], 0) + 1
        ctx.add_solver_stats(r["stats"])
        ctx.stats["states"] += r["counts"].get("cb_paths", 0) + r["counts"].get("b09_paths", 0)
        ctx.stats["transitions"] += r["counts"].get("forks", 0)
        if r["sigs"]:
            ctx.stats["disagreements_checked"] += 1
        for sig, what, witness in r["sigs"]:
            if sig == "unknown":
                ctx.note_inconclusive(f"{r['src']!r}: {what}")
                continue
            if sig.startswith("harness"):
                ctx.harness_gap(f"{r['src']!r}: {what}")
                continue
            ctx.violation(sig, f"{r['src']!r} -> {what}", {"source": r["src"], "emitted": r.get("emitted"), "witness": witness, "how": "convert(source) with PLAIN options, then ./bin/check replay"})
    for r in results[:: max(1, len(results) // 8)]:
        ctx.sample({"source": r["src"], "status": r["status"], "emitted": (r.get("emitted") or "")[:120], "counts": r["counts"]})
    ctx.extra["program_status"] = statuses
    literal_lemmas(ctx, tier)
    hex_threshold(ctx)
    # the converted numeric / string built-ins are contracts in the two machines (same function on both sides): INT and
    # HEX$ are discharged here on the text of the runtime library (vf/props/contracts.py)
    from vf.core import ContractCtx
    from vf.props import contracts
    from vf.tv import lib as _tvlib

    _lib = _tvlib.load_library()
    cctx = ContractCtx(ctx)
    contracts.check_int(cctx, _lib)
    contracts.check_int(cctx, _lib, alias=True)
    contracts.check_hex_digit(cctx, _lib)
    contracts.check_val(cctx, _lib)
    contracts.check_hex_length(cctx, _lib)
    # string values keep their length: under -s 80 every string the expression's value passes through (temporaries of
    # converted functions included) is declared with 80 characters
    from vf.props import c03 as _c03

    _c03.capacity(ctx, [("strexpr:" + e, tpl.format(e=e)) for e in str_family() for tpl in ("10 Z$ = {e}", '10 Z$ = "AB" + {e}', "10 PRINT {e}", '10 IF {e} = "A" THEN Z = 1')])
    # INSTR and STRING$ (part of "the numeric and string built-in functions"): the C20 obligations on the library text
    from vf.props import c20 as _c20

    _c20.check_instr(cctx, _lib, 3)
    _c20.check_string(cctx, _lib, 3, 4)
    ctx.bounds["contracts_discharged"] = ["ecb_int = floor (|v| <= 1e5, not within 1e-9 below an integer)", "_ecb_hex_digit = hex digit 0..15", "ecb_hex: number of digits for 0..65535"]
    ctx.add_solver_stats(smt.STATS.export())
    ctx.extra["solver"] = {"z3": smt.z3_version()}
    ctx.explanation = "see level text; programs = family members converted by the real tool and compared by the two symbolic machines"
    ctx.assume("Color BASIC operator precedence per the ROM table; BASIC09 precedence per its manual (NOT / unary minus tightest)")
    ctx.assume("^, /-on-integers and every built-in both dialects share are the same uninterpreted function on both sides; no claim about their values")
    ctx.assume("numeric AND/OR/NOT programs: inputs are 16-bit integers within -6..6 (no overflow in the family); otherwise variables are arbitrary reals")
    ctx.assume("convertible functions (INT VAL STR$ HEX$ INSTR STRING$ INKEY$ BUTTON JOYSTK POINT) follow the procedure contract: output parameter := function(inputs)")
    return ctx


def replay(rec):
    src = rec.get("source")
    if not src:
        lit = rec.get("literal")
        if lit is not None:
            o = classify(f"10 A={lit}\n")
            print(o)
            return o[0] == "crash"
        return False
    o = classify(src + "\n")
    print(o)
    if o[0] != "ok":
        return o[0] == "crash"
    res = equiv.compare(src, o[1], library=library())
    for f in res.findings:
        print(f)
    return bool(res.findings)
