"""C14 - every emitted runtime call matches the declared interface of its procedure.

Linker + constraint solving: every RUN in the real convert() output of the families (and every RUN between library
procedures) is bound against the param lists parsed from the real ecb.b09.  Argument count is compared directly;
the type class of each argument is decided by z3: expression typing rules and the declarations in scope become
constraints over an enumeration sort, and `class(arg_i) = class(param_i)` must be satisfiable.  The record types the
prologue declares are compared field for field with those of every library procedure that receives them.
"""
import itertools
import re

import z3

from vf import smt
from vf.core import Ctx, HarnessError, pmap, repo_source
from vf.realconv import classify
from vf.tv import b09front, families, lib as tvlib
from vf.tv.lex import SyntaxErr

OPTS = dict(add_standard_prefix=True, add_suffix=True, skip_procedure_headers=True, initialize_vars=True)

TC, (T_NUM, T_STR, T_BOOL, T_REC_DISPLAY, T_REC_PLAY, T_REC_OTHER) = z3.EnumSort("TypeClass", ["num", "str", "bool", "rec_display", "rec_play", "rec_other"])


def decl_class(tname):
    t = tname.lower()
    if t == "string":
        return T_STR
    if t in ("real", "integer", "byte"):
        return T_NUM
    if t == "boolean":
        return T_BOOL
    if t == "display_t":
        return T_REC_DISPLAY
    if t == "play_t":
        return T_REC_PLAY
    return T_REC_OTHER


class Typer:
    """expression typing as constraints"""

    def __init__(self, decls):
        self.decls = decls  # canonical upper name -> typename
        self.cons = []
        self.n = 0

    def fresh(self):
        self.n += 1
        return z3.Const(f"t{self.n}", TC)

    def ident(self, name):
        key = name.upper()
        base = key.split(".")[0]
        if "." in key:
            return T_NUM  # record fields of display_t / play_t are byte / integer
        if key in self.decls:
            return decl_class(self.decls[key])
        if base in self.decls:
            return decl_class(self.decls[base])
        return T_STR if key.endswith("$") else T_NUM

    def ty(self, e):
        k = e[0]
        if k == "num":
            return T_NUM
        if k == "str":
            return T_STR
        if k == "bool":
            return T_BOOL
        if k == "par":
            return self.ty(e[1])
        if k == "var":
            return self.ident(e[1])
        if k == "idx":
            for x in e[2]:
                self.cons.append(self.ty(x) == T_NUM)
            return self.ident(e[1])
        if k == "un":
            self.cons.append(self.ty(e[2]) == T_NUM)
            return T_NUM
        if k == "bin":
            a, b = self.ty(e[2]), self.ty(e[3])
            t = self.fresh()
            self.cons.append(a == b)
            self.cons.append(t == a)
            if e[1] == "+":
                self.cons.append(z3.Or(t == T_NUM, t == T_STR))
            else:
                self.cons.append(t == T_NUM)
            return t
        if k == "rel":
            self.cons.append(self.ty(e[2]) == self.ty(e[3]))
            return T_BOOL
        if k in ("and", "or"):
            self.cons.append(self.ty(e[1]) == T_NUM)
            self.cons.append(self.ty(e[2]) == T_NUM)
            return T_NUM
        if k == "not":
            self.cons.append(self.ty(e[1]) == T_NUM)
            return T_NUM
        if k in ("band", "bor", "bxor"):
            self.cons.append(self.ty(e[1]) == T_BOOL)
            self.cons.append(self.ty(e[2]) == T_BOOL)
            return T_BOOL
        if k == "bnot":
            self.cons.append(self.ty(e[1]) == T_BOOL)
            return T_BOOL
        if k == "call":
            name = e[1]
            for a in e[2]:
                self.ty(a)
            return T_STR if name.endswith("$") or name == "TAB" else T_NUM
        raise HarnessError(f"typer: unknown node {k}")


def walk_runs(stmts, out):
    for st in stmts:
        k = st[0]
        if k == "run":
            out.append(st)
        elif k == "if":
            walk_runs(st[2], out)
            if st[3] is not None:
                walk_runs(st[3], out)
        elif k == "loop":
            walk_runs(st[1], out)
        elif k in ("exitif", "while"):
            walk_runs(st[2], out)
        elif k == "repeat":
            walk_runs(st[1], out)
    return out


def collect_decls(stmts, out, types):
    for st in stmts:
        if st[0] in ("dim", "param"):
            for name, dims, tname, slen in st[1]:
                out[b09front.canon(name).upper()] = tname
        elif st[0] == "type":
            types[st[1]] = st[2]
        elif st[0] == "if":
            collect_decls(st[2], out, types)
            if st[3] is not None:
                collect_decls(st[3], out, types)
    return out


SYSTEM_SIGS = {"inkey": [("k", None, "string", None)]}


def check_call(name, args, decls, library, stats):
    """-> list of (kind, detail)"""
    lname = name.lower()
    proc = library.get(lname)
    if proc is None:
        if lname in SYSTEM_SIGS:
            params = SYSTEM_SIGS[lname]
        elif lname in tvlib.SYSTEM_MODULES:
            return []
        else:
            return [("unresolved", f"RUN {lname}: no such procedure in the bundled library")]
    else:
        params = proc.params
    out = []
    if len(args) != len(params):
        out.append(("arity", f"{lname}: {len(args)} arguments for {len(params)} parameters"))
    for i, ((pname, dims, tname, slen), a) in enumerate(zip(params, args)):
        typer = Typer(decls)
        t = typer.ty(a)
        want = decl_class(tname)
        stats.bump("obligations")
        # is there a typing of the argument expression under which it has the parameter's class?
        v, _ = smt.check(typer.cons + [t == want], 5000, stats=stats)
        stats.bump(v)
        if v == "unsat":
            v2, m = smt.check(typer.cons, 5000, want_model=True, stats=stats, count=False)
            have = str(m.eval(t, model_completion=True)) if v2 == "sat" else "ill-typed"
            out.append(("type-class", f"{lname}.{pname.lower()}: parameter is {want}, argument is {have}"))
        elif v == "unknown":
            out.append(("unknown", f"{lname}.{pname}"))
    return out


def program_jobs(tier):
    jobs = []
    for name, tag, src in families.device_programs(deep=(tier == "thorough")):
        jobs.append((f"dev:{name}:{re.sub(r'[0-9]+$', '', tag.split('+')[0])}", src))
    for p in families.statement_coverage():
        jobs.append(("stmt:" + p, p))
    arm_stmts = ["Z = INT ( A )", "PRINT INT ( A ) ; B$", "PRINT A", "PRINT A$ ( 1 )", "PRINT B$", "INPUT A", "READ A\n20 DATA ,", "READ A$ ( 1 )\n20 DATA ,",
                 "Z$ = STR$ ( A ) + HEX$ ( B )", "Z = INSTR ( 1 , A$ , B$ ) + VAL ( C$ )", "Z$ = STRING$ ( 3 , A$ ) + INKEY$", "HPRINT ( 1 , 2 ) , A$ ( 3 )",
                 "PRINT A ( 1 ) ; A$ ( 2 ) ; B", "Z = BUTTON ( 0 ) + JOYSTK ( 1 ) + POINT ( 1 , 2 )", "PLAY A$ ( 1 ) + B$", "HDRAW Z$", "SOUND A ( 1 ) , B"]
    for c in ["10 {s}"] + families.IF_ARM_CONTEXTS[:8]:
        for st in arm_stmts:
            if "\n" in st and "{s} :" in c:
                continue
            jobs.append(("arm:" + c.replace("{s}", "_")[3:] + ":" + st.split("\n")[0], c.format(s=st.split("\n")[0]) + ("\n" + st.split("\n")[1] if "\n" in st else "")))
    return jobs


_LIB = None


def library():
    global _LIB
    if _LIB is None:
        _LIB = tvlib.load_library()
    return _LIB


def check_one(job):
    label, src = job
    st = smt.Stats()
    smt.STATS = st  # path-feasibility queries of the machines are charged to this job too
    out = {"job": job, "sigs": [], "status": None, "runs": 0}
    o = classify(src + "\n", plain=False, **OPTS)
    out["status"] = o[0]
    if o[0] != "ok":
        out["stats"] = st.export()
        return out
    try:
        stmts = b09front.parse_program(o[1])
    except SyntaxErr as e:
        out["status"] = "syntax"  # C07's subject - except a RUN that passes nothing where it must pass an argument
        code = re.sub(r'"[^"]*"', '""', re.sub(r"\(\*.*", "", o[1]))
        for m in re.finditer(r"(?i)\brun\s+(\w+)\(", code):
            depth, k, args, cur = 1, m.end(), [], ""
            while k < len(code) and depth:
                ch = code[k]
                if ch == "(":
                    depth += 1
                elif ch == ")":
                    depth -= 1
                    if not depth:
                        break
                if ch == "," and depth == 1:
                    args.append(cur)
                    cur = ""
                else:
                    cur += ch
                k += 1
            args.append(cur)
            empty = [i + 1 for i, a in enumerate(args) if not a.strip()]
            if empty and len(args) > 1:
                out["sigs"].append(("missing-argument", f"{m.group(1)}: nothing is passed in position {empty[0]} of {len(args)}"))
        out["emitted"] = o[1]
        out["stats"] = st.export()
        return out
    types = {}
    decls = collect_decls(stmts, {}, types)
    runs = walk_runs(stmts, [])
    out["runs"] = len(runs)
    out["emitted"] = o[1]
    seen = set()
    for _, name, args in runs:
        for kind, detail in check_call(name, args, decls, library(), st):
            d = re.sub(r"tmp_\d+", "tmp", detail)
            if (kind, d) not in seen:
                seen.add((kind, d))
                out["sigs"].append((kind, d))
    # record types declared by the prologue vs the library's
    out["types"] = {k: v for k, v in types.items()}
    out["stats"] = st.export()
    return out


def library_internal(ctx):
    lib = library()
    for pname, proc in sorted(lib.items()):
        decls = {}
        for name, dims, tname, slen in proc.params:
            decls[name.upper()] = tname
        for name, (dims, tname, slen) in proc.dims.items():
            decls[name.upper()] = tname
        for callee, args, raw in proc.runs:
            ctx.stats["programs"] += 1
            for kind, detail in check_call(callee, args, decls, lib, smt.STATS):
                if kind == "unknown":
                    ctx.note_inconclusive(f"library {pname}: {detail}")
                    continue
                ctx.violation(f"library:{pname}:{kind}:{detail}", f"in procedure {pname}: {raw} -> {detail}", {"procedure": pname, "call": raw})
    ctx.extra["library_calls_checked"] = sum(len(p.runs) for p in lib.values())


def record_types(ctx, prologue_types):
    lib = library()
    for tname, fields in prologue_types.items():
        for pname, proc in sorted(lib.items()):
            if tname in proc.types:
                ctx.stats["obligations"] += 1
                mine = [(n.lower(), d, t.lower(), s) for n, d, t, s in fields]
                theirs = [(n.lower(), d, t.lower(), s) for n, d, t, s in proc.types[tname]]
                if mine == theirs:
                    ctx.stats["identity"] += 1
                else:
                    diff = [f"{a} vs {b}" for a, b in itertools.zip_longest(mine, theirs) if a != b][:3]
                    ctx.violation(f"record-layout:{tname}:{pname}", f"prologue type {tname} differs from the declaration in {pname}: {diff}", {"type": tname, "procedure": pname, "prologue": mine, "library": theirs})
    # every library procedure that takes a record declares the same layout as every other
    by_type = {}
    for pname, proc in lib.items():
        for tname, fields in proc.types.items():
            by_type.setdefault(tname, []).append((pname, [(n.lower(), d, t.lower(), s) for n, d, t, s in fields]))
    for tname, lst in by_type.items():
        if tname not in ("display_t", "play_t"):
            continue
        ref = lst[0]
        for pname, fields in lst[1:]:
            ctx.stats["obligations"] += 1
            if fields == ref[1]:
                ctx.stats["identity"] += 1
            else:
                ctx.violation(f"record-layout:{tname}:{pname}", f"type {tname} in {pname} differs from the one in {ref[0]}", {"type": tname})


def run(tier):
    ctx = Ctx("C14", tier, "translation_validation", technique="linking against the real ecb.b09 param lists; argument type classes decided by z3 (typing rules as constraints over an enumeration sort)")
    smt.reset_stats()
    jobs = program_jobs(tier)
    ctx.bounds.update({"programs": len(jobs), "options": OPTS})
    for rel in ("coco/b09/parser.py", "coco/b09/elements.py", "coco/b09/visitors.py", "coco/b09/compiler.py"):
        ctx.encode(rel + " (executed: real convert())", repo_source(rel))
    ctx.encode("coco/resources/ecb.b09 (procedure / param / type / dim lines, RUN statements)", tvlib.library_text())
    results = pmap(check_one, jobs, chunksize=32)
    prologue_types = {}
    nruns = 0
    for r in results:
        ctx.stats["programs"] += 1
        ctx.add_solver_stats(r["stats"])
        nruns += r.get("runs", 0)
        for k, v in (r.get("types") or {}).items():
            prologue_types.setdefault(k, v)
        if r["sigs"]:
            ctx.stats["disagreements_checked"] += 1
        for kind, detail in r["sigs"]:
            if kind == "unknown":
                ctx.note_inconclusive(f"{r['job'][1]!r}: {detail}")
                continue
            ctx.violation(f"{kind}:{detail}:{r['job'][0].split(':')[0]}", f"{r['job'][1]!r} -> {detail}", {"source": r["job"][1], "options": OPTS, "emitted": r.get("emitted")})
    ctx.extra["run_statements_checked"] = nruns
    for r in results[:: max(1, len(results) // 6)]:
        ctx.sample({"source": r["job"][1], "status": r["status"], "runs": r.get("runs")})
    if not {"display_t", "play_t"} <= set(prologue_types):
        raise HarnessError(f"prologue record types not found: {sorted(prologue_types)}")
    record_types(ctx, {k: prologue_types[k] for k in ("display_t", "play_t")})
    library_internal(ctx)
    ctx.add_solver_stats(smt.STATS.export())
    ctx.extra["solver"] = {"z3": smt.z3_version()}
    ctx.explanation = "programs = converted family members plus library-internal call sites; each argument's type class is one z3 query"
    ctx.assume("type classes: string / numeric (real, integer, byte) / boolean / record by type name; REAL vs INTEGER width is not distinguished")
    ctx.assume("OS-9 modules gfx, gfx2, syscall are external; inkey takes one string parameter")
    return ctx


def replay(rec):
    if "source" in rec:
        r = check_one(("replay", rec["source"]))
        print(r["sigs"])
        return bool(r["sigs"])
    if "procedure" in rec:
        lib = library()
        proc = lib[rec["procedure"]]
        print(proc.runs)
        return True
    return False
