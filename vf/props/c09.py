"""C09 - distinct source variables stay distinct; the same variable stays the same.

Solver part: names are z3 strings constrained to the language of the real `var`/`str_var` regexes (translated by
rxsmt, keyword look-ahead included); the emitted identifier is the z3 term the *real* visit_var / visit_str_var /
visit_array_ref_exp / visit_str_array_ref_exp / BasicArrayRef / BasicVar code builds when run on a symbolic-string
proxy (symproxy.SStr).  Three queries, all expected unsat; models are replayed through the real convert().
Position part: every grammar position of a variable gives the same output for a 4-char name and its 2-char prefix.
"""
import itertools
import re

import z3
from parsimonious.nodes import Node

from vf import rxsmt, smt, symproxy
from vf.core import Ctx, HarnessError, repo_source
from vf.realconv import convert_plain, classify

KINDS = ("num", "str", "numarr", "strarr")


def real_identifier(kind, name_term):
    """run the real visitor code on a symbolic name; returns list of (path_condition, z3 string term)"""
    from coco.b09 import parser as P
    from coco.b09.elements import BasicExpressionList, BasicLiteral
    from coco.b09.grammar import grammar

    def fn():
        bv = P.BasicVisitor()
        if kind in ("num", "numarr"):
            node = Node(grammar["var"], symproxy.SStr(name_term), 0, symproxy.SInt(z3.Length(name_term)))
            v = bv.visit_var(node, [])
        else:
            full = z3.Concat(name_term, z3.StringVal("$"))
            node = Node(grammar["str_var"], symproxy.SStr(full), 0, symproxy.SInt(z3.Length(full)))
            v = bv.visit_str_var(node, [])
        if kind == "numarr":
            v = bv.visit_array_ref_exp(None, [v, "", BasicExpressionList([BasicLiteral(1.0)])]).var
        elif kind == "strarr":
            v = bv.visit_str_array_ref_exp(None, [v, "", BasicExpressionList([BasicLiteral(1.0)])]).var
        return v.basic09_text(0)

    out = []
    for pc, (st, val), holes in symproxy.explore(fn):
        if st != "ok":
            raise NotSymbolic(f"{st} {val!r}")
        out.append((pc, symproxy.to_str_term(val, holes)))
    return out


class NotSymbolic(Exception):
    pass


TABLE_ALPHABET = "AB19"


def table_names(maxlen=3):
    out = []
    for n in range(1, maxlen + 1):
        for tail in itertools.product(TABLE_ALPHABET, repeat=n - 1):
            for first in "AB":
                out.append(first + "".join(tail))
    return out


def tabulated_identifier(kind, name_term, names):
    """fallback when the visitors cannot be run on a symbolic string: the real visitor code on every name of a finite
    table; the result is an If-chain over the table (the queries then range over the table only)"""
    from coco.b09 import parser as P
    from coco.b09.elements import BasicExpressionList, BasicLiteral
    from coco.b09.grammar import grammar

    term = z3.StringVal("")
    for nm in names:
        bv = P.BasicVisitor()
        if kind in ("num", "numarr"):
            v = bv.visit_var(Node(grammar["var"], nm, 0, len(nm)), [])
        else:
            v = bv.visit_str_var(Node(grammar["str_var"], nm + "$", 0, len(nm) + 1), [])
        if kind == "numarr":
            v = bv.visit_array_ref_exp(None, [v, "", BasicExpressionList([BasicLiteral(1.0)])]).var
        elif kind == "strarr":
            v = bv.visit_str_array_ref_exp(None, [v, "", BasicExpressionList([BasicLiteral(1.0)])]).var
        term = z3.If(name_term == z3.StringVal(nm), z3.StringVal(v.basic09_text(0)), term)
    return term


def ite_of_paths(paths):
    """paths partition the input space; fold into one term"""
    term = paths[-1][1]
    for pc, t in reversed(paths[:-1]):
        term = z3.If(z3.And(*pc) if pc else z3.BoolVal(True), t, term)
    return term


B09_WORDS = set(
    """base type dim param procedure run if then else endif for to step next while do endwhile repeat until loop endloop
    exitif endexit goto gosub return on error end stop print input read data restore poke let rem byte integer real
    boolean string float fix int land lor lnot lxor and or not xor true false val str chr asc len mid left right
    errnum addr sqr sin cos tan atn exp log abs sgn rnd peek tab using shell chd chx kill open close create seek get put
    delete deg rad bye pause tron troff mod pi pos size trim date eof""".split()
)


def generated_identifiers():
    """identifiers the tool generates itself, lexed from real output of a program that uses every generator"""
    src = (
        "10 ON ERR GOTO 10:ON BRK GOTO 10:HBUFF 1,2:QQ=JOYSTK(0):PRINT INT(QQ);STR$(QQ):QQ$=STRING$(3,QQ$)"
        ":READ QQ:INPUT QQ:SOUND 1,1:POKE 65496,0:PLAY QQ$:HCIRCLE(1,2),3\n20 DATA 1,\n"
    )
    out = convert_plain(src, add_standard_prefix=True, add_suffix=True, initialize_vars=True)
    ids = set()
    for line in out.split("\n"):
        code = re.sub(r'"[^"]*"', '""', line)
        code = re.sub(r"\(\*.*", "", code)
        code = re.sub(r"(?i)\brun\s+\w+", "", code)
        code = re.sub(r"(?i)^(\s*type\s+\w+)\s*=.*", r"\1", code)  # record field names live in their own namespace
        code = re.sub(r"\.\w+", "", code)
        for m in re.finditer(r"[A-Za-z_][A-Za-z_0-9]*\$?", code):
            w = m.group(0)
            if w.lower().rstrip("$") in B09_WORDS or w.upper() in ("QQ", "QQ$"):
                continue
            ids.add(w)
    if not {"display", "play", "pid", "erno", "tmp_1"} <= ids:
        raise HarnessError(f"generated-identifier scan lost the well-known names: {sorted(ids)}")
    return out, ids


def icase_re(word):
    parts = []
    for ch in word:
        if ch.isdigit():
            # temporaries are numbered: any number stands for the family tmp_N
            parts.append(z3.Plus(z3.Range("0", "9")))
        elif ch.lower() != ch.upper():
            parts.append(z3.Union(z3.Re(ch.lower()), z3.Re(ch.upper())))
        else:
            parts.append(z3.Re(ch))
    return rxsmt.concat(parts)


POSITIONS = [
    "10 {v}=1",
    "10 LET {v}=1",
    "10 Z={v}+1",
    "10 FOR {v}=1 TO 2:NEXT {v}",
    "10 FOR {v}=1 TO 2 STEP 1:NEXT {v},{v}",
    "10 READ {v}",
    "10 INPUT {v}",
    '10 INPUT "X";{v}',
    "10 LINE INPUT {s}",
    "10 DIM {v}(3)",
    "10 DIM {v}",
    "10 DIM {s}(3)",
    "10 DIM {s}",
    "10 Z=VARPTR({v})",
    "10 Z=VARPTR({s})",
    "10 Z=VARPTR({v}(1))",
    "10 {v}(1)=2",
    "10 Z={v}(1)",
    "10 Z(  {v})=1",
    "10 Z=Q({v})",
    "10 {s}=\"A\"",
    "10 {s}(1)=\"A\"",
    "10 Z$={s}+\"A\"",
    "10 Z$={s}(2)",
    "10 PRINT {v};{s}",
    "10 IF {v}=1 THEN 10",
    "10 IF {s}=\"A\" THEN 10 ELSE 10",
    "10 ON {v} GOTO 10",
    "10 READ {s},{v}(1),{s}(2)",
    "10 Z=LEN({s}):Z=ASC({s}):Z$=LEFT$({s},{v})",
    "10 {s}=\"X",
    "10 POKE {v},{v}:SOUND {v},{v}",
    "10 Z=INSTR({v},{s},{s})",
    "10 HPRINT({v},{v}),{s}",
]


def name_language(ctx, var_pat, str_pat, maxlen):
    """which strings are variable names: a letter followed by letters and digits, unless the string BEGINS with a
    reserved word (the dialect the tool documents: a keyword inside or at the end of a name does not end it).  z3 decides
    that the real var / str_var regexes match every such name completely (so that the visitors then see the whole name
    and keep its first two characters) and nothing else."""
    from coco.b09 import grammar as G

    kws = [k for k in G.KEYWORDS.split("|") if k]
    alnum = z3.Union(z3.Range("A", "Z"), z3.Range("0", "9"))
    ident = z3.Concat(z3.Range("A", "Z"), z3.Star(alnum))
    anyc = z3.Full(z3.ReSort(z3.StringSort()))
    # keyword prefixes: the list is taken from the grammar module as data (regex metacharacters in it are escaped here)
    starts_kw = rxsmt.union(z3.Concat(rxsmt.lang("(?:" + k + ")"), anyc) for k in kws)
    n = z3.String("name")
    L_var, L_str = rxsmt.lang(var_pat), rxsmt.lang(str_pat)
    for kind, lang, suffix in (("num", L_var, ""), ("str", L_str, "$")):
        # the whole spelling (name plus `$`) is the solver variable: a concatenation term inside the complemented union
        # of keyword prefixes left z3 without an answer, the same constraints on one variable are decided at once
        whole = n
        shape = z3.Concat(ident, z3.Re(suffix)) if suffix else ident
        ref = [z3.InRe(n, shape), z3.Not(z3.InRe(whole, starts_kw)), z3.Length(n) <= maxlen + len(suffix)]
        for direction, query in (("reference-name-not-matched", ref + [z3.Not(z3.InRe(whole, lang))]),
                                 ("matched-but-not-a-name", [z3.InRe(whole, lang), z3.Length(n) <= maxlen + len(suffix), z3.Not(z3.And(*ref[:2]))])):
            ctx.stats["obligations"] += 1
            v, m = smt.check(query, 8000, True)
            ctx.stats[v] += 1
            ctx.sample({"query": f"name language ({kind}): {direction}", "verdict": v})
            if v == "sat":
                nm = rxsmt.z3str(m.eval(n, True).as_string())
                if suffix and nm.endswith(suffix):
                    nm = nm[: -len(suffix)]
                carrier = nm + suffix
                o = classify(f"10 {carrier}=" + ('"X"' if suffix else "1") + "\n")
                ctx.stats["traces_validated_against_impl"] += 1
                want = nm[:2] + suffix
                got = re.search(r"^10 (\S+?)(\(.*\))? := ", o[1], re.M).group(1) if o[0] == "ok" and re.search(r"^10 (\S+?)(\(.*\))? := ", o[1], re.M) else None
                if direction == "reference-name-not-matched" and got != want:
                    ctx.violation(f"name-language:{kind}:{direction}", f"`10 {carrier}=...` -> {o[0]} {(o[1] or '')[:60]!r}: the name is not read as the variable {want}", {"names": [nm, nm], "kind": kind})
                elif direction == "matched-but-not-a-name":
                    ctx.note_inconclusive(f"name language ({kind}): the regex also matches {carrier!r}, which the reference does not call a name")
                else:
                    raise HarnessError(f"name-language model {carrier!r} did not replay: {o}")
            elif v == "unknown":
                ctx.note_inconclusive(f"name language ({kind}) {direction}")


def embedded_keywords(ctx):
    """every reserved word of the tool's keyword list inside or at the end of a name (never at its start): the name is
    still one variable, known by its first two characters"""
    from coco.b09 import grammar as G

    kws = sorted({k.replace("\\", "") for k in G.KEYWORDS.split("|") if re.fullmatch(r"[A-Z]+\\?\$?", k)})
    for k in kws:
        base = k.rstrip("$")
        for stem, suffix in (("X" + base, ""), ("X" + base + "Y", ""), ("XY" + base, ""), ("Q" + base + "1", ""), ("X" + base, "$"), ("XY" + base + "Z", "$")):
            if any(stem.startswith(r.replace("\\", "").rstrip("$")) for r in G.KEYWORDS.split("|") if r and re.fullmatch(r"[A-Z]+\\?\$?", r)):
                continue  # the whole name would begin with (another) reserved word: not a name in this dialect
            carrier = stem + suffix
            o = classify(f"10 {carrier}=" + ('"X"' if suffix else "1") + "\n")
            ctx.stats["programs"] += 1
            ctx.stats["obligations"] += 1
            mm = re.search(r"^10 (\S+?)(\(.*\))? := ", o[1], re.M) if o[0] == "ok" else None
            want = stem[:2] + suffix
            if mm and mm.group(1) == want and o[1].count("\n") == 1:
                ctx.stats["identity"] += 1
            else:
                ctx.violation(f"name-with-embedded-keyword:{'str' if suffix else 'num'}:{'refused' if o[0] != 'ok' else 'split'}", f"`10 {carrier}=...` (keyword {k} inside the name) -> {o[0]} {(o[1] or '')[:70]!r}; expected one assignment to {want}", {"names": [stem, stem], "kind": "str" if suffix else "num"})


def reserved_word_positions(ctx):
    """a word is a variable in every position or in none: for every reserved word of Color BASIC (reference list) and of
    the tool's own keyword list, the positions in which the tool reads it as a user variable (its first two characters
    come out as an identifier) are all of the positions it accepts, or none of them.  A word that is a variable as an
    assignment target and something else inside an expression is two different things under one name."""
    from coco.b09 import grammar as G

    from vf.tv import cbfront

    words = sorted({k.replace("\\", "") for k in G.KEYWORDS.split("|") if re.fullmatch(r"[A-Z]+", k.replace("\\", ""))} | {w for w in set(cbfront.STATEMENT_WORDS) | set(cbfront.NUM_FUNCS) if re.fullmatch(r"[A-Z]+", w)} | {"ERNO", "ERR", "ERLIN"})
    positions = ["10 {v}=1", "10 LET {v}=1", "10 Z={v}+1", "10 Z=2*{v}", "10 FOR {v}=1 TO 2:NEXT {v}", "10 READ {v}", "10 INPUT {v}", "10 PRINT {v}", "10 IF {v}=1 THEN 10",
                 "10 Z=Q({v})", "10 POKE 1,{v}", "10 DIM {v}(4)", "10 {v}(1)=2", "10 ON {v} GOTO 10"]
    for w in words:
        as_var, other = [], []
        for pos in positions:
            o = classify(pos.format(v=w) + "\n")
            ctx.stats["programs"] += 1
            if o[0] != "ok":
                continue
            code = re.sub(r'"[^"]*"', '""', re.sub(r"\(\*.*?\*\)", "", o[1]))
            is_var = re.search(r"(?<![A-Za-z_0-9$])(arr_)?" + re.escape(w[:2]) + r"(?![A-Za-z_0-9$])", code) is not None
            (as_var if is_var else other).append((pos, o[1].strip().replace("\n", " | ")[:60]))
        ctx.stats["obligations"] += 1
        if as_var and other:
            ctx.violation(f"word-is-variable-and-keyword:{w}", f"{w} is the user variable {w[:2]} in {as_var[0][0].format(v=w)!r} -> {as_var[0][1]!r} but not in {other[0][0].format(v=w)!r} -> {other[0][1]!r}", {"names": [w, w], "word": w, "as_variable": as_var[:3], "otherwise": other[:3]})
        else:
            ctx.stats["identity"] += 1


def same_name_kinds(ctx):
    """one two-character name used as scalar, string, array and string array in one program: four identifiers, each
    array declared (explicitly DIMmed or not, in either order of first use)"""
    from vf.props.c10 import collect_decls, collect_uses
    from vf.tv import b09front
    from vf.tv.lex import SyntaxErr

    uses = {"num": "{n} = 1", "str": '{n}$ = "A"', "numarr": "{n} ( 1 ) = 2", "strarr": '{n}$ ( 2 ) = "B"'}
    dims = {"numarr": "DIM {n} ( 5 )", "strarr": "DIM {n}$ ( 5 )", "str": "DIM {n}$", "both": "DIM {n}$ ( 5 ) , {n}$", "both2": "DIM {n}$ , {n}$ ( 5 )"}
    from coco.b09.configs import CompilerConfigs, StringConfigs

    def cfg(mapping):
        return CompilerConfigs(string_configs=StringConfigs(strname_to_size=mapping))

    for name in ("Q", "NA", "NAME"):
        for order in itertools.permutations(KINDS, 2):
            both = ("both", "both2") if set(order) == {"str", "strarr"} else ()
            for dimmed in (None,) + tuple(k for k in order if k in dims) + both:
                parts = ([dims[dimmed].format(n=name)] if dimmed else []) + [uses[k].format(n=name) for k in order]
                src = "10 " + " : ".join(parts)
                kws = [dict(), dict(initialize_vars=True, default_str_storage=40)]
                if dimmed in ("str", "strarr", "both", "both2"):
                    # a size configured for the scalar does not reach the array of the same name, and the other way round
                    kws += [dict(default_str_storage=40, compiler_configs=cfg({name[:2] + "$()": 77})), dict(default_str_storage=40, compiler_configs=cfg({name[:2] + "$": 55})),
                            dict(default_str_storage=40, compiler_configs=cfg({name[:2] + "$()": 77, name[:2] + "$": 55})), dict(default_str_storage=40, compiler_configs=cfg({name[:2] + "$": 55, name[:2] + "$()": 77}))]
                for kw in kws:
                    ctx.stats["programs"] += 1
                    ctx.stats["obligations"] += 1
                    o = classify(src + "\n", **kw)
                    if o[0] != "ok":
                        continue
                    try:
                        stmts = b09front.parse_program(o[1])
                    except SyntaxErr:
                        continue
                    decls, problems, used = {}, [], []
                    collect_decls(stmts, decls, [0], problems)
                    collect_uses(stmts, used, [0])
                    idents = {u[1].upper() for u in used if not u[1].upper().startswith("TMP_")}
                    want = len(set(order))
                    missing = [u[1] for u in used if u[0] == "idx" and (decls.get(u[1].upper()) is None or decls[u[1].upper()][0] is None)]
                    uninit = []
                    if kw.get("initialize_vars"):
                        # the book-keeping of the passes must keep the kinds apart too: a scalar is pre-initialised
                        # whether or not an array of the same name exists
                        head = o[1].split("\n10 ")[0] if "\n10 " in o[1] else ""
                        for k in order:
                            if k in ("num", "str"):
                                ident = name[:2] + ("$" if k == "str" else "")
                                # a scalar that is itself DIMmed is initialised by the statements its DIM becomes, not by the prologue
                                where = o[1] if (k == "str" and dimmed in ("str", "both", "both2")) else head
                                if not re.search(r"(?m)(^|\\ )\s*" + re.escape(ident) + r" := (0\.0|\"\")", where):
                                    uninit.append(ident)
                    if kw.get("default_str_storage", 32) != 32:
                        # a string scalar keeps its own storage declaration beside a string array of the same name
                        short = []
                        configured = {}
                        if "compiler_configs" in kw:
                            for ck, cv in kw["compiler_configs"].string_configs.strname_to_size.items():
                                configured[("ARR_" + ck[:-2] if ck.endswith("()") else ck).upper()] = cv
                        dimmed_keys = set()
                        if dimmed in ("str", "both", "both2"):
                            dimmed_keys.add((name[:2] + "$").upper())
                        if dimmed in ("strarr", "both", "both2"):
                            dimmed_keys.add(("ARR_" + name[:2] + "$").upper())
                        for u in used:
                            key = u[1].upper()
                            if key.endswith("$") and not key.startswith("TMP_"):
                                d = decls.get(key)
                                cap = 32 if d is None or d[2] is None else d[2]
                                wantcap = configured[key] if key in configured and key in dimmed_keys else kw["default_str_storage"]
                                if cap != wantcap:
                                    short.append(f"{u[1]}:{cap} (expected {wantcap})")
                        if short:
                            tag = "configured:" if configured else ""
                            ctx.violation(f"kinds-string-capacity:{tag}{'/'.join(order)}:{'dim-' + dimmed if dimmed else 'implicit'}", f"{src!r} {({k: (v if k != 'compiler_configs' else v.string_configs.strname_to_size) for k, v in kw.items()})}: declared capacity {sorted(set(short))}", {"source": src})
                            continue
                    if problems and not (dimmed in ("both", "both2") and False):
                        ctx.violation(f"kinds-declared-twice:{'/'.join(order)}:{'dim-' + dimmed if dimmed else 'implicit'}", f"{src!r} {({k: v for k, v in kw.items() if k != 'compiler_configs'})}: declared twice: {sorted(set(p_[1] for p_ in problems))}", {"source": src})
                    elif uninit:
                        ctx.violation(f"kinds-scalar-not-initialised:{'/'.join(order)}:{'dim-' + dimmed if dimmed else 'implicit'}", f"{src!r} {kw}: scalar {uninit} is not pre-initialised although only the array of that name is declared", {"source": src})
                    elif len(idents) < want:
                        ctx.violation(f"kinds-alias:{'/'.join(order)}", f"{src!r} {kw}: {want} different variables but identifiers {sorted(idents)}", {"template": None, "source": src})
                    elif missing:
                        ctx.violation(f"kinds-array-undeclared:{'/'.join(order)}:{'dim-' + dimmed if dimmed else 'implicit'}", f"{src!r} {kw}: {sorted(set(missing))} subscripted but not declared as an array", {"source": src})
                    else:
                        ctx.stats["identity"] += 1


def unterminated_literal_targets(ctx):
    """an assignment whose string literal lacks the closing quote (legal at the end of a line) goes to the same variable
    as the terminated spelling - scalar and array element of one name stay apart there too"""
    for name in ("Q", "NA", "NAME"):
        for let in ("", "LET "):
            for tgt, kind in ((f"{name}$", "scalar"), (f"{name}$ ( 3 )", "element"), (f"{name}$ ( 1 , 2 )", "element-2d")):
                closed = classify(f'10 {let}{tgt} = "HELLO"\n')
                opened = classify(f'10 {let}{tgt} = "HELLO\n')
                ctx.stats["programs"] += 2
                ctx.stats["obligations"] += 1
                if closed[0] == "ok" and opened == closed:
                    ctx.stats["identity"] += 1
                else:
                    ctx.violation(f"unterminated-literal-target:{kind}", f'`10 {let}{tgt} = "HELLO` -> {str(opened)[:90]}; with the closing quote {str(closed)[:90]}', {"source": f'10 {let}{tgt} = "HELLO', "names": [name, name], "kind": "strarr" if kind != "scalar" else "str"})


def generated_not_initialised(ctx, gen_out, G):
    """with initialize_vars the prologue assigns user variables only: an identifier the tool generates must not be
    treated as a user variable by the initialiser"""
    ctx.stats["obligations"] += 1
    bad = []
    for line in gen_out.split("\n"):
        if re.match(r"\s*\d+\s", line):
            break
        for m in re.finditer(r"(^|\\ )\s*([A-Za-z_][A-Za-z_0-9]*\$?) := (0\.0|\"\")(?=\s|$)", line):
            name = m.group(2)
            if name.upper().rstrip("$") not in ("QQ",) and name in G:
                bad.append(name)
    if bad:
        ctx.violation("generated-identifier-initialised:" + ",".join(sorted(set(bad))), f"the variable initialiser assigns generated identifiers {sorted(set(bad))} as if they were user variables", {"source": "generated_identifiers() program"})
    else:
        ctx.stats["identity"] += 1


def run(tier):
    ctx = Ctx("C09", tier, "other", technique="regex->z3 (real var/str_var regexes) + real name visitors on z3 string proxies")
    from coco.b09.grammar import grammar

    maxlen = 4 if tier == "quick" else 8
    ctx.bounds.update({"max_name_length": maxlen, "kinds": list(KINDS), "positions": len(POSITIONS)})
    stats = smt.reset_stats()
    var_pat = grammar["var"].re.pattern
    str_pat = grammar["str_var"].re.pattern
    ctx.encode("grammar.var regex", var_pat)
    ctx.encode("grammar.str_var regex", str_pat)
    for rel in ("coco/b09/parser.py", "coco/b09/elements.py"):
        ctx.encode(rel + " (visit_var, visit_str_var, visit_*array_ref_exp, BasicArrayRef, BasicVar executed on proxies)", repo_source(rel))
    L_var = rxsmt.lang(var_pat)
    L_str = rxsmt.lang(str_pat)
    dollar = z3.StringVal("$")

    def name_ok(n, kind):
        base = [z3.Length(n) >= 1, z3.Length(n) <= maxlen]
        if kind in ("num", "numarr"):
            return base + [z3.InRe(n, L_var)]
        return base + [z3.InRe(z3.Concat(n, dollar), L_str)]

    n1, n2 = z3.String("n1"), z3.String("n2")
    ids = {}
    table = None
    try:
        for k in KINDS:
            for nm, n in (("n1", n1), ("n2", n2)):
                paths = real_identifier(k, n)
                ctx.stats["states"] += len(paths)
                ids[(k, nm)] = ite_of_paths(paths)
    except NotSymbolic as e:
        # the visitors use an operation the string proxy does not support (e.g. a compiled regex): tabulate them
        table = [t for t in table_names(3) if grammar["var"].re.fullmatch(t)]
        ctx.bounds["identifier_function"] = f"TABULATED over {len(table)} names (alphabet {TABLE_ALPHABET}, length <= 3): symbolic run impossible ({e})"
        ctx.notes.append("name visitors could not be executed on a symbolic string; queries range over the tabulated names only")
        for k in KINDS:
            for nm, n in (("n1", n1), ("n2", n2)):
                ids[(k, nm)] = tabulated_identifier(k, n, table)
                ctx.stats["states"] += len(table)
    _name_ok = name_ok

    def name_ok(n, kind):  # noqa: F811
        base = _name_ok(n, kind)
        if table is not None:
            base = base + [z3.Or(*[n == z3.StringVal(t) for t in table])]
        return base
    pre2 = lambda n: z3.SubString(n, 0, 2)  # noqa: E731  Color BASIC: the first two characters are significant

    def carrier(kind, name):
        return {"num": f"{name}", "str": f"{name}$", "numarr": f"{name}(1)", "strarr": f"{name}$(1)"}[kind]

    def emitted_id(kind, name):
        lhs = carrier(kind, name)
        rhs = '"X"' if kind in ("str", "strarr") else "1"
        out = convert_plain(f"10 {lhs}={rhs}\n")
        m = re.search(r"^10 (\S+?)(\(.*\))? := ", out, re.M)
        if not m:
            raise HarnessError(f"replay carrier did not produce an assignment: {out!r}")
        return m.group(1)

    # Q1: same Color BASIC variable, different identifiers
    for k in KINDS:
        ctx.stats["obligations"] += 1
        v, m = smt.check(name_ok(n1, k) + name_ok(n2, k) + [pre2(n1) == pre2(n2), ids[(k, "n1")] != ids[(k, "n2")]], 20000, True)
        ctx.stats[v] += 1
        ctx.sample({"query": "Q1 same variable -> same identifier", "kind": k, "verdict": v})
        if v == "sat":
            a, b = rxsmt.z3str(m.eval(n1, True).as_string()), rxsmt.z3str(m.eval(n2, True).as_string())
            ia, ib = emitted_id(k, a), emitted_id(k, b)
            ctx.stats["traces_validated_against_impl"] += 1
            if ia.upper() != ib.upper():
                ctx.violation(f"same-variable-split:{k}", f"{carrier(k, a)} -> {ia} but {carrier(k, b)} -> {ib}", {"kind": k, "names": [a, b], "how": "convert('10 <name>=1') for both names; identifiers differ"})
            else:
                raise HarnessError(f"Q1 model {a},{b} did not replay ({ia},{ib})")
        elif v == "unknown":
            ctx.note_inconclusive(f"Q1 {k}")
    # Q2: different variables (or kinds), same identifier
    for k1, k2 in itertools.combinations_with_replacement(KINDS, 2):
        ctx.stats["obligations"] += 1
        diff = pre2(n1) != pre2(n2) if k1 == k2 else z3.BoolVal(True)
        v, m = smt.check(name_ok(n1, k1) + name_ok(n2, k2) + [diff, ids[(k1, "n1")] == ids[(k2, "n2")]], 20000, True)
        ctx.stats[v] += 1
        ctx.sample({"query": "Q2 different variables -> different identifiers", "kinds": [k1, k2], "verdict": v})
        if v == "sat":
            a, b = rxsmt.z3str(m.eval(n1, True).as_string()), rxsmt.z3str(m.eval(n2, True).as_string())
            ia, ib = emitted_id(k1, a), emitted_id(k2, b)
            ctx.stats["traces_validated_against_impl"] += 1
            if ia.upper() == ib.upper():
                ctx.violation(f"alias:{k1}/{k2}", f"{carrier(k1, a)} and {carrier(k2, b)} both become {ia}", {"kinds": [k1, k2], "names": [a, b], "how": "convert('10 <name>=1') for both; same identifier"})
            else:
                raise HarnessError(f"Q2 model {a},{b} did not replay ({ia},{ib})")
        elif v == "unknown":
            ctx.note_inconclusive(f"Q2 {k1}/{k2}")
    # Q3: collision with a generated identifier (BASIC09 compares identifiers case-insensitively)
    gen_out, G = generated_identifiers()
    ctx.extra["generated_identifiers"] = sorted(G)
    gen_re = rxsmt.union(icase_re(g) for g in sorted(G))
    for k in KINDS:
        ctx.stats["obligations"] += 1
        v, m = smt.check(name_ok(n1, k) + [z3.InRe(ids[(k, "n1")], gen_re)], 20000, True)
        ctx.stats[v] += 1
        ctx.sample({"query": "Q3 no collision with generated identifiers", "kind": k, "verdict": v, "generated": len(G)})
        if v == "sat":
            a = rxsmt.z3str(m.eval(n1, True).as_string())
            ia = emitted_id(k, a)
            ctx.stats["traces_validated_against_impl"] += 1
            hit = [g for g in G if re.fullmatch(re.sub(r"\d+", r"\\d+", re.escape(g)), ia, re.I)]
            if hit:
                ctx.violation(f"generated-collision:{k}", f"user variable {carrier(k, a)} becomes {ia}, which the tool also generates ({hit[0]})", {"kind": k, "name": a, "generated": hit[0]})
            else:
                raise HarnessError(f"Q3 model {a} did not replay ({ia})")
        elif v == "unknown":
            ctx.note_inconclusive(f"Q3 {k}")
    # vacuity twins: the name languages are inhabited and the identifier terms are defined
    for k in KINDS:
        v, _ = smt.check(name_ok(n1, k) + [z3.Length(ids[(k, "n1")]) >= 1], 20000)
        if v != "sat":
            raise HarnessError(f"vacuity twin failed for kind {k}: {v}")
    # position part: a long name and its two-character prefix are interchangeable in every position (real convert)
    for tpl in POSITIONS:
        outs = []
        for nm in ("XY", "XYZW", "XY9"):
            outs.append(classify(tpl.format(v=nm, s=nm + "$") + "\n"))
        ctx.stats["programs"] += 3
        ctx.stats["obligations"] += 1
        if outs[0] == outs[1] == outs[2]:
            ctx.stats["identity"] += 1
        else:
            ctx.violation("position:" + tpl, f"names XY / XYZW / XY9 give different results in `{tpl}`", {"template": tpl, "outputs": [str(o)[:300] for o in outs]})
    # loop positions: every FOR variable is named by exactly one FOR and one NEXT of the output - also where the source
    # closes the loop with a bare NEXT or inside a NEXT list (the tool writes the name it thinks is open there)
    loops = ["10 FOR {v}=1 TO 2:NEXT", "10 FOR {v}=1 TO 2:FOR I=1 TO 2:NEXT I:NEXT", "10 FOR {v}=1 TO 2:FOR I=1 TO 2:NEXT:NEXT {v}",
             "10 FOR {v}=1 TO 2:FOR I=1 TO 2:FOR J=1 TO 2:NEXT J,I:NEXT", "10 FOR K=1 TO 2:FOR {v}=1 TO 2:FOR J=1 TO 2:NEXT J,{v}:NEXT",
             "10 FOR K=1 TO 2:FOR I=1 TO 2:FOR {v}=1 TO 2:NEXT:NEXT I,K", "10 FOR K=1 TO 2:FOR I=1 TO 2:FOR {v}=1 TO 2:NEXT {v},I,K",
             "10 FOR G=1 TO 2:FOR {v}=1 TO 2:FOR I=1 TO 2:FOR J=1 TO 2:NEXT J,I:NEXT:NEXT", "10 FOR {v}=1 TO 2\n20 FOR I=1 TO 2:NEXT I\n30 NEXT",
             "10 FOR {v}=1 TO 2:FOR I=1 TO 2:NEXT I,{v}:FOR {v}=3 TO 4:NEXT"]
    for tpl in loops:
        for nm in ("XY", "XYZW"):
            o = classify(tpl.format(v=nm) + "\n")
            ctx.stats["programs"] += 1
            ctx.stats["obligations"] += 1
            if o[0] != "ok":
                ctx.stats["identity"] += 1
                continue
            fors = re.findall(r"\bFOR (\w+)", o[1])
            nexts = re.findall(r"\bNEXT (\w+)", o[1])
            if sorted(fors) == sorted(nexts) and fors.count("XY") == tpl.count("FOR {v}"):
                ctx.stats["identity"] += 1
            else:
                ctx.violation("position:loop-variable:" + tpl.replace("\n", " / "), f"`{tpl.format(v=nm)}`: FOR names {fors}, NEXT names {nexts} - every loop variable must be named by one FOR and one NEXT", {"template": tpl, "loop": True, "outputs": [o[1][:300]]})
                break
    name_language(ctx, var_pat, str_pat, maxlen)
    embedded_keywords(ctx)
    same_name_kinds(ctx)
    reserved_word_positions(ctx)
    unterminated_literal_targets(ctx)
    generated_not_initialised(ctx, gen_out, G)
    ctx.add_solver_stats(stats.export())
    ctx.extra["solver"] = {"z3": smt.z3_version()}
    ctx.explanation = (
        "Queries Q1-Q3 are decided by z3 over string variables ranging over the languages of the real var/str_var regexes "
        f"(length <= {maxlen}); the identifier is the term built by the real visitor code on a symbolic string. unsat = no pair of "
        "names within the bound breaks the mapping. The position sweep is concrete (3 names x grammar positions) and only shows that "
        "every position goes through those visitors."
    )
    ctx.assume("BASIC09 compares identifiers case-insensitively; Color BASIC distinguishes variables by first two characters, type suffix and scalar/array kind")
    ctx.assume("\\w and character classes read as ASCII")
    return ctx


def replay(rec):
    if "names" in rec:
        kinds = rec.get("kinds") or [rec["kind"], rec["kind"]]
        outs = []
        for k, n in zip(kinds, rec["names"]):
            lhs = {"num": n, "str": n + "$", "numarr": n + "(1)", "strarr": n + "$(1)"}[k]
            rhs = '"X"' if k in ("str", "strarr") else "1"
            outs.append(convert_plain(f"10 {lhs}={rhs}\n"))
        print(outs)
        return True
    if "template" in rec and rec.get("loop"):
        o = classify(rec["template"].format(v="XY") + "\n")
        print(o)
        return o[0] == "ok" and sorted(re.findall(r"\bFOR (\w+)", o[1])) != sorted(re.findall(r"\bNEXT (\w+)", o[1]))
    if "template" in rec:
        outs = [classify(rec["template"].format(v=nm, s=nm + "$") + "\n") for nm in ("XY", "XYZW", "XY9")]
        print(outs)
        return not (outs[0] == outs[1] == outs[2])
    return False
