"""C11 - each option changes only the aspect of the output it documents (E3 B09<->B09 + text rules).

For every program of the families and every pair of option sets that differ in exactly one option, the two real
convert() outputs are (1) compared as text modulo exactly the documented difference and (2) for the options whose
effect is behavioural (label filtering, string size, width flag, pre-initialisation) executed on the BASIC09 machine
from the same symbolic state - z3 decides that they behave the same for all inputs.  The command line is run with
convert_file replaced by a recorder for all 2^5 flag combinations and several file-name shapes.
"""
import io
import itertools
import os
import re
import tempfile

from vf import smt
from vf.core import Ctx, HarnessError, pmap, repo_source
from vf.realconv import classify
from vf.tv import equiv, families, lib as tvlib

BASE = dict(add_standard_prefix=True, add_suffix=True, skip_procedure_headers=True, output_dependencies=False,
            filter_unused_linenum=False, initialize_vars=True, default_width32=True, default_str_storage=32, procname="prog")

_LIB = None


def library():
    global _LIB
    if _LIB is None:
        _LIB = tvlib.load_library()
    return _LIB


def programs(tier):
    progs = list(families.statement_coverage())
    progs += [src for name, tag, src in families.device_programs(False) if tag == "vars"]
    progs += [
        '5 INPUT A , B\n10 IF A = 1 THEN 30 ELSE IF B = 2 THEN 40 ELSE 50\n20 PRINT "X"\n30 PRINT "L30"\n40 PRINT "L40" : END\n50 PRINT "L50"',
        '0 PRINT "Z"\n10 GOTO 30\n20 PRINT "SKIP"\n30 GOSUB 50\n40 END\n50 PRINT "S" : RETURN',
        '10 A$ = "AB\x0cCD" : PRINT A$',
        '10 PRINT "RUN ecb_cls" : REM procedure x',
        '10 DIM A ( 3 ) , B$ ( 2 ) , C$ : C$ = "X" : B$ ( 1 ) = C$ + STR$ ( A ( 1 ) )',
        '10 FOR I = 1 TO 3 : Q ( I ) = I : NEXT : PRINT Q ( 2 )',
        '10 ON ERR GOTO 30 : ON BRK GOTO 40\n20 END\n30 PRINT "E" : END\n40 PRINT "B" : END',
        '10 READ A , B$\n20 DATA , X',
        '10 HBUFF 1 , 100 : HGET ( 1 , 2 ) - ( 3 , 4 ) , 1',
        '10 Z = JOYSTK ( 0 ) + BUTTON ( 1 )',
        '10 A$ = INKEY$ : IF A$ = "" THEN 10',
        "10 DATA \"A\x0bB\" , C\x1cD\n20 READ A$ , B$",
        '10 DIM A$ : A$ = "X" : PRINT A$',
        '10 DIM N$ , M$ ( 3 ) : N$ = "A" : M$ ( 1 ) = N$ : B$ = N$ + M$ ( 1 )',
        '10 REM run ecb_hdraw to draw the logo\n20 PRINT 1',
        "10 ' run ecb_play : RUN ecb_cls\n20 GOTO 20",
        '10 N$ ( 2 ) = "BOB" : PRINT N$ ( 2 ) ; Q ( 1 )',
        '10 PRINT "A"\n20 GOTO 10\n40000 PRINT "B"',
        '10 PRINT "A"\n32700 PRINT "B"',
        '10 GOTO 32699\n32699 PRINT "B"',
        '10 DIM A$ ( 5 ) , B$ , C$ , N$ ( 2 ) : C$ = B$ : A$ ( 1 ) = C$ : N$ ( 1 ) = "X" : D$ = C$',
    ]
    return progs


def jump_targets(text):
    """line numbers the emitted text jumps to (GOTO / GOSUB / THEN n / ELSE n / ON .. lists), outside strings and comments"""
    out = set()
    for ln in text.split("\n"):
        code = re.sub(r'"[^"]*"', '""', ln)
        code = re.sub(r"\(\*.*", "", code)
        for m in re.finditer(r"(?i)\b(?:GOTO|GOSUB)\s+(\d+(?:\s*,\s*\d+)*)", code):
            out.update(int(x) for x in re.findall(r"\d+", m.group(1)))
        for m in re.finditer(r"(?i)\b(?:THEN|ELSE)\s+(\d+)\b", code):
            out.add(int(m.group(1)))
    return out


def labels_of(text):
    return [int(m.group(1)) for m in (re.match(r"\s*(\d+)(\s|$)", ln) for ln in text.split("\n")) if m]


def history(ctx):
    """the text an option adds must not depend on what this process converted before: convert P after programs that
    need other runtime procedures / other declarations, compare with P converted in a fresh process"""
    import json
    import subprocess
    import sys

    from vf.core import REPO

    befores = ['10 CLS : PLAY "A" : SOUND 1 , 2 : HBUFF 1 , 100\n', '10 DIM N$ , M$ ( 3 ) : N$ = "A"\n', '10 HSCREEN 2 : HCIRCLE ( 1 , 2 ) , 3 : Z = JOYSTK ( 0 )\n']
    targets = ['10 A = 1\n', '10 N$ = "B" : PRINT N$\n', '10 HBUFF 1 , 100\n', '10 PRINT "X"\n']
    optsets = [dict(output_dependencies=True, procname="prog"), dict(output_dependencies=True), dict(default_str_storage=40, initialize_vars=True), dict()]
    from coco.b09 import compiler

    for t in targets:
        for opts in optsets:
            code = "import sys, json; sys.path.insert(0, %r); from coco.b09 import compiler; print(json.dumps(compiler.convert(%r, **%r)))" % (REPO, t, opts)
            r = subprocess.run([sys.executable, "-c", code], env=dict(os.environ, PYTHONHASHSEED="0"), capture_output=True, text=True, timeout=120)
            if r.returncode != 0:
                continue
            fresh = json.loads(r.stdout)
            for b in befores:
                for bo in optsets:
                    try:
                        compiler.convert(b, **bo)
                    except Exception:  # noqa: BLE001
                        pass
            ctx.stats["programs"] += 1
            ctx.stats["obligations"] += 1
            try:
                got = compiler.convert(t, **opts)
            except Exception as e:  # noqa: BLE001
                got = f"<{type(e).__name__}>"
            again = compiler.convert(t, **opts) if not got.startswith("<") else got
            if got == fresh and again == fresh:
                ctx.stats["identity"] += 1
            else:
                extra = sorted(set(re.findall(r"(?im)^procedure\s+(\S+)", got)) - set(re.findall(r"(?im)^procedure\s+(\S+)", fresh)))
                kind = "bundle-grows" if extra else "text"
                ctx.violation(f"history:{kind}:{sorted(opts)[:2]}", f"{t!r} {opts}: output after other conversions differs from a fresh process" + (f" (extra procedures {extra[:6]})" if extra else ""), {"source": t, "options": opts})


def strip_labels(text):
    return "\n".join(re.sub(r"^(\s*)\d+(\s|$)", r"\1", ln) for ln in text.split("\n"))


INIT_LINE = re.compile(r"^(\w+\$? := (0\.0|\"\")( \\ \w+\$? := (0\.0|\"\"))*)$")
FILL_LINE = re.compile(r"^(FOR tmp_\d+ = 0 TO \S+ \\ )+arr_\w+\$?\(tmp_\d+(, tmp_\d+)*\) := (0|\"\")( \\ NEXT tmp_\d+)+$|^\w+\$? := (0|\"\")$")


def no_blank(text):
    return "\n".join(ln for ln in text.split("\n") if ln.strip() != "")


def without_init(text):
    out = []
    for ln in text.split("\n"):
        if INIT_LINE.match(ln.strip()) and not re.match(r"\s*\d+\s", ln):
            continue
        if FILL_LINE.match(ln.strip()):
            continue
        out.append(ln)
    return "\n".join(out)


def norm_sizes(text):
    t = re.sub(r":\s*STRING\[\d+\]", "", text)
    t = "\n".join(ln for ln in t.split("\n") if not re.match(r"^DIM \w+\$$", ln.strip()))
    return t


def duplicate_decls(text):
    """identifiers declared more than once (reference BASIC09 loader)"""
    from vf.props.c10 import collect_decls
    from vf.tv import b09front
    from vf.tv.lex import SyntaxErr

    try:
        stmts = b09front.parse_program(text)
    except SyntaxErr:
        return set()
    decls, problems = {}, []
    collect_decls(stmts, decls, [0], problems)
    return {key for kind, key in problems}


def file_path(ctx):
    """convert_file writes exactly convert(...) with LF -> CR, whatever the content of literals, comments and DATA items"""
    import io

    from coco.b09 import compiler

    ctx.encode("compiler.convert_file (executed on in-memory files)", repo_source("coco/b09/compiler.py"))
    specials = ["\x0c", "\x0b", "\x1c", "\x1d", "\x1e", "\x85", "\u2028", "\u2029", "\t", "\x7f"]
    progs = ['10 PRINT "HI"\n20 GOTO 10\n', "10 REM X\n", "10 CLS : SOUND 1 , 2\n"]
    for ch in specials:
        progs += [f'10 PRINT "PAGE{ch}TWO"\n20 A = 1\n', f"10 REM A{ch}B\n20 A = 1\n", f"10 DATA X{ch}Y , 2\n20 READ A$ , B\n", f'10 A$ = HEX$ ( 1 ) + "P{ch}Q"\n']
    for src in progs:
        for kw in (dict(), dict(output_dependencies=True, procname="prog"), dict(initialize_vars=True, filter_unused_linenum=True, default_str_storage=40)):
            ctx.stats["programs"] += 1
            ctx.stats["obligations"] += 1
            try:
                want = compiler.convert(src, **kw).replace("\n", "\r")
            except Exception:  # noqa: BLE001 - refusals are C15's subject
                ctx.stats["identity"] += 1
                continue
            out = io.StringIO()
            try:
                compiler.convert_file(io.StringIO(src), out, **kw)
                got = out.getvalue()
            except Exception as e:  # noqa: BLE001
                got = f"<{type(e).__name__}>"
            if got == want:
                ctx.stats["identity"] += 1
            else:
                cls = "control-char-in-content" if any(c in src for c in specials) else "plain"
                i = next((k for k, (x, y) in enumerate(zip(got, want)) if x != y), min(len(got), len(want)))
                ctx.violation(f"convert_file:differs-from-convert:{cls}:{sorted(kw)[:1]}", f"{src!r} {kw}: file text differs from convert() with CR line ends at offset {i}: {got[max(0, i - 10):i + 10]!r} vs {want[max(0, i - 10):i + 10]!r}", {"source": src, "options": kw})


def check_one(src):
    st = smt.Stats()
    smt.STATS = st  # path-feasibility queries of the machines are charged to this job too
    out = {"src": src, "sigs": [], "pairs": 0, "stats": None}

    def conv(**kw):
        o = dict(BASE)
        o.update(kw)
        return classify(src + "\n", plain=False, **o)

    base = conv()
    if base[0] != "ok":
        out["status"] = base[0]
        # no option turns a refused program into an accepted one (or the other way round)
        for name, kw in (("filter", dict(filter_unused_linenum=True)), ("init", dict(initialize_vars=False)), ("width", dict(default_width32=False)),
                         ("deps", dict(output_dependencies=True, skip_procedure_headers=False)), ("strsize", dict(default_str_storage=40)), ("suffix", dict(add_suffix=False))):
            o = conv(**kw)
            out["pairs"] += 1
            if o[0] != base[0] or (o[0] != "ok" and o[1] != base[1]):
                out["sigs"].append((f"{name}:status:refused-program-accepted" if o[0] == "ok" else f"{name}:status:other-refusal", f"base options: {base}; with {kw}: {str(o)[:80]}"))
        out["stats"] = st.export()
        return out
    out["status"] = "ok"
    B = base[1]

    def sig(name, detail):
        out["sigs"].append((name, detail))

    def semantic(a, b, what, init_mode="symbolic"):
        res = equiv.compare_b09(a, b, library=library(), init_mode=init_mode, stats=st, step_bound=120)
        if res.status == "syntax":
            return
        for f in res.findings:
            if f.kind in ("arity", "type-class", "missing-argument", "duplicate-decl", "uninitialised-read", "tmp-read-before-write", "unknown", "b09-bound", "path-explosion"):
                continue
            sig(f"{what}:behaviour:{f.kind}", f"{f.kind}: {f.detail}")

    # 1. label filtering: only labels disappear
    o = conv(filter_unused_linenum=True)
    out["pairs"] += 1
    if o[0] != "ok":
        sig("filter:status", f"filter on: {o}")
    else:
        if strip_labels(o[1]) != strip_labels(B):
            sig("filter:text", "statements differ beyond labels")
        dangling = sorted(jump_targets(o[1]) - set(labels_of(o[1])))
        if dangling and not (jump_targets(B) - set(labels_of(B))):
            sig("filter:dangling-jump", f"with filtering on the output jumps to {dangling}, which are no longer labels")
        lab_b, lab_o = set(labels_of(B)), set(labels_of(o[1]))
        if lab_o - lab_b:
            sig("filter:label-appears", f"with filtering on the output has labels {sorted(lab_o - lab_b)} that the unfiltered output lacks")
        semantic(B, o[1], "filter")
    # 2. pre-initialisation off: only prologue assignments and fill loops disappear
    o = conv(initialize_vars=False)
    out["pairs"] += 1
    if o[0] != "ok":
        sig("init:status", f"initialize_vars off: {o}")
    elif no_blank(without_init(B)) != no_blank(o[1]):
        a, b = no_blank(without_init(B)).split("\n"), no_blank(o[1]).split("\n")
        d = [(x, y) for x, y in itertools.zip_longest(a, b) if x != y][:1]
        sig("init:text", f"outputs differ beyond prologue assignments / fill loops: {d}")
    # 3. width flag: only the start-up call's flag
    o = conv(default_width32=False)
    out["pairs"] += 1
    if o[0] != "ok":
        sig("width:status", str(o))
    elif o[1] != B.replace("RUN _ecb_start(display, 1)", "RUN _ecb_start(display, 0)") or "RUN _ecb_start(display, 1)" not in B:
        sig("width:text", "outputs differ beyond the _ecb_start flag")
    # 4. dependencies: only the header and the bundled procedures are added
    o = conv(output_dependencies=True, skip_procedure_headers=False)
    out["pairs"] += 1
    if o[0] != "ok":
        sig("deps:status", str(o))
    else:
        marker = "procedure prog\n"
        i = o[1].rfind(marker)
        if i < 0:
            sig("deps:no-header", "no `procedure prog` header")
        elif o[1][i + len(marker):].rstrip() != B.rstrip():
            a, b = o[1][i + len(marker):].split("\n"), B.split("\n")
            d = [(x, y) for x, y in itertools.zip_longest(a, b) if x != y][:1]
            sig("deps:text", f"program part differs from the output without dependencies: {d}")
    # 5. string size: only declared sizes
    o = conv(default_str_storage=40)
    out["pairs"] += 1
    if o[0] != "ok":
        sig("strsize:status", str(o))
    else:
        if norm_sizes(o[1]) != norm_sizes(B):
            sig("strsize:text", "outputs differ beyond STRING[n] sizes")
        semantic(B, o[1], "strsize")
        dup_b, dup_o = duplicate_decls(B), duplicate_decls(o[1])
        if dup_o - dup_b:
            sig("strsize:duplicate-decl", f"with default_str_storage=40 these identifiers are declared twice: {sorted(dup_o - dup_b)}")
    # 5a. the size value only appears as the number in STRING[n]: every other size gives the size-40 text with that number
    if o[0] == "ok":
        for n in (1, 16, 31, 33, 255, 32766):
            on = conv(default_str_storage=n)
            out["pairs"] += 1
            if on[0] != "ok":
                sig(f"strsize:status:size-{'below' if n < 32 else 'above'}-32", f"default_str_storage={n}: {on}")
            elif on[1].replace(f"STRING[{n}]", "STRING[40]") != o[1]:
                a, b = on[1].replace(f"STRING[{n}]", "STRING[40]").split("\n"), o[1].split("\n")
                d = [(x, y) for x, y in itertools.zip_longest(a, b) if x != y][:1]
                sig(f"strsize:value-matters:size-{'below' if n < 32 else 'above'}-32", f"default_str_storage={n} is not the size-40 output with the number replaced: {d}")
                break
    # 5c. names with a configured size keep it whatever -s says (whether it is above or below the default in force)
    if re.search(r"\bDIM\b", src):
        from coco.b09.configs import CompilerConfigs, StringConfigs

        def cfg():
            return CompilerConfigs(string_configs=StringConfigs(strname_to_size={"A$()": 16, "B$": 45, "N$()": 100, "M$()": 33, "G$": 7}))

        o64, o80 = conv(default_str_storage=64, compiler_configs=cfg()), conv(default_str_storage=80, compiler_configs=cfg())
        obase = conv(compiler_configs=cfg())
        out["pairs"] += 3
        if o64[0] == "ok" and o80[0] == "ok" and obase[0] == "ok":
            if o64[1].replace("STRING[64]", "STRING[80]") != o80[1]:
                a, b = o64[1].replace("STRING[64]", "STRING[80]").split("\n"), o80[1].split("\n")
                d = [(x, y) for x, y in itertools.zip_longest(a, b) if x != y][:1]
                sig("strsize:configured-size-changes", f"with sizes configured for A$() B$ N$() M$() G$, -s 64 and -s 80 differ beyond the default-sized strings: {d}")
            for n in (16, 45, 100, 33, 7):
                if not (o64[1].count(f"STRING[{n}]") == o80[1].count(f"STRING[{n}]") == obase[1].count(f"STRING[{n}]")):
                    sig("strsize:configured-size-lost", f"declarations with the configured size {n}: {obase[1].count(f'STRING[{n}]')} without -s, {o64[1].count(f'STRING[{n}]')} with -s 64, {o80[1].count(f'STRING[{n}]')} with -s 80")
                    break
    # 5d. under -s 40 no string declaration is left at BASIC09's 32 bytes: every DIM that declares a string carries STRING[n]
    if o[0] == "ok":
        for ln in o[1].split("\n"):
            code = re.sub(r'"[^"]*"', '""', re.sub(r"\(\*.*", "", ln))
            m5 = re.match(r"\s*(?:\d+\s+)?DIM\s+([^:]*[A-Za-z_]\w*\$[^:]*)(:.*)?$", code)
            if m5 and not re.search(r"STRING\[\d+\]", m5.group(2) or ""):
                sig("strsize:declaration-left-at-32", f"with default_str_storage=40 the declaration `{code.strip()}` carries no size")
                break
    # 5e. label filtering with dependencies on: the bundle differs in labels only
    od, odl = conv(output_dependencies=True, skip_procedure_headers=False), conv(output_dependencies=True, skip_procedure_headers=False, filter_unused_linenum=True)
    out["pairs"] += 2
    nolab = lambda t: "\n".join(x for x in (re.sub(r"^(\s*)\d+(\s+|$)", r"\1", ln).strip() for ln in t.split("\n")) if x)  # noqa: E731  (the bank drops empty lines; block indentation follows the label)
    if od[0] == "ok" and odl[0] == "ok" and nolab(od[1]) != nolab(odl[1]):
        pa, pb = set(re.findall(r"(?im)^procedure\s+(\S+)", od[1])), set(re.findall(r"(?im)^procedure\s+(\S+)", odl[1]))
        sig("filter:bundle-differs" + (":procedures" if pa != pb else ":text"), f"with dependencies on, filtering changes more than labels (procedures only without filter: {sorted(pa - pb)[:3]}, only with: {sorted(pb - pa)[:3]})")
    # 5b. each option does the same thing whatever the other options are: the three text rules again from bases in which
    # one OTHER option is already changed (size 40 / pre-initialisation off / filtering on)
    b40, bz, bl = conv(default_str_storage=40), conv(initialize_vars=False), conv(filter_unused_linenum=True)
    o = conv(default_str_storage=40, initialize_vars=False)
    out["pairs"] += 1
    if o[0] == "ok" and b40[0] == "ok" and bz[0] == "ok":
        if no_blank(without_init(b40[1])) != no_blank(o[1]):
            a, b = no_blank(without_init(b40[1])).split("\n"), no_blank(o[1]).split("\n")
            d = [(x, y) for x, y in itertools.zip_longest(a, b) if x != y][:1]
            sig("init:text:with-string-size-40", f"with default_str_storage=40, turning pre-initialisation off changes more than prologue assignments / fill loops: {d}")
        if norm_sizes(o[1]) != norm_sizes(bz[1]):
            sig("strsize:text:without-pre-initialisation", "with pre-initialisation off, the string size changes more than STRING[n] sizes")
        if len(re.findall(r"STRING\[40\]", o[1])) != len(re.findall(r"STRING\[40\]", b40[1])):
            sig("strsize:declarations:without-pre-initialisation", f"{len(re.findall(r'STRING.40.', b40[1]))} STRING[40] declarations with pre-initialisation, {len(re.findall(r'STRING.40.', o[1]))} without")
    elif o[0] != "ok":
        sig("init+strsize:status", str(o))
    o = conv(filter_unused_linenum=True, default_str_storage=40)
    out["pairs"] += 1
    if o[0] == "ok" and b40[0] == "ok" and bl[0] == "ok":
        if strip_labels(o[1]) != strip_labels(b40[1]):
            sig("filter:text:with-string-size-40", "with default_str_storage=40, filtering changes statements beyond labels")
        if norm_sizes(o[1]) != norm_sizes(bl[1]):
            sig("strsize:text:with-filtering", "with filtering on, the string size changes more than STRING[n] sizes")
    o = conv(filter_unused_linenum=True, initialize_vars=False)
    out["pairs"] += 1
    if o[0] == "ok" and bz[0] == "ok" and bl[0] == "ok":
        if strip_labels(o[1]) != strip_labels(bz[1]):
            sig("filter:text:without-pre-initialisation", "with pre-initialisation off, filtering changes statements beyond labels")
        if no_blank(without_init(bl[1])) != no_blank(o[1]):
            sig("init:text:with-filtering", "with filtering on, turning pre-initialisation off changes more than prologue assignments / fill loops")
    # 6. options that must not interact: suffix and prefix
    o = conv(add_suffix=False)
    out["pairs"] += 1
    if o[0] == "ok" and not B.startswith(o[1].rstrip("\n")):
        sig("suffix:text", "output without suffix is not a prefix of the output with it")
    out["stats"] = st.export()
    return out


def cli(ctx):
    from coco import decb_to_b09
    from coco.b09 import compiler

    ctx.encode("decb_to_b09.start", repo_source("coco/decb_to_b09.py"))
    ctx.encode("compiler.convert_file", repo_source("coco/b09/compiler.py"))
    calls = []

    def recorder(inp, outp, **kw):
        calls.append(kw)

    flags = {"-l": ("filter_unused_linenum", True, False), "-z": ("initialize_vars", False, True), "-D": ("output_dependencies", False, True),
             "-w": ("default_width32", False, True)}
    tmp = tempfile.mkdtemp(prefix="c11cli")
    try:
        stems = ["game.bas", "game", "x", "a.b.bas", "LANDER2", "my_prog.txt", "UPPER.BAS"]
        for stem in stems:
            with open(os.path.join(tmp, stem), "w") as f:
                f.write("10 PRINT 1\n")
        old = decb_to_b09.convert_file
        decb_to_b09.convert_file = recorder
        try:
            for combo in itertools.product((False, True), repeat=4):
                for size in (None, 64):
                    argv = [os.path.join(tmp, "game.bas"), os.path.join(tmp, "out.b09")]
                    for (flag, _), on in zip(flags.items(), combo):
                        if on:
                            argv.append(flag)
                    if size:
                        argv += ["-s", str(size)]
                    calls.clear()
                    decb_to_b09.start(argv)
                    ctx.stats["programs"] += 1
                    ctx.stats["obligations"] += 1
                    kw = calls[0]
                    ok = True
                    for (flag, (opt, von, voff)), on in zip(flags.items(), combo):
                        if kw.get(opt) != (von if on else voff):
                            ok = False
                            ctx.violation(f"cli-flag:{flag}", f"argv {argv[2:]} -> {opt}={kw.get(opt)!r}", {"argv": argv[2:]})
                    if kw.get("default_str_storage") != (size or 32):
                        ok = False
                        ctx.violation("cli-flag:-s", f"argv {argv[2:]} -> default_str_storage={kw.get('default_str_storage')!r}", {"argv": argv[2:]})
                    if kw.get("procname") != "game":
                        ok = False
                        ctx.violation("cli-procname:game.bas", f"procname {kw.get('procname')!r}", {"argv": argv[2:]})
                    if ok:
                        ctx.stats["identity"] += 1
            for stem in stems:
                calls.clear()
                decb_to_b09.start([os.path.join(tmp, stem), os.path.join(tmp, "out.b09")])
                want = os.path.splitext(stem)[0] if "." in stem else stem
                if stem == "a.b.bas":
                    want = "a.b"
                ctx.stats["obligations"] += 1
                if calls[0].get("procname") != want:
                    shape = "no-extension" if "." not in stem else "dotted" if stem.count(".") > 1 else "plain"
                    ctx.violation(f"cli-procname:{shape}", f"file {stem!r} -> procname {calls[0].get('procname')!r}, expected {want!r}", {"file": stem})
                else:
                    ctx.stats["identity"] += 1
        finally:
            decb_to_b09.convert_file = old
        # end to end: procedure header named after the file, OS-9 line ends
        for stem in ("game.bas", "game"):
            outp = os.path.join(tmp, "e2e.b09")
            decb_to_b09.start([os.path.join(tmp, stem), outp])
            with open(outp, newline="") as f:
                text = f.read()
            ctx.stats["obligations"] += 2
            if "\n" in text or "\r" not in text:
                ctx.violation("cli-line-ends", "output file does not use CR line ends only", {"file": stem})
            else:
                ctx.stats["identity"] += 1
            if "procedure game\r" not in text:
                ctx.violation(f"cli-header:{stem}", "no `procedure game` header in the output file", {"file": stem, "head": text[-200:]})
            else:
                ctx.stats["identity"] += 1
    finally:
        import shutil

        shutil.rmtree(tmp, ignore_errors=True)


def cli_size_symbolic(ctx):
    """the -s value reaches convert_file unchanged, for EVERY size: start() is run with the parsed value replaced by a
    z3-backed integer (argparse's own str -> int step is not modelled) and a recorder in place of convert_file; z3 decides
    recorded value = given value over 1..32767; a model is replayed through the real argv"""
    import argparse

    import z3

    from coco import decb_to_b09

    from vf import symproxy

    n = z3.Int("size")
    tmp = tempfile.mkdtemp(prefix="c11sz")
    try:
        inp = os.path.join(tmp, "game.bas")
        with open(inp, "w") as f:
            f.write("10 PRINT 1\n")
        got = []

        def recorder(i, o, **kw):
            got.append(kw.get("default_str_storage"))

        real_parse = argparse.ArgumentParser.parse_args

        def parse(self, argv=None, namespace=None):
            ns = real_parse(self, argv, namespace)
            if hasattr(ns, "default_string_storage"):
                ns.default_string_storage = symproxy.SInt(n)
            return ns

        def fn():
            got.clear()
            decb_to_b09.start([inp, os.path.join(tmp, "o.b09"), "-s", "77"])
            return got[0] if got else None

        old = decb_to_b09.convert_file
        decb_to_b09.convert_file = recorder
        argparse.ArgumentParser.parse_args = parse
        try:
            paths = symproxy.explore(fn, premises=[n >= 1, n <= 32767])
        finally:
            decb_to_b09.convert_file = old
            argparse.ArgumentParser.parse_args = real_parse
        ctx.stats["states"] += len(paths)
        for pc, (stt, val), holes in paths:
            ctx.stats["obligations"] += 1
            if stt != "ok":
                ctx.harness_gap(f"start() with a symbolic -s value: {stt} {str(val)[:80]}")
                continue
            term = val.t if isinstance(val, symproxy.SInt) else (z3.IntVal(val) if isinstance(val, int) else None)
            if term is None:
                ctx.harness_gap(f"start() handed convert_file a {type(val).__name__} for default_str_storage")
                continue
            v, m = smt.check(list(pc) + [term != n], 10000, True)
            ctx.stats[v] += 1
            ctx.sample({"obligation": "-s N reaches convert_file as N, for every N in 1..32767", "path": [str(c) for c in pc][2:], "verdict": v})
            if v == "sat":
                size = m.eval(n, True).as_long()
                rec = []
                decb_to_b09.convert_file = lambda i, o, **kw: rec.append(kw.get("default_str_storage"))
                try:
                    decb_to_b09.start([inp, os.path.join(tmp, "o.b09"), "-s", str(size)])
                finally:
                    decb_to_b09.convert_file = old
                ctx.stats["traces_validated_against_impl"] += 1
                if rec and rec[0] != size:
                    ctx.violation("cli-flag:-s:value-changed", f"-s {size} reaches convert_file as default_str_storage={rec[0]}", {"argv": ["-s", str(size)]})
                else:
                    raise HarnessError(f"-s model {size} did not replay: {rec}")
            elif v == "unknown":
                ctx.note_inconclusive("-s value")
    finally:
        import shutil

        shutil.rmtree(tmp, ignore_errors=True)


def procname_lemma(ctx):
    """`names the procedure after the input file`: z3 decides that the tool's procedure-name pattern accepts every stem
    made of letters, digits, `_` and `-` (up to 64 characters; OS-9 itself is not modelled); a model is replayed through
    start() and the header of the written file"""
    import z3

    from coco import decb_to_b09
    from coco.b09 import grammar as G

    from vf import rxsmt

    pat = G.PROCNAME_REGEX.pattern
    ctx.encode("grammar.PROCNAME_REGEX", pat)
    n = z3.String("stem")
    ch = z3.Union(z3.Range("a", "z"), z3.Range("A", "Z"), z3.Range("0", "9"), z3.Re("_"), z3.Re("-"))
    ctx.stats["obligations"] += 1
    v, m = smt.check([z3.InRe(n, z3.Plus(ch)), z3.Length(n) <= 64, z3.Not(z3.InRe(n, rxsmt.lang(pat)))], 30000, True)
    ctx.stats[v] += 1
    ctx.sample({"lemma": "every stem over [A-Za-z0-9_-], 1..64 characters, is a procedure name for the tool", "pattern": pat, "verdict": v})
    if v == "unknown":
        ctx.note_inconclusive("procedure-name lemma")
        return
    if v != "sat":
        return
    stem = rxsmt.z3str(m.eval(n, True).as_string())
    tmp = tempfile.mkdtemp(prefix="c11pn")
    try:
        inp, outp = os.path.join(tmp, stem + ".bas"), os.path.join(tmp, "o.b09")
        with open(inp, "w") as f:
            f.write("10 PRINT 1\n")
        decb_to_b09.start([inp, outp])
        with open(outp, newline="") as f:
            text = f.read()
        ctx.stats["traces_validated_against_impl"] += 1
        if f"procedure {stem}\r" not in text:
            heads = re.findall(r"(?m)procedure (\S+)\r", text)
            ctx.violation(f"cli-procname:legal-stem-not-kept:length-{'over' if len(stem) > 8 else 'up-to'}-8", f"file {stem + '.bas'!r} ({len(stem)} characters): the program's procedure is named {heads[-1] if heads else None!r}", {"file": stem + ".bas"})
        else:
            raise HarnessError(f"procedure-name model {stem!r} did not replay")
    finally:
        import shutil

        shutil.rmtree(tmp, ignore_errors=True)


def run(tier):
    ctx = Ctx("C11", tier, "translation_validation", technique="pairs of real convert() outputs differing in one option: text equality modulo the documented difference + BASIC09<->BASIC09 equivalence decided by z3 over the symbolic machine; CLI flag mapping enumerated with a recording stub")
    smt.reset_stats()
    progs = programs(tier)
    ctx.bounds.update({"programs": len(progs), "option_pairs_per_program": 6, "base_options": BASE})
    for rel in ("coco/b09/compiler.py", "coco/b09/visitors.py", "coco/b09/prog.py", "coco/b09/procbank.py"):
        ctx.encode(rel + " (executed: real convert())", repo_source(rel))
    results = pmap(check_one, progs, chunksize=8)
    for r in results:
        ctx.stats["programs"] += r["pairs"] + 1
        ctx.add_solver_stats(r["stats"])
        if r["sigs"]:
            ctx.stats["disagreements_checked"] += 1
        for name, detail in r["sigs"]:
            short = re.sub(r"\s+", " ", r["src"])[:50]
            ctx.violation(f"{name}:{short}", f"{r['src']!r} -> {detail}", {"source": r["src"], "base_options": BASE})
    for r in results[:: max(1, len(results) // 6)]:
        ctx.sample({"source": r["src"], "status": r.get("status"), "pairs": r["pairs"]})
    cli(ctx)
    cli_size_symbolic(ctx)
    procname_lemma(ctx)
    file_path(ctx)
    history(ctx)
    ctx.add_solver_stats(smt.STATS.export())
    ctx.extra["solver"] = {"z3": smt.z3_version()}
    ctx.explanation = "programs counts converted outputs (base + one per option); the behavioural comparisons are z3-decided leaf-pair obligations"
    ctx.assume("argparse itself and real file/pipe plumbing are not modelled (no symbolic content)")
    return ctx


def replay(rec):
    if "source" in rec:
        r = check_one(rec["source"])
        print(r["sigs"])
        return bool(r["sigs"])
    return True
