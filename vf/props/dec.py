"""C16-C19 share one driver: case specs (vf/decsuite.py) x the obligations of each property."""
import io
import re

import z3

from vf import decoders as D, decsuite as S, pysym, smt
from vf.core import Ctx, HarnessError, pmap, repo_source
from vf.decoders import bv, rgb6, sel
from vf.pysym import Fmt, HarnessGap, Path, term


# ----------------------------------------------------------------------------- case specs
def specs(pid, tier):
    """-> list of (kind, args...) tuples; all picklable"""
    T = tier == "thorough"
    sp = []
    if pid == "C16":
        for w, h in ((2, 1), (4, 1), (4, 2), (6, 1), (8, 2)) + (((10, 2), (16, 1), (8, 3)) if T else ()):
            sp.append(("hrs", w, h, None, 16 + (w // 2) * h))
        sp.append(("hrs", 4, 1, 2, 20))
        sp.append(("hrs", 4, 2, 1, 21))
        for n in (2, 8, 18, 50) + ((72,) if T else ()):  # sides 2, 4, 6, 10 (12): not only powers of two
            sp.append(("pix", n))
        for arte in range(9):
            sp.append(("max", arte, False, 8, 1, None, False, 6))
            sp.append(("max", arte, False, 16, 2, None, False, 9))
            if T:
                sp.append(("max", arte, False, 24, 3, 1, False, 15))
                sp.append(("max", arte, True, 256, None, None, False, 4))
        sp.append(("max", 0, True, 256, None, None, False, 5))
        sp.append(("max", 3, True, 256, None, 2, False, 7))
        for cols in (8, 16) + ((24, 256) if T else ()):
            sp.append(("max", 0, False, cols, None, None, False, 7))   # height taken from the length field
            sp.append(("max", 3, False, cols, None, None, True, 7))
        # the same picture from a pipe (no seek / tell), with and without skipped bytes: same pixels
        sp.append(("pipe", ("hrs", 4, 2, 1, 21)))
        sp.append(("pipe", ("hrs", 4, 1, None, 18)))
        sp.append(("pipe", ("max", 3, False, 8, 1, 2, False, 8)))
        sp.append(("mge", "raw", 4 if not T else 8, True))
        sp.append(("mge", "raw", 3 if not T else 6, False))
        sp.append(("cm3", 0x01, ((128, None),)))
        sp.append(("cm3", 0x01, ((255, None),)))
        sp.append(("cm3", 0x00, ((200, None),)))
        sp.append(("cm3", 0x81, ((129, None),)))
        # two pages of raw lines, with and without the 243-byte pattern block (which precedes page 1 only)
        sp.append(("cm3", 0x80, ((129, None), ("page", None), (255, None))))
        sp.append(("cm3", 0x81, ((128, None), ("page", None), (200, None))))
        if T:
            sp.append(("cm3", 0x01, ((128, None), (255, None))))
            sp.append(("cm3", 0x80, ((0x80, None),)))
        for tb in (0, 1, 3):
            sp.append(("vef", tb, 3 if not T else 6, None))
        sp.append(("vefpal",))
    elif pid == "C17":
        for n in (2, 4) + ((5, 6) if T else ()):
            sp.append(("mge", "rle", n, True))
        sp.append(("mge", "rle", 3, False))
        for cnt in (127, 128, 129, 255) if T else (128, 255):
            sp.append(("mgecount", cnt))
        for n in (1, 3) + ((4, 5) if T else ()):
            sp.append(("rat", n))
        for cnt in (0, 128, 255) if T else (255,):
            sp.append(("ratcount", cnt))
        for pat in S.CM3_PATTERNS:
            sp.append(("cm3", 0x01, ((128, None), (None, pat))))
            if T:
                sp.append(("cm3", 0x01, ((None, pat),)))
                sp.append(("cm3", 0x81, ((255, None), (None, pat), (None, "all-up"))))
        sp.append(("cm3", 0x01, ((None, "all-left"), (None, "left-at-col0-then-literal"))))
        # the length byte of the second stream is the encoder's choice: any value 0..127 that holds the bits is valid (spare
        # bytes after the last used one, e.g. 21 for a line that needs all 20, 127 at the limit)
        sp.append(("cm3", 0x01, ((128, None), (21, "all-literal"))))
        sp.append(("cm3", 0x01, ((128, None), (21, "all-up"))))
        sp.append(("cm3", 0x01, ((128, None), (40, "alternate"))))
        if T:
            sp.append(("cm3", 0x01, ((128, None), (127, "mixed"))))
            sp.append(("cm3", 0x01, ((128, None), (1, "all-left"))))
        # two pages: the first line of page 2 refers to the last line of page 1 (copy-up, copy-left at column 0)
        sp.append(("cm3", 0x81, ((255, None), ("page", None), (None, "all-up"))))
        sp.append(("cm3", 0x81, ((128, None), ("page", None), (None, "all-left"))))
        if T:
            sp.append(("cm3", 0x80, ((255, None), ("page", None), (None, "all-up"), (None, "left-at-col0-then-literal"))))
        for n, ol in ((2, 3), (3, 3), (4, 3)) + (((5, 3), (4, 5)) if T else ()):
            sp.append(("unsquash", n, ol))
        for cb in (129, 130, 255, 128, 127) if T else (129, 255, 128):
            sp.append(("unsquashcount", cb))
        sp.append(("vefsq", 0))
        sp.append(("vefsq", 3))
        sp.append(("vefsq", 1))
    elif pid == "C18":
        for w in range(1, 9 if not T else 13):
            for h in (1, 2):
                sp.append(("hrs", w, h, None, 16 + ((w + 1) // 2) * h))
        for sk in (1, 2):
            sp.append(("hrs", 4, 1, sk, 18 + sk))
        # widths above the 320 pixels of a screen line
        sp.append(("hrs", 324, 2, None, 16 + 162 * 2))
        sp.append(("hrs", 640, 1, None, 16 + 320))
        for n in range(0, 9 if not T else 19):
            sp.append(("pix", n))
        for cols in (8, 16, 12, 4, 20) + ((24, 9) if T else ()):
            sp.append(("max", 0, False, cols, 2, None, False, 5 + 2 * ((cols + 7) // 8)))
            sp.append(("max", 3, False, cols, None, None, False, 5 + 2 * ((cols + 7) // 8)))
        sp.append(("max", 0, True, 256, None, None, False, 5))
        sp.append(("max", 0, True, 256, 2, 2, False, 7))
        sp.append(("max", 0, False, 8, 1, 2, False, 8))
        sp.append(("max", 0, False, 8, None, 1, False, 8))
        sp.append(("maxskipnews",))
        for typ in (0x00, 0x01, 0x80, 0x81):
            sp.append(("cm3", typ, ((128, None),)))
            sp.append(("cm3", typ, ((None, "all-left"),)))
        sp.append(("mge", "raw", 3, True))
        sp.append(("mge", "rle", 2, True))
        sp.append(("cm3", 0x01, ((128, None),), 2))  # padding after the picture data (tolerated and counted by the tool)
        sp.append(("cm3", 0x80, ((None, "all-up"),), 1))
        for tb in (0, 1, 3):
            sp.append(("vef", tb, 2, None))
        sp.append(("vefsq", 3))
        sp.append(("vefsq", 0))
        sp.append(("vefsq", 1))
        # standard input instead of a file: same bytes, same result (with and without -s)
        sp.append(("pipe", ("hrs", 4, 1, None, 18)))
        sp.append(("pipe", ("hrs", 4, 1, 2, 20)))
        sp.append(("pipe", ("max", 0, False, 8, 1, None, False, 6)))
        sp.append(("pipe", ("max", 0, False, 8, 1, 2, False, 8)))
        sp.append(("pipe", ("max", 0, True, 256, None, 2, False, 7)))
        sp.append(("pipe", ("pix", 8)))
    elif pid == "C19":
        for L in range(0, 21 if not T else 25):
            sp.append(("hrs", 4, 2, None, L))
        # -s N on inputs that end inside (or exactly at the end of) the skipped bytes, and a skip longer than the file
        for sk, L in ((3, 0), (3, 1), (3, 2), (3, 3), (3, 5), (30, 20), (7, 6)):
            sp.append(("hrs", 4, 2, sk, L))
        for L in range(0, 8):
            sp.append(("max", 0, False, 8, 2, None, False, L))
            sp.append(("max", 0, False, 8, None, None, False, L))
            sp.append(("max", 0, False, 8, None, None, True, L))
            sp.append(("max", 0, True, 256, None, None, False, min(L, 5)))
        sp.append(("max", 0, False, 16, 2, None, False, 8))
        for cols in (12, 20, 100):
            sp.append(("max", 0, False, cols, None, None, False, 7 + (cols >> 3)))
        sp.append(("max", 0, False, 8, 2, None, True, 7))
        sp.append(("max", 0, False, 8, 1, 1, False, 7))
        for n in (0, 1, 2, 3):
            sp.append(("mge", "raw", n, True, True))
            sp.append(("mge", "rle", n, True, True))
        sp.append(("mgetrunc",))
        for n in (0, 1, 2, 3):
            sp.append(("rat", n, True))
        sp.append(("rattrunc",))
        sp.append(("cm3", 0x01, ((128, None),), 0, 1))
        sp.append(("cm3", 0x01, ((128, None),), 0, 2))
        sp.append(("cm3", 0x01, ((128, None),), 3, 1))
        sp.append(("cm3", 0x81, ((128, None),), 0, 1))
        # a compressed line whose control byte announces fewer second-stream bytes than its first stream needs
        sp.append(("cm3trunc",))
        for n in (0, 1, 2):
            sp.append(("vef", None, n, None))
        sp.append(("veftrunc",))
        sp.append(("vefsqbad",))
        for n, ol in ((2, 3), (3, 3)):
            sp.append(("unsquash", n, ol))
    return sp


STDOUT_FINDINGS = []


def make_case(spec):
    """build the case and note every path on which convert() sent text to standard output: the PPM tools write the picture
    to standard output when no output file is named, so anything else printed there ends up inside the picture"""
    case = _make_case(spec)
    paths_ = getattr(case, "paths", [])
    if paths_ and all(p["status"] == "unwind" for p in paths_):
        # every path left the unwinding bound: nothing would be decided for this case, and silently so
        D.PENDING_GAPS.append(f"{case.name}: all {len(paths_)} paths end beyond the unwinding bound ({paths_[0]['detail'][:60]}): the case decides nothing")
    if getattr(case, "decoder", "") != "veftopng":
        for p in getattr(case, "paths", []):
            if p.get("stdout"):
                # replay on the real decoder: a model of this path, real convert(), real sys.stdout captured
                import contextlib
                import io as _io

                v, m = smt.check(list(p["pc"]) + list(case.premises), 30000, True)
                if v != "sat":
                    raise HarnessGap(f"{case.name}: path with standard-output text has no model ({v})")
                cap = _io.StringIO()
                with contextlib.redirect_stdout(cap):
                    _, raw = case.replay(m)
                if not cap.getvalue():
                    raise HarnessGap(f"{case.name}: modelled standard-output text {p['stdout'][0]} does not reproduce on the real decoder")
                STDOUT_FINDINGS.append((f"stdout-text:{case.decoder}", f"{case.name}: convert() writes {cap.getvalue()[:60]!r} to standard output ({p['status']} path); with the picture going to standard output the stream is no longer header + samples, and differs from the file written by the same call", {"case": str(spec), "input_hex": bytes(raw).hex()[:400]}))
                break
    return case


def _make_case(spec):
    k = spec[0]
    if k == "hrs":
        return S.hrs_case(*spec[1:])
    if k == "pix":
        return S.pix_case(spec[1])
    if k == "max":
        return S.max_case(*spec[1:])
    if k == "mge":
        return S.mge_case(spec[1], spec[2], spec[3], header_symbolic=(len(spec) > 4 and spec[4]))
    if k == "rat":
        return S.rat_case(spec[1], packed_symbolic=(len(spec) > 2 and spec[2]))
    if k == "cm3":
        return S.cm3_case(spec[1], list(spec[2]), nlit_extra=(spec[3] if len(spec) > 3 else 0), lines_byte=(spec[4] if len(spec) > 4 else None))
    if k == "vef":
        return S.vef_case(spec[1], spec[2], spec[3])
    if k == "unsquash":
        return S.unsquash_case(spec[1], spec[2])
    raise HarnessError(f"unknown case kind {k}")


def sample_class(decoder, i):
    """which part of an input byte a sample comes from (for signatures)"""
    if decoder in ("hrstoppm", "mgetoppm", "cm3toppm", "rattoppm"):
        return "high-nibble" if i % 6 < 3 else "low-nibble"
    return f"sample%{i % 24}"


def confirm(case, model, got_cell_index, hdr_len, want_term):
    """replay the model on the real decoder: does the real output byte differ from the reference value?"""
    real, raw = case.replay(model)
    want_v = model.eval(want_term, model_completion=True).as_long() & 0xFF
    if isinstance(real, tuple):
        real = real[0]
    if isinstance(real, str):
        # the real decoder raised (e.g. end of a prefix stream): compare what it had written until then
        try:
            real = bytes.fromhex(real.rsplit(":", 1)[1])
        except ValueError:
            return True, f"real decoder: {real[:60]}", raw
    pos = hdr_len + got_cell_index
    if pos >= len(real):
        return True, f"real output ends before sample {got_cell_index}", raw
    return real[pos] != want_v, f"real output byte {real[pos]} vs reference {want_v} at sample {got_cell_index}", raw


def header_len(case):
    p = case.params
    if case.decoder == "hrstoppm":
        return len(f"P6\n{p['width']} {p['height']}\n255\n")
    if case.decoder == "mgetoppm":
        return len("P6\n320 200\n255\n")
    if case.decoder == "rattoppm":
        return len("P6\n320 199\n255\n")
    if case.decoder == "cm3toppm":
        return len("P6\n320 192\n255\n")
    return 0


# ----------------------------------------------------------------------------- per-property workers
def work(job):
    pid, spec = job
    st = smt.Stats()
    smt.STATS = st
    out = {"spec": spec, "sigs": [], "paths": 0, "forks": 0, "samples": [], "encoded": [], "replays": 0, "unwound": 0, "name": str(spec)}
    import contextlib
    import io as _io

    with contextlib.redirect_stderr(_io.StringIO()):
        return _work(pid, spec, st, out)


def _work(pid, spec, st, out):
    del D.PENDING_GAPS[:]
    del STDOUT_FINDINGS[:]
    try:
        if pid in ("C16", "C17") and spec[0] == "pipe":
            pipe_equivalence(out, spec, st)
        elif pid == "C16":
            obligations_pixels(out, spec, st, pid)
        elif pid == "C17":
            obligations_pixels(out, spec, st, pid)
        elif pid == "C18":
            if spec[0] in ("vef", "vefsq"):
                vef_pixels(out, spec, st)
            elif spec[0] in ("cm3", "mge", "rat"):
                # fixed-geometry formats: the header must announce the size the format dictates for this picture type,
                # and the samples that follow must be the picture's (a header / table mis-read desynchronises them)
                obligations_pixels(out, spec, st, pid)
                case = make_case(spec)
                for p in case.paths:
                    st.bump("obligations")
                    if p.get("header_ok") is False:
                        out["sigs"].append((f"header:{case.decoder}", f"{case.name}: header differs from the size the format dictates", {"case": str(spec)}))
                    else:
                        st.bump("identity")
            else:
                obligations_size(out, spec, st)
        elif pid == "C19":
            obligations_damage(out, spec, st)
    except HarnessGap as e:
        out["sigs"].append(("harness-gap", f"{spec}: {e}", None))
    for g in D.PENDING_GAPS:
        out["sigs"].append(("harness-gap", f"{spec}: {g}", None))
    if pid == "C18":
        st.bump("obligations")
        seen = set()
        for f in STDOUT_FINDINGS:
            if f[0] not in seen:
                seen.add(f[0])
                out["sigs"].append(f)
        if not seen:
            st.bump("identity")
    out["stats"] = st.export()
    return out


def want_for(case, p, st):
    """reference samples for one path (may fork the reference along the path condition) -> list of (pc, want)"""
    d = case.decoder
    if d in ("hrstoppm", "pixtopgm", "cm3toppm"):
        return [(p["pc"], p["want"])]
    if d == "maxtoppm":
        if p["status"] != "ok" or p["value"] is False:
            return [(p["pc"], None)]
        cols, rows = p["hdr"]
        if cols is None:
            return [(p["pc"], None)]
        if pysym.is_sym(cols) or pysym.is_sym(rows):
            # geometry symbolic: bytes per row / rows are fixed on this path; read them off the sample count
            return [(p["pc"], "max-symbolic-geometry")]
        per_row = cols >> 3
        want = []
        data = p["data"]
        for r in range(rows):
            want += S.max_row_ref(case.params["arte"], data[r * per_row:(r + 1) * per_row])
        return [(p["pc"], want)]
    if d == "mgetoppm":
        if case.params["mode"] == "raw":
            return [(p["pc"], S.nibbles_ref(p["palterms"], p["data"]))]
        outs = []
        for pc2, val in ref_paths(lambda path: S.ref_rle_mge(path, p["data"], p["palterms"], 160 * 200), p["pc"]):
            outs.append((pc2, val[0]))
        return outs
    if d == "rattoppm":
        return [(pc2, val) for pc2, val in ref_paths(lambda path: S.ref_rat(path, p["esc"], p["data"], p["pal"], 199 * 160), p["pc"])]
    return [(p["pc"], None)]


def ref_paths(fn, pc):
    outs = []
    stack = [[]]
    while stack:
        dec = stack.pop()
        path = Path(dec, pc)
        val = fn(path)
        outs.append((list(path.pc), val))
        stack.extend(path.siblings(len(dec)))
        if len(outs) > 3000:
            raise HarnessGap("reference path explosion")
    return outs


def max_refusal_ob(out, case, p, spec, st):
    """a well-formed MAX header must not be refused: first byte 0 and (height given, or the length field is a whole
    number of rows at this width)"""
    head = p.get("head") or []
    if case.params.get("newsroom") or len(head) < 3:
        return
    st.bump("obligations")
    wf = [term(head[0]) == bv(0)]
    if not case.params.get("rows"):
        size8 = (term(head[1]) * 256 + term(head[2])) * 8
        wf.append(z3.URem(size8, bv(case.params["cols"])) == bv(0))
    v, m = smt.check(p["pc"] + case.premises + wf, 20000, True, stats=st)
    st.bump(v)
    if v == "sat":
        size = m.eval(term(head[1]) * 256 + term(head[2]), True).as_long()
        got, data = case.replay(m)
        st.bump("replays")
        if not (isinstance(got, tuple) and got[1] is False):
            raise HarnessError(f"{case.name}: refusal model did not replay on the real decoder: {str(got)[:80]} for {data.hex()}")
        out["sigs"].append(("refused:maxtoppm:well-formed-header", f"{case.name}: a header with first byte 0 and length field {size} (= {size * 8 // case.params['cols']} rows of {case.params['cols']}) is refused", {"case": str(spec), "size": size}))


def obligations_pixels(out, spec, st, pid):
    k = spec[0]
    if k == "vefpal":
        return vef_palette(out, st)
    if k in ("mgecount", "ratcount"):
        return boundary_count(out, spec, st)
    if k == "unsquashcount":
        return unsquash_boundary(out, spec, st)
    if k == "unsquash":
        return unsquash_ob(out, spec, st)
    if k in ("vef", "vefsq"):
        return vef_pixels(out, spec, st)
    case = make_case(spec)
    out["name"] = case.name
    out["encoded"].append((case.decoder, case.src))
    hl = header_len(case)
    for p in case.paths:
        out["paths"] += 1
        out["forks"] += p["decisions"]
        if p["status"] == "unwind":
            out["unwound"] += 1
            continue
        if case.decoder == "maxtoppm" and p.get("value") is False:
            max_refusal_ob(out, case, p, spec, st)
        if case.decoder == "maxtoppm" and p.get("value") is not False and p["status"] == "ok" and p["hdr"][0] is not None and p["expect"][0] is not None and p["expect"][1] is not None:
            # the announced size is what the options / the header bytes dictate (unsigned bytes, big-endian length)
            st.bump("obligations")
            ct, rt = term(p["hdr"][0]), term(p["hdr"][1])
            v, m = smt.check(p["pc"] + case.premises + [z3.Or(ct != p["expect"][0], rt != p["expect"][1])], 20000, True, stats=st)
            st.bump(v)
            if v == "sat":
                got, data = case.replay(m)
                out["replays"] += 1
                out["sigs"].append(("header:maxtoppm:geometry", f"{case.name}: announced size differs from what the options / header dictate for input {data.hex()[:40]} (real decoder: {str(got)[:60]})", {"case": str(spec), "input_hex": data.hex()}))
        if case.decoder in ("cm3toppm", "mgetoppm", "rattoppm") and p.get("header_ok") is False and pid != "C18":
            out["sigs"].append((f"header:{case.decoder}", f"{case.name}: the PPM header differs from the size the format dictates for this picture type", {"case": str(spec)}))
        if case.decoder == "pixtopgm" and p.get("header_ok") is False and p["status"] == "ok":
            # the side of a PIX picture follows from its length; with another header the samples below are not comparable
            real, data = case.replay(smt.check(p["pc"] + case.premises, 20000, True)[1])
            out["replays"] += 1
            ann = re.match(rb"P5\n(\d+) (\d+)\n", real if isinstance(real, (bytes, bytearray)) else b"")
            if ann and (int(ann.group(1)), int(ann.group(2))) == tuple(p["announced"]):
                out["sigs"].append(("harness-replay", f"{case.name}: modelled header differs from the reference but the real decoder announces {p['announced']}", None))
            else:
                out["sigs"].append(("header:pixtopgm:side", f"{case.name}: {len(data)} bytes are a {p['announced'][0]}x{p['announced'][1]} picture; the decoder announces {ann.groups() if ann else real[:20]!r}", {"case": str(spec), "input_hex": data.hex()[:80]}))
            continue
        got = p.get("samples", p.get("got"))
        for pc2, want in want_for(case, p, st):
            if want is None:
                continue
            if want == "max-symbolic-geometry":
                continue
            n = min(len(got), len(want))
            idn, uns, bad, unk = D.compare_cells(list(pc2) + case.premises, got[:n], want[:n], st, case.name)
            if unk:
                out["sigs"].append(("unknown", f"{case.name}: {unk} cells undecided", None))
            if len(out["samples"]) < 2:
                out["samples"].append({"case": case.name, "path_status": p["status"], "cells_compared": n, "identity": idn, "unsat": uns, "counterexample": bad is not None})
            if bad is not None:
                i, m = bad
                okc, what, raw = confirm(case, m, i, hl if case.decoder != "maxtoppm" and case.decoder != "pixtopgm" else real_header_len(case, m), want[i])
                out["replays"] += 1
                if not okc:
                    out["sigs"].append(("harness-replay", f"{case.name}: model did not replay ({what})", None))
                else:
                    fam = re.sub(r"[0-9]+", "N", case.name.split(":")[1]) if case.decoder in ("maxtoppm",) else ""
                    mode = f":mode{case.params.get('arte')}" if case.decoder == "maxtoppm" else (":" + case.params.get("mode", "") + (":cmp" if case.params.get("rgb") is False else "")) if case.decoder == "mgetoppm" else ""
                    out["sigs"].append((f"pixel:{case.decoder}{mode}:{sample_class(case.decoder, i)}", f"{case.name}: sample {i} wrong for input {raw.hex()} ({what})", {"input_hex": raw.hex(), "case": str(spec)}))
            # every sample the reference derives from the (complete) records of the input must have been written
            if len(got) < len(want) and case.decoder in ("cm3toppm", "mgetoppm", "rattoppm"):
                out["sigs"].append((f"missing-samples:{case.decoder}", f"{case.name}: {len(got)} samples written ({p['status']}), {len(want)} derivable from the complete records of the input", {"case": str(spec)}))
            # a successful path must not deliver more samples than the reference derives from the input
            if p["status"] == "ok" and len(got) > len(want) and case.decoder not in ("pixtopgm",):
                out["sigs"].append((f"extra-samples:{case.decoder}", f"{case.name}: {len(got)} samples written, {len(want)} derivable from the input", {"case": str(spec)}))


def real_header_len(case, model):
    real, raw = case.replay(model)
    if isinstance(real, tuple):
        real = real[0]
    if isinstance(real, (bytes, bytearray)):
        m = re.match(rb"P[56]\n\d+ \d+\n255\n", real)
        return m.end() if m else 0
    return 0


def boundary_count(out, spec, st):
    """a run whose count byte is pinned to a boundary value (unrolled fully: the count is concrete on the path)"""
    kind, cnt = spec
    if kind == "mgecount":
        mod = D.load("mgetoppm")
        pal, pre_p = S.cells(16, "pal")
        data, pre_d = S.cells(2, "d")
        pre = pre_p + pre_d + [data[0].t == cnt]
        stream_cells = [0] + pal + [0, 0] + S.MGE_TITLE + [7, 0x21] + data + [0]

        def build():
            stream = S.Stream(stream_cells, "in.mge")
            sink = S.Sink("out.ppm")
            return dict(input_image_stream=stream, output_image_stream=sink), sink, {"in.mge": stream}, {}

        results, src = D.run_function(mod, "convert", build, pre, unwind=cnt + 2)
        out["encoded"].append(("mgetoppm", src))
        hdr = S.header("P6\n320 200\n255\n")
        palterms = [term(c) for c in pal]
        name = f"mge:rle:count={cnt}"
        for r in results:
            out["paths"] += 1
            samples = D.out_terms(r["out"])[len(hdr):]
            v = term(data[1])
            want = (rgb6(sel(palterms, z3.LShR(v, bv(4)))) + rgb6(sel(palterms, v & bv(15)))) * cnt
            n = min(len(samples), len(want))
            idn, uns, bad, unk = D.compare_cells(r["pc"] + pre, samples[:n], want[:n], st, name, group=60)
            if len(samples) < len(want):
                out["sigs"].append((f"run-length:mgetoppm:count={cnt}:short", f"{name}: run of {cnt} produced {len(samples) // 6} bytes", {"count": cnt}))
            if bad is not None:
                out["sigs"].append((f"run-length:mgetoppm:count={cnt}:wrong-pixel", f"{name}: sample {bad[0]} wrong", {"count": cnt}))
            if len(out["samples"]) < 1:
                out["samples"].append({"case": name, "run_bytes_expected": cnt, "run_bytes_written": len(samples) // 6, "cells_proved": uns + idn})
        out["name"] = name
    else:
        mod = D.load("rattoppm")
        pal, pre_p = S.cells(16, "pal")
        esc, pre_e = S.cells(1, "esc")
        val, pre_v = S.cells(1, "v")
        lit, pre_l = S.cells(1, "lit")
        pre = pre_p + pre_e + pre_v + pre_l + [lit[0].t != esc[0].t]
        stream_cells = [esc[0], 1, 0] + pal + [esc[0], cnt, val[0], lit[0]]

        def build():
            stream = S.Stream(stream_cells, "in.rat")
            sink = S.Sink("out.ppm")
            return dict(input_image_stream=stream, output_image_stream=sink), sink, {"in.rat": stream}, {}

        results, src = D.run_function(mod, "convert", build, pre, unwind=cnt + 2)
        out["encoded"].append(("rattoppm", src))
        hdr = S.header("P6\n320 199\n255\n")
        palterms = [term(c) for c in pal]
        name = f"rat:repeat={cnt}"
        for r in results:
            out["paths"] += 1
            samples = D.out_terms(r["out"])[len(hdr):]

            def px(v):
                return rgb6(sel(palterms, z3.LShR(v, bv(4)))) + rgb6(sel(palterms, v & bv(15)))

            want = px(term(val[0])) * cnt + px(term(lit[0]))
            if len(samples) != len(want):
                out["sigs"].append((f"run-length:rattoppm:repeat={cnt}:count", f"{name}: {len(samples) // 6} bytes written, {len(want) // 6} expected", {"count": cnt}))
            n = min(len(samples), len(want))
            idn, uns, bad, unk = D.compare_cells(r["pc"] + pre, samples[:n], want[:n], st, name, group=60)
            if bad is not None:
                i = bad[0]
                out["sigs"].append((f"pixel:rattoppm:{sample_class('rattoppm', i)}", f"{name}: sample {i} wrong", {"count": cnt}))
            if len(out["samples"]) < 1:
                out["samples"].append({"case": name, "cells_proved": uns + idn})
        out["name"] = name


def unsquash_ob(out, spec, st):
    case = make_case(spec)
    out["name"] = case.name
    out["encoded"].append(("veftopng.unsquash", case.src))
    ol = case.params["orig_len"]
    for p in case.paths:
        out["paths"] += 1
        out["forks"] += p["decisions"]
        if p["status"] == "unwind":
            out["unwound"] += 1
            continue
        for pc2, (want, rstat) in ref_paths(lambda path: S.ref_unsquash(path, p["data"], ol), p["pc"]):
            feas, _ = smt.check(list(pc2) + case.premises, 10000, count=False)
            if feas != "sat":
                continue
            if p["status"] == "ok":
                got = [term(c) for c in p["value"].cells]
                if rstat == "overrun":
                    out["sigs"].append(("unsquash:overrun-accepted", f"{case.name}: a group runs past the record but a result of {len(got)} bytes is returned", {"case": str(spec)}))
                    continue
                if len(got) != len(want):
                    out["sigs"].append((f"unsquash:length:{'short' if len(got) < len(want) else 'long'}", f"{case.name}: {len(got)} bytes returned, reference {len(want)}", {"case": str(spec)}))
                    continue
                idn, uns, bad, unk = D.compare_cells(list(pc2) + case.premises, got, want, st, case.name)
                if bad is not None:
                    real, raw = case.replay(bad[1])
                    out["replays"] += 1
                    out["sigs"].append(("unsquash:wrong-byte", f"{case.name}: byte {bad[0]} wrong for record {raw.hex()} -> {real}", {"record_hex": raw.hex()}))
            else:
                if rstat == "ok":
                    out["sigs"].append(("unsquash:valid-record-rejected", f"{case.name}: {p['detail']} on a record the reference decodes", {"case": str(spec)}))
    if len(out["samples"]) < 1:
        out["samples"].append({"case": case.name, "paths": out["paths"], "beyond_unwinding_bound": out["unwound"]})


def unsquash_boundary(out, spec, st):
    cb = spec[1]
    mod = D.load("veftopng")
    val, pre = S.cells(3, "u")
    import coco.veftopng as V

    ol = 140
    rec = [cb] + list(val)
    if cb > 128:
        want = [term(val[0])] * (cb - 128)
        rec = [cb, val[0]]
    else:
        vals, pre = S.cells(cb, "u")
        rec = [cb] + list(vals)
        want = [term(c) for c in vals]

    def build():
        return dict(data=S.SList(list(rec)), count=len(rec), orig_len=ol), None, {}, {}

    results, src = D.run_function(mod, "unsquash", build, pre, unwind=300, while_unwind=300)
    out["encoded"].append(("veftopng.unsquash", src))
    name = f"unsquash:control={cb}"
    out["name"] = name
    for r in results:
        out["paths"] += 1
        if r["status"] != "ok":
            out["sigs"].append((f"unsquash:control={cb}:{r['status']}", f"{name}: {r['detail']}", {}))
            continue
        got = [term(c) for c in r["value"].cells]
        if len(got) != len(want):
            out["sigs"].append((f"unsquash:control={cb}:length", f"{name}: {len(got)} bytes, expected {len(want)}", {}))
            continue
        idn, uns, bad, unk = D.compare_cells(r["pc"] + pre, got, want, st, name, group=64)
        if bad is not None:
            out["sigs"].append((f"unsquash:control={cb}:wrong-byte", f"{name}: byte {bad[0]} wrong", {}))
    out["samples"].append({"case": name, "bytes_expected": len(want)})


def vef_real_run(raw):
    """the real veftopng.start on a file with these bytes -> (status, pixel values in the PNG, width * height)"""
    import contextlib
    import os
    import shutil
    import tempfile

    import coco.veftopng as V
    import png as _png

    d = tempfile.mkdtemp(prefix="vefr")
    try:
        with open(os.path.join(d, "i.vef"), "wb") as f:
            f.write(raw)
        try:
            with contextlib.redirect_stdout(io.StringIO()), contextlib.redirect_stderr(io.StringIO()):
                V.start([os.path.join(d, "i.vef"), os.path.join(d, "o.png")])
        except SystemExit as e:
            return ("exit:" + str(e.code), 0, 0)
        except BaseException as e:  # noqa: BLE001
            return (type(e).__name__, 0, 0)
        try:
            w, h, rows, info = _png.Reader(filename=os.path.join(d, "o.png")).read()
            return ("ok", sum(len(r) for r in rows), w * h)
        except Exception:  # noqa: BLE001
            return ("ok", -1, 0)
    finally:
        shutil.rmtree(d, ignore_errors=True)


def vef_pixels(out, spec, st):
    if spec[0] == "vefsq":
        tb = spec[1]
        ol = 80 if tb in (0, 1) else 40
        # 400 records; the first three carry symbolic payload (a literal group, a short repeat group, and a repeat group that
        # fills a whole half scan line of `ol` bytes), the rest are one repeat group of a concrete byte
        recs = [[3, 2, "sym", "sym"], [2, 130, "sym"], [2, 128 + ol, "sym"]] + [[2, 129, 7]] * 397
        case = S.vef_case(tb, 4, recs)
    else:
        case = make_case(spec)
    out["name"] = case.name
    out["encoded"].append(("veftopng.start", case.src))
    if case.params.get("type_byte") in (0, 1, 3):
        # a well-formed file of a supported screen type is converted on at least one path (otherwise everything below is vacuous)
        st.bump("obligations")
        if any(p["status"] == "ok" and p["writer"] is not None and p["writer"].bitmap is not None for p in case.paths):
            st.bump("identity")
        else:
            # replay on a complete file of that type: the symbolic case is a prefix / a file of short records, which a
            # (correct) length check may refuse - only a refused COMPLETE file is a violation
            why = sorted(set(p["detail"][:50] for p in case.paths))[:2]
            tbv = case.params["type_byte"]
            size, ol2 = (32000, 80) if tbv in (0, 1) else (16000, 40)
            full = bytes([0, tbv] + list(range(16))) + bytes((i * 5) % 256 for i in range(size)) if spec[0] != "vefsq" else bytes([128, tbv] + list(range(16))) + bytes([2, 128 + ol2, 9]) * 400
            stt, npix, exp = vef_real_run(full)
            out["replays"] += 1
            if stt == "ok" and npix == exp:
                out["sigs"].append(("harness-gap", f"{case.name}: every symbolic path ends in {why} although a complete file of this type converts: pixel obligations not decided", None))
            else:
                out["sigs"].append((f"rejected:veftopng:type{tbv}:{'squashed' if spec[0] == 'vefsq' else 'raw'}", f"{case.name}: a complete well-formed file of this type is not converted: {stt}, {npix} of {exp} pixel values (symbolic paths: {why})", {"case": str(spec), "input_hex": full[:40].hex()}))
    for p in case.paths:
        out["paths"] += 1
        out["forks"] += p["decisions"]
        if p["status"] != "ok" or p["writer"] is None or p["writer"].bitmap is None:
            continue
        w = p["writer"]
        tb = case.params["type_byte"]
        # dimensions of the final image: the VEF screen types (0: 320x200x16, 1: 640x200x4, 3: 320x200x4, 4: 640x200x2);
        # 640-wide screens are doubled in height for the aspect ratio, 320-wide ones are left alone
        VEF_DIMS = {0: (320, 200), 1: (640, 200), 3: (320, 200), 4: (640, 200)}
        if tb in VEF_DIMS:
            st.bump("obligations")
            ew, eh = VEF_DIMS[tb]
            final = p.get("resized") or (w.width, w.height)
            want_final = (640, 400) if ew == 640 else (ew, eh)
            if (w.width, w.height) != (ew, eh) or tuple(final) != want_final:
                out["sigs"].append((f"dimensions:veftopng:type{tb}", f"{case.name}: PNG written as {w.width}x{w.height}, final image {tuple(final)}; screen type dictates {ew}x{eh} -> {want_final}", {"case": str(spec)}))
            else:
                st.bump("identity")
        got = [term(c) for c in w.bitmap.cells]
        pal = [term(c) for c in p["pal"]]
        data = [term(x) if not isinstance(x, int) else bv(x) for x in p["body"]]
        if spec[0] == "vefsq":
            d = p["data"]
            data = [term(d[0]), term(d[1]), term(d[2]), term(d[2])] + [term(d[3])] * (80 if case.params["type_byte"] in (0, 1) else 40) + [bv(7)] * 397
        want = []
        for b in data:
            if tb == 0:
                want += [sel(pal, z3.LShR(b, bv(4))), sel(pal, b & bv(15))]
            else:
                want += [sel(pal, z3.LShR(b, bv(6))), sel(pal, z3.LShR(b, bv(4)) & bv(3)), sel(pal, z3.LShR(b, bv(2)) & bv(3)), sel(pal, b & bv(3))]
        if len(got) != len(want):
            out["sigs"].append((f"pixel-count:veftopng:type{tb}", f"{case.name}: {len(got)} pixels for {len(data)} data bytes", {"case": str(spec)}))
        n = min(len(got), len(want))
        idn, uns, bad, unk = D.compare_cells(p["pc"] + case.premises, got[:n], want[:n], st, case.name, group=32)
        if bad is not None:
            per = 2 if tb == 0 else 4
            out["sigs"].append((f"pixel:veftopng:type{tb}:pixel%{bad[0] % per}", f"{case.name}: pixel {bad[0]} wrong", {"case": str(spec)}))
        out["samples"].append({"case": case.name, "pixels": len(got), "proved": idn + uns})


def vef_palette(out, st):
    """the 64-entry table handed to the PNG writer must be the six-bit colour formula, for every code"""
    case = S.vef_case(0, 1, None)
    out["name"] = "vef:palette"
    out["encoded"].append(("veftopng.start", case.src))
    w = None
    for p in case.paths:
        if p["writer"] is not None:
            w = p["writer"]
    if w is None or w.palette is None:
        out["sigs"].append(("harness-gap", "no PNG writer / palette seen", None))
        return
    rows = w.palette.cells if hasattr(w.palette, "cells") else list(w.palette)
    if len(rows) != 64:
        out["sigs"].append((f"vef-palette:size={len(rows)}", f"palette has {len(rows)} entries", {}))
        return
    c = z3.BitVec("code", pysym.W)
    ref = rgb6(c)
    for j in range(3):
        col = [r[j] for r in rows]
        st.bump("obligations")
        v, m = smt.check([z3.ULE(c, 63), sel(col, c) != ref[j]], 20000, True, stats=st)
        st.bump(v)
        if v == "sat":
            code = m.eval(c, model_completion=True).as_long()
            out["sigs"].append((f"vef-palette:{'rgb'[j]}", f"palette entry {code} = {rows[code]} differs from the colour formula", {"code": code}))
    out["paths"] += 1
    out["samples"].append({"case": "vef:palette", "obligation": "table[c] = rgb6(c) for all c in 0..63"})


# ---- C18
def pipe_equivalence(out, spec, st):
    """input from a pipe (no seek / tell) must give what the same bytes give from a file: the case is run twice"""
    inner = spec[1]
    sums = {}
    for pipe in (False, True):
        pysym.Stream.PIPE = pipe
        try:
            case = make_case(inner)
        finally:
            pysym.Stream.PIPE = False
        sums[pipe] = sorted((p["status"], p["detail"].split(":")[0] if p["status"] != "ok" else "", len(p["out"] or []), str([str(x) for x in (p["out"] or [])[:40]])) for p in case.paths)
        out["paths"] += len(case.paths)
    out["name"] = "pipe:" + case.name
    out["encoded"].append((case.decoder, case.src))
    st.bump("obligations")
    if sums[False] == sums[True]:
        st.bump("identity")
    else:
        a = [x[:3] for x in sums[False]][:3]
        b = [x[:3] for x in sums[True]][:3]
        out["sigs"].append((f"pipe-differs:{case.decoder}", f"{case.name}: from a file {a}, from a pipe {b}", {"case": str(spec)}))
    out["samples"].append({"case": out["name"], "paths_file": len(sums[False]), "paths_pipe": len(sums[True])})


def obligations_size(out, spec, st):
    if spec[0] == "pipe":
        return pipe_equivalence(out, spec, st)
    if spec[0] == "maxskipnews":
        # skipping N bytes = decoding the input with its first N bytes removed (newsroom header variant)
        a = S.max_case(0, True, 256, None, 2, False, 6)
        b = S.max_case(0, True, 256, None, None, False, 4)
        out["encoded"].append(("maxtoppm", a.src))
        out["name"] = "max:skip-vs-tail:newsroom"

        def summary(case, shift):
            res = []
            for p in case.paths:
                res.append((p["status"], None if p["hdr"][0] is None else (str(p["hdr"][0]), str(p["hdr"][1])), len(p["samples"])))
            return sorted(str(x).replace("m%d" % 0, "") for x in res)

        # rename: stream cell k of the skipped run corresponds to cell k-2 of the tail run
        hs_a = sorted((p["status"], len(p["samples"])) for p in a.paths)
        hs_b = sorted((p["status"], len(p["samples"])) for p in b.paths)
        out["paths"] += len(a.paths) + len(b.paths)
        st.bump("obligations")
        if hs_a != hs_b:
            out["sigs"].append(("skip-not-tail:maxtoppm:newsroom", f"paths with -s 2: {hs_a[:4]}..., on the tail: {hs_b[:4]}...", {}))
        else:
            # header terms must be the same function of the (shifted) bytes
            for pa in a.paths:
                if pa["hdr"][0] is not None and pysym.is_sym(pa["hdr"][0]):
                    names = {str(d) for d in z3.z3util.get_vars(pa["hdr"][0].t)}
                    if names != {"m2"}:
                        out["sigs"].append(("skip-not-tail:maxtoppm:newsroom:header", f"with -s 2 the width is computed from {sorted(names)}", {}))
                    break
            st.bump("identity")
        out["samples"].append({"case": out["name"], "paths": len(a.paths)})
        return
    case = make_case(spec)
    out["name"] = case.name
    out["encoded"].append((case.decoder, case.src))
    for p in case.paths:
        out["paths"] += 1
        out["forks"] += p["decisions"]
        if p["status"] != "ok":
            continue
        d = case.decoder
        if d in ("hrstoppm", "pixtopgm"):
            if not p.get("input_complete", True):
                continue
            st.bump("obligations")
            exp = p["expected_samples"]
            n = len(p["got"])
            if not p["header_ok"]:
                out["sigs"].append((f"header:{d}", f"{case.name}: header differs from the advertised size", {"case": str(spec)}))
            if n != exp:
                cls = ("odd-width" if case.params.get("width", 0) % 2 else "even-width") if d == "hrstoppm" else "non-square-size"
                out["sigs"].append((f"sample-count:{d}:{cls}", f"{case.name}: header announces {p['announced']} = {exp} samples, {n} written", {"case": str(spec), "written": n, "announced": exp}))
            else:
                st.bump("identity")
        elif d == "maxtoppm":
            if p["value"] is False:
                max_refusal_ob(out, case, p, spec, st)
                continue
            cols, rows = p["hdr"]
            ecols, erows = p["expect"]
            if cols is None:
                out["sigs"].append(("header:maxtoppm:missing", f"{case.name}: success without a header", {"case": str(spec)}))
                continue
            st.bump("obligations")
            ct, rt = term(cols), term(rows)
            pre = p["pc"] + case.premises
            v, m = smt.check(pre + [z3.Or(ct != ecols, rt != erows)], 20000, True, stats=st)
            st.bump(v)
            if v == "sat":
                out["sigs"].append(("header:maxtoppm:geometry", f"{case.name}: announced size differs from what the options / header dictate", {"case": str(spec)}))
            n = len(p["samples"])
            # well-formed input: the file holds all the rows the header / options announce (shorter files are C19's subject)
            enough = z3.ULE(z3.LShR(ct + 7, bv(3)) * rt, bv(len(p["data"])))
            v, m = smt.check(pre + [enough, ct * rt * 3 != n], 20000, True, stats=st)
            st.bump("obligations")
            st.bump(v)
            if v == "sat":
                cv, rv = m.eval(ct, model_completion=True).as_long(), m.eval(rt, model_completion=True).as_long()
                real, raw = case.replay(m)
                out["replays"] += 1
                cls = "width-not-multiple-of-8" if cv % 8 else "other"
                out["sigs"].append((f"sample-count:maxtoppm:{cls}", f"{case.name}: {cv}x{rv} announced, {n} samples written (input {raw.hex()})", {"case": str(spec), "input_hex": raw.hex()}))
    if len(out["samples"]) < 1:
        out["samples"].append({"case": case.name, "paths": out["paths"]})


# ---- C19
def obligations_damage(out, spec, st):
    k = spec[0]
    if k in ("mgetrunc", "rattrunc", "cm3trunc", "veftrunc", "vefsqbad"):
        return truncation_sweeps(out, spec, st)
    if k == "unsquash":
        return unsquash_ob(out, spec, st)
    S.VEF_PILLOW_CONTRACT = True
    try:
        case = make_case(spec)
    finally:
        S.VEF_PILLOW_CONTRACT = False
    out["name"] = case.name
    out["encoded"].append((case.decoder, case.src))
    d = case.decoder
    for p in case.paths:
        out["paths"] += 1
        out["forks"] += p["decisions"]
        if p["status"] == "unwind":
            out["unwound"] += 1
            if "while loop beyond" in p["detail"]:
                # "the decoder terminates": a while loop that is still running after the unwinding bound on an input of
                # a few bytes is a candidate; decided by replaying a model of the path on the real decoder in a child
                # process with a time limit
                st.bump("obligations")
                v, m = smt.check(p["pc"] + case.premises, 20000, True, stats=st)
                st.bump(v)
                if v == "sat":
                    verdict = replay_terminates(case, m, 20)
                    st.bump("replays")
                    if verdict == "timeout":
                        out["sigs"].append((f"nontermination:{d}", f"{case.name}: the decoder does not terminate within 20 s on an input of {len(case.cells)} symbolic bytes ({p['detail']})", {"case": str(spec)}))
            continue
        if d == "mgetoppm" and ":hdr" in case.name and len(p.get("samples") or []) > 0:
            # corrupted header field: a path that gets as far as writing picture samples must have checked the first
            # header byte (the format has exactly one valid value, 0)
            st.bump("obligations")
            h0 = [c for c in case.cells if c.t.decl().name().startswith("hdr")][0]
            v, m = smt.check(p["pc"] + case.premises + [term(h0) != bv(0)], 20000, True, stats=st)
            st.bump(v)
            if v == "sat":
                real, raw = case.replay(m)
                st.bump("replays")
                if isinstance(real, (bytes, bytearray)) and len(real) > 15:
                    out["sigs"].append(("silent:mgetoppm:bad-first-byte", f"{case.name}: first header byte {raw[:1].hex()} is accepted and pixels are written", {"case": str(spec), "input_hex": raw.hex()}))
                elif not (isinstance(real, str) and len(real.split(":")[-1]) > 30):
                    raise HarnessError(f"{case.name}: header model did not replay: {str(real)[:60]}")
                else:
                    out["sigs"].append(("silent:mgetoppm:bad-first-byte", f"{case.name}: first header byte {raw[:1].hex()} is accepted and pixels are written before the input ends", {"case": str(spec), "input_hex": raw.hex()}))
        if p["status"] != "ok":
            continue  # failure reported
        st.bump("obligations")
        if d == "hrstoppm":
            n, exp = len(p["got"]), p["expected_samples"]
            if n != exp:
                out["sigs"].append((f"silent:{d}:short-input", f"{case.name}: success with {n} of {exp} samples", {"case": str(spec)}))
            elif not p["input_complete"]:
                out["sigs"].append((f"silent:{d}:short-palette", f"{case.name}: success although the input is {case.params['nbytes']} bytes", {"case": str(spec)}))
            else:
                st.bump("identity")
        elif d == "maxtoppm":
            if p["value"] is False:
                st.bump("identity")
                continue
            cols, rows = p["hdr"]
            if cols is None:
                out["sigs"].append(("silent:maxtoppm:no-header", f"{case.name}: success without header", {"case": str(spec)}))
                continue
            head = p.get("head") or []
            if not case.params.get("newsroom") and not case.params.get("rows") and not case.params.get("ignore") and len(head) >= 3:
                # a length field that is not a whole number of rows at this width is a header error: success must imply
                # width * rows / 8 = length (the documented check), whatever the width
                st.bump("obligations")
                size = term(head[1]) * 256 + term(head[2])
                c_ = bv(case.params["cols"])
                r_ = z3.UDiv(size * 8, c_)
                v, m = smt.check(p["pc"] + case.premises + [z3.UDiv(c_ * r_, bv(8)) != size], 20000, True, stats=st)
                st.bump(v)
                if v == "sat":
                    real, raw = case.replay(m)
                    out["replays"] += 1
                    if isinstance(real, tuple) and real[1] is True:
                        out["sigs"].append(("silent:maxtoppm:inconsistent-length-accepted", f"{case.name}: length field {m.eval(size, True)} is not a whole number of rows of {case.params['cols']} pixels, yet the file is accepted (input {raw.hex()[:24]})", {"case": str(spec), "input_hex": raw.hex()}))
                    else:
                        out["sigs"].append(("harness-replay", f"{case.name}: inconsistent-length model {raw.hex()} did not replay: {str(real)[:60]}", None))
            ct, rt = term(cols), term(rows)
            n = len(p["samples"])
            pre = p["pc"] + case.premises
            v, m = smt.check(pre + [ct * rt * 3 != n], 20000, True, stats=st)
            st.bump(v)
            if v == "sat":
                real, raw = case.replay(m)
                out["replays"] += 1
                ok_real = isinstance(real, tuple) and real[1] is True
                if ok_real:
                    cv = m.eval(ct, model_completion=True).as_long()
                    cls = "width-not-multiple-of-8" if cv % 8 else "short-rows"
                    first_bad = any(str(c) == "Not(m0 == 0)" or "m0" in str(c) and "Not" in str(c) for c in p["pc"][-6:])
                    out["sigs"].append((f"silent:maxtoppm:{cls}{':ignore' if case.params['ignore'] else ''}", f"{case.name}: success with {n} samples for an announced {m.eval(ct, model_completion=True)}x{m.eval(rt, model_completion=True)} (input {raw.hex()})", {"case": str(spec), "input_hex": raw.hex()}))
                else:
                    out["sigs"].append(("harness-replay", f"{case.name}: model {raw.hex()} did not replay: {real}", None))
            # header errors must not be accepted silently
            if not case.params["newsroom"] and not case.params["ignore"] and p["head"]:
                v2, m2 = smt.check(pre + [term(p["head"][0]) != 0], 20000, True, stats=st)
                if v2 == "sat":
                    real, raw = case.replay(m2)
                    out["replays"] += 1
                    if isinstance(real, tuple) and real[1] is True:
                        out["sigs"].append(("silent:maxtoppm:bad-first-byte", f"{case.name}: first header byte {raw[:1].hex()} accepted (rows={case.params['rows']})", {"case": str(spec), "input_hex": raw.hex()}))
        elif d in ("mgetoppm", "rattoppm", "cm3toppm"):
            n, exp = len(p["samples"]), p["expected_samples"]
            if n != exp:
                how = "run-stream-ends-early" if d == "mgetoppm" and case.params["mode"] == "rle" else "lines-byte-below-rows" if d == "cm3toppm" else "short"
                out["sigs"].append((f"silent:{d}:{how}", f"{case.name}: success with {n} of {exp} samples", {"case": str(spec)}))
            else:
                st.bump("identity")
        elif d == "veftopng":
            w = p["writer"]
            if w is None or w.bitmap is None:
                out["sigs"].append(("silent:veftopng:no-image", f"{case.name}: success without an image", {"case": str(spec)}))
                continue
            n = len(w.bitmap.cells)
            tcond = [str(c) for c in p["pc"] if "type0" in str(c)]
            which = ("type4-no-pixel-branch" if any("type0 == 4" == c for c in tcond) else "short-data") + (":640-wide" if w.width == 640 else "")
            if n != w.width * w.height:
                out["sigs"].append((f"silent:veftopng:{which}", f"{case.name}: {w.width}x{w.height} PNG written with {n} pixels", {"case": str(spec)}))
            # every pixel must index the 64-entry palette
            if n:
                v, m = smt.check(p["pc"] + case.premises + [z3.Or(*[z3.UGT(term(c), bv(63)) for c in w.bitmap.cells])], 20000, True, stats=st)
                st.bump(v)
                if v == "sat":
                    out["sigs"].append(("silent:veftopng:palette-index-above-63", f"{case.name}: a palette byte above 63 is written as a pixel index", {"case": str(spec)}))
    if len(out["samples"]) < 1:
        out["samples"].append({"case": case.name, "paths": out["paths"], "beyond_unwinding_bound": out["unwound"]})


def replay_terminates(case, model, limit_s):
    """run case.replay(model) in a forked child; 'done' or 'timeout' (os.fork: pool workers may not use multiprocessing)"""
    import os
    import signal
    import time as _time

    pid = os.fork()
    if pid == 0:
        try:
            case.replay(model)
        except BaseException:  # noqa: BLE001
            pass
        os._exit(0)
    t0 = _time.time()
    while _time.time() - t0 < limit_s:
        done, _ = os.waitpid(pid, os.WNOHANG)
        if done:
            return "done"
        _time.sleep(0.05)
    os.kill(pid, signal.SIGKILL)
    os.waitpid(pid, 0)
    return "timeout"


def truncation_sweeps(out, spec, st):
    import contextlib
    import io as _io

    with contextlib.redirect_stderr(_io.StringIO()):
        return _truncation_sweeps(out, spec, st)


def _truncation_sweeps(out, spec, st):
    """concrete well-formed files of the fixed-size formats, every truncation point near each structural boundary,
    run through the REAL decoder (fixed-size formats cannot be completed symbolically): success must mean complete"""
    import io

    k = spec[0]
    out["name"] = k
    if k == "mgetrunc":
        import coco.mgetoppm as G

        head = bytes([0] + list(range(16)) + [0, 0]) + bytes(S.MGE_TITLE) + bytes([7, 0x21])
        body = b"".join(bytes([255, (i * 7) % 256]) for i in range(125)) + bytes([125, 9]) + bytes([0])
        full = head + body

        def run(raw):
            stt, data = bounded_convert(G.convert, raw)
            if stt == "timeout":
                out["sigs"].append(("nontermination:mgetoppm", f"mgetoppm does not return within 8 s on an input of {len(raw)} bytes (concrete sweep)", {"input_hex": raw[:60].hex(), "length": len(raw)}))
                return "timeout", b""
            return stt, data

        expect = 320 * 200 * 3 + len("P6\n320 200\n255\n")
        pts = list(range(0, 60)) + list(range(len(full) - 8, len(full) + 1))
        for L in pts:
            stt, o = run(full[:L])
            st.bump("obligations")
            out["paths"] += 1
            if stt == "ok" and len(o) != expect:
                out["sigs"].append(("silent:mgetoppm:truncated-rle", f"MGE truncated to {L} bytes: success with {len(o)} output bytes", {"length": L}))
        stt, o = run(full[:-1] + b"\x05\x06\x00")
        if stt == "ok" and len(o) != expect:
            out["sigs"].append(("silent:mgetoppm:runs-after-full-picture", f"MGE with an extra run after the picture is full: {len(o)} output bytes instead of {expect}", {}))
        stt, o = run(full)
        if stt != "ok" or len(o) != expect:
            raise HarnessError(f"reference MGE file is not accepted: {stt} {len(o)}")
    elif k == "rattrunc":
        import coco.rattoppm as R

        head = bytes([0xEE, 1, 0] + list(range(16)))
        body = b"".join(bytes([0xEE, 255, (i * 5) % 200]) for i in range(124)) + bytes([0xEE, 220, 3])
        full = head + body

        def run(raw):
            stt, data = bounded_convert(R.convert, raw)
            if stt == "timeout":
                out["sigs"].append(("nontermination:rattoppm", f"rattoppm does not return within 8 s on an input of {len(raw)} bytes (concrete sweep)", {"input_hex": raw[:60].hex(), "length": len(raw)}))
                return "timeout", b""
            return stt, data

        expect = 320 * 199 * 3 + len("P6\n320 199\n255\n")
        stt, o = run(full)
        if stt != "ok" or len(o) != expect:
            raise HarnessError(f"reference RAT file is not accepted: {stt} {len(o)}")
        for L in list(range(0, 30)) + list(range(len(full) - 6, len(full))):
            stt, o = run(full[:L])
            st.bump("obligations")
            out["paths"] += 1
            if stt == "ok" and len(o) != expect:
                out["sigs"].append(("silent:rattoppm:truncated", f"RAT truncated to {L} bytes: success with {len(o)} output bytes", {"length": L}))
        stt, o = run(head + body[:-3] + bytes([0xEE, 255, 3]))
        if stt == "ok" and len(o) != expect:
            out["sigs"].append(("silent:rattoppm:run-past-picture-end", f"RAT whose last run overshoots the picture: {len(o)} output bytes instead of {expect}", {}))
    elif k == "cm3trunc":
        import coco.cm3toppm as C

        head = bytes([0x01] + list(range(16)) + [1, 2] + [0] * 8 + [0x80, 0])
        line = bytes([200]) + bytes(range(160))
        full = head + bytes([192]) + line * 192

        def run(raw, limit_s=8):
            """the real decoder in a forked child under a time limit (a decoder that never returns must not hang the check)"""
            import os
            import signal
            import time as _time

            rfd, wfd = os.pipe()
            pid = os.fork()
            if pid == 0:
                os.close(rfd)
                o = io.BytesIO()
                try:
                    C.convert(io.BytesIO(raw), o)
                    stt = "ok"
                except BaseException as e:  # noqa: BLE001
                    stt = type(e).__name__
                os.write(wfd, f"{stt} {len(o.getvalue())}".encode())
                os._exit(0)
            os.close(wfd)
            t0 = _time.time()
            while _time.time() - t0 < limit_s:
                done, _ = os.waitpid(pid, os.WNOHANG)
                if done:
                    data = os.read(rfd, 100).decode()
                    os.close(rfd)
                    stt, n = data.split(" ")
                    return stt, b"x" * int(n)
                _time.sleep(0.02)
            os.kill(pid, signal.SIGKILL)
            os.waitpid(pid, 0)
            os.close(rfd)
            out["sigs"].append(("nontermination:cm3toppm", f"cm3toppm does not return within {limit_s} s on an input of {len(raw)} bytes (concrete sweep)", {"input_hex": raw[:60].hex(), "length": len(raw)}))
            return "timeout", b""

        expect = 320 * 192 * 3 + len("P6\n320 192\n255\n")
        stt, o = run(full)
        if stt != "ok" or len(o) != expect:
            raise HarnessError(f"reference CM3 file is not accepted: {stt} {len(o)}")
        for L in list(range(0, 40)) + [len(head) + 1 + 161 * kk + d for kk in (1, 100, 191) for d in (-1, 0, 1)] + list(range(len(full) - 4, len(full))):
            stt, o = run(full[:L])
            st.bump("obligations")
            out["paths"] += 1
            if stt == "ok" and len(o) != expect:
                out["sigs"].append(("silent:cm3toppm:truncated", f"CM3 truncated to {L} bytes: success with {len(o)} output bytes", {"length": L}))
        # compressed lines (every byte a literal: 20 first-stream bytes FF, 20 second-stream bytes FF, 160 literals); then one
        # line's control byte corrupted to announce fewer / more second-stream bytes than the first stream needs
        cline = bytes([20]) + bytes([0xFF] * 20) + bytes([0xFF] * 20) + bytes(range(160))
        fullc = head + bytes([192]) + cline * 192
        stt, o = run(fullc)
        if stt != "ok" or len(o) != expect:
            raise HarnessError(f"reference compressed CM3 file is not accepted: {stt} {len(o)}")
        for which, pos in (("first", len(head) + 1), ("middle", len(head) + 1 + 201 * 96), ("last", len(head) + 1 + 201 * 191)):
            for newc in (19, 10, 0, 21, 127):
                bad = bytearray(fullc)
                bad[pos] = newc
                stt, o = run(bytes(bad))
                st.bump("obligations")
                out["paths"] += 1
                if stt == "ok" and len(o) != expect:
                    out["sigs"].append((f"silent:cm3toppm:control-byte-{'below' if newc < 20 else 'above'}-need", f"CM3 whose {which} line announces {newc} second-stream bytes where 20 are needed: success with {len(o)} of {expect} output bytes", {"line": which, "control": newc}))
        for lines in (0, 1, 191):
            stt, o = run(head + bytes([lines]) + line * lines)
            st.bump("obligations")
            if stt == "ok" and len(o) != expect:
                out["sigs"].append(("silent:cm3toppm:lines-byte-below-rows", f"CM3 announcing {lines} lines for a 192-row picture: success with {len(o)} output bytes", {"lines": lines}))
    elif k in ("veftrunc", "vefsqbad"):
        import os
        import tempfile

        import coco.veftopng as V
        import png as _png

        def run(raw):
            d = tempfile.mkdtemp(prefix="veft")
            try:
                with open(os.path.join(d, "i.vef"), "wb") as f:
                    f.write(raw)
                try:
                    V.start([os.path.join(d, "i.vef"), os.path.join(d, "o.png")])
                except SystemExit as e:
                    if e.code in (0, None) and not os.path.exists(os.path.join(d, "o.png")):
                        return "ok", -2, 0  # exit status 0 = success reported, and there is no image at all
                    if e.code in (0, None):
                        pass
                    else:
                        return "SystemExit", 0, 0
                except BaseException as e:  # noqa: BLE001
                    return type(e).__name__, 0, 0
                # the tool reported success: is the file it wrote a complete image?
                try:
                    rd = _png.Reader(filename=os.path.join(d, "o.png"))
                    w, h, rows, info = rd.read()
                    return "ok", sum(len(r) for r in rows), w * h
                except Exception as e:  # noqa: BLE001
                    return "ok", -1, 0
            finally:
                import shutil

                shutil.rmtree(d, ignore_errors=True)

        import contextlib

        if k == "veftrunc":
            # the Image.open contract of the symbolic model, checked on the libraries themselves (not through the tool)
            from PIL import Image as _Image

            dd = tempfile.mkdtemp(prefix="vefc")
            try:
                for npix, must_raise in ((0, True), (640 * 199, True), (640 * 200 - 1, True), (640 * 200, False)):
                    fn = os.path.join(dd, "c.png")
                    with open(fn, "wb") as fh:
                        _png.Writer(640, 200, palette=[(i, i, i) for i in range(64)], bitdepth=8).write_array(fh, [1] * npix)
                    try:
                        im = _Image.open(fn)
                        im.resize((640, 400))
                        im.close()
                        raised = False
                    except OSError:
                        raised = True
                    if raised != must_raise:
                        raise HarnessError(f"Image.open contract of the symbolic model does not hold for {npix} of 128000 pixels (raised={raised})")
            finally:
                import shutil as _sh

                _sh.rmtree(dd, ignore_errors=True)
            for raw_h, nm in ((b"", "empty"), (bytes([0, 2] + list(range(16))) + bytes(100), "type-2"), (bytes([0, 255] + list(range(16))) + bytes(100), "type-255"), (bytes([128, 5] + list(range(16))) + bytes([2, 129, 7]) * 400, "squashed-type-5")):
                with contextlib.redirect_stdout(io.StringIO()), contextlib.redirect_stderr(io.StringIO()):
                    stt, n, exp = run(raw_h)
                st.bump("obligations")
                out["paths"] += 1
                if stt == "ok" and n != exp:
                    out["sigs"].append((f"silent:veftopng:damaged-header-exit-status-0:{nm}", f"VEF with a damaged header ({nm}): the tool ends with exit status 0 and no complete image", {"header": nm}))
            # type 0: 320x200x16; type 1: 640x200x4 (re-opened and resized through Pillow, whose loader is what notices
            # missing rows: this sweep is also the validation of the Image.open contract used by the symbolic cases)
            for tbyte, tag in ((0, ""), (1, ":640-wide")):
                full = bytes([0, tbyte] + list(range(16))) + bytes((i * 3) % 256 for i in range(32000))
                with contextlib.redirect_stdout(io.StringIO()):
                    stt, n, exp = run(full)
                if stt != "ok" or n != exp:
                    raise HarnessError(f"reference VEF file is not accepted: {stt} {n} {exp}")
                for L in list(range(0, 24)) + [18 + 160 * kk + d for kk in (1, 100) for d in (-1, 0, 1)] + [len(full) - 1, len(full) + 1, len(full) + 160]:
                    raw = full[:L] if L <= len(full) else full + bytes(L - len(full))
                    with contextlib.redirect_stdout(io.StringIO()):
                        stt, n, exp = run(raw)
                    st.bump("obligations")
                    out["paths"] += 1
                    if stt == "ok" and n != exp:
                        out["sigs"].append((f"silent:veftopng:{'short' if L < len(full) else 'long'}-data{tag}", f"VEF (type {tbyte}) of {L} bytes: PNG written with {n} pixel values for {exp} pixels", {"length": L, "type": tbyte}))
        else:
            # squashed: a literal group that overruns its record must be reported, not decoded short
            rec_ok = bytes([81, 208, 5])  # 80 x byte 5 ... record of 2 payload bytes: count byte then data
            recs = b"".join(bytes([2, 208, (i % 200)]) for i in range(400))
            full = bytes([128, 0] + list(range(16))) + recs
            with contextlib.redirect_stdout(io.StringIO()):
                stt, n, exp = run(full)
            if stt != "ok" or n != exp:
                raise HarnessError(f"reference squashed VEF is not accepted: {stt} {n} {exp}")
            bad = bytearray(full)
            bad[18 + 1] = 0x7F  # first record: literal group claiming 127 bytes in a 2-byte record
            with contextlib.redirect_stdout(io.StringIO()):
                stt, n, exp = run(bytes(bad))
            st.bump("obligations")
            out["paths"] += 1
            if stt == "ok" and n != exp:
                out["sigs"].append(("silent:veftopng:literal-overruns-record", f"squashed VEF with a literal group longer than its record: PNG written with {n} of {exp} pixel values", {}))
            # the file cut anywhere in its last two records (after a count byte, after a complete packet, inside a packet):
            # the tool must not report success with fewer pixels than it announces
            for k in range(1, 8):
                with contextlib.redirect_stdout(io.StringIO()):
                    stt, n, exp = run(full[:-k])
                st.bump("obligations")
                out["paths"] += 1
                if stt == "ok" and n != exp:
                    where = "after-count-byte" if k % 3 == 2 else "after-complete-record" if k % 3 == 0 else "inside-packet"
                    out["sigs"].append((f"silent:veftopng:squashed-cut-{where}", f"squashed VEF cut {k} bytes before its end: PNG written with {n} of {exp} pixel values", {"cut": k}))
            # the same with records that hold two packets (literal of 1 + run), cut at the packet boundary inside the last record
            recs2 = b"".join(bytes([4, 1, (i % 200), 207, 7]) for i in range(400))  # literal 1 byte + run of 79: 80 bytes per record
            full2 = bytes([128, 0] + list(range(16))) + recs2
            with contextlib.redirect_stdout(io.StringIO()):
                stt, n, exp = run(full2)
            if stt == "ok" and n == exp:
                for k in range(1, 6):
                    with contextlib.redirect_stdout(io.StringIO()):
                        stt, n, exp = run(full2[:-k])
                    st.bump("obligations")
                    out["paths"] += 1
                    if stt == "ok" and n != exp:
                        out["sigs"].append((f"silent:veftopng:squashed-cut-{'at-packet-boundary' if k == 2 else 'inside-last-record'}", f"squashed VEF (two packets per record) cut {k} bytes before its end: PNG written with {n} of {exp} pixel values", {"cut": k}))
            else:
                out["sigs"].append(("harness-gap", f"two-packet squashed reference file is not accepted: {stt} {n} {exp}", None))
            lastlit = bytearray(full[:-3]) + bytes([2, 2, 9])  # last record: literal of 2 bytes, file ends after 1
            with contextlib.redirect_stdout(io.StringIO()):
                stt, n, exp = run(bytes(lastlit))
            st.bump("obligations")
            out["paths"] += 1
            if stt == "ok" and n != exp:
                out["sigs"].append(("silent:veftopng:truncated-last-literal", f"squashed VEF cut inside the last literal: PNG written with {n} of {exp} pixel values", {}))
    out["samples"].append({"case": k, "truncation_points": out["paths"]})


# ----------------------------------------------------------------------------- driver
LEVEL_TEXT = {
    "C16": "uncompressed layouts",
    "C17": "compressed encodings",
    "C18": "advertised size",
    "C19": "damaged files",
}


def run_prop(pid, tier):
    ctx = Ctx(pid, tier, "model_checking", technique="AST-level symbolic execution of the real decoder source over z3 bit-vectors (pysym), per-path comparison with declarative reference decoders, sat models replayed on the real function")
    smt.reset_stats()
    sp = specs(pid, tier)
    ctx.bounds.update({"cases": len(sp), "bitwidth": 32, "stream_bytes": "see case names (L / n)", "run_unwinding": S.RUN_UNWIND})
    results = pmap(work, [(pid, s) for s in sp], chunksize=1)
    seen_src = set()
    for r in results:
        ctx.stats["states"] += r["paths"]
        ctx.stats["transitions"] += r["forks"] + r["paths"]
        ctx.stats["traces_validated_against_impl"] += r["replays"]
        ctx.stats["paths_beyond_unwinding_bound"] += r["unwound"]
        ctx.add_solver_stats(r["stats"])
        for name, src in r["encoded"]:
            if (name, src) not in seen_src:
                seen_src.add((name, src))
                ctx.encode(f"coco.{name} (source interpreted by pysym)", src)
        for smp in r["samples"][:1]:
            ctx.sample(smp, limit=14)
        for sig, what, witness in r["sigs"]:
            if sig == "unknown":
                ctx.note_inconclusive(what)
            elif sig.startswith("harness"):
                ctx.harness_gap(what)
            else:
                ctx.violation(sig, what, {"witness": witness, "case": str(r["spec"])})
    if pid == "C18":
        decoder_cli(ctx)
        complete_files(ctx)
        decoder_history(ctx, ["hrstoppm", "pixtopgm", "maxtoppm", "mgetoppm", "mgetoppm:rle", "rattoppm", "cm3toppm"])
    if pid == "C16":
        decoder_history(ctx, ["hrstoppm", "pixtopgm", "maxtoppm", "mgetoppm"])
    if pid == "C17":
        decoder_history(ctx, ["rattoppm", "cm3toppm", "mgetoppm:rle"])
    ctx.extra["solver"] = {"z3": smt.z3_version()}
    ctx.assume("iotostr / strtoio / pack are the identity on single bytes 0..255 (latin-1); f.read(n) returns min(n, remaining) bytes; ord('') raises TypeError; sys.exit and exceptions = failure reported")
    ctx.assume("run lengths above the unwinding bound are covered only at the listed boundary values; fixed-size formats are checked on prefixes (uniform loop bodies) and by concrete truncation sweeps of one well-formed file")
    return ctx


def history_files():
    """two different well-formed pictures per format (different palettes and contents; the second one's first records
    refer back to state a careless decoder might keep from the first: copy-up / copy-left lines, low palette slots)"""
    files = {}
    pal_a, pal_b = bytes(range(16)), bytes((63 - 3 * i) % 64 for i in range(16))
    files["hrstoppm"] = [(pal_a + bytes((i * 7) % 256 for i in range(160 * 192)), (320, 192, None)), (pal_b + bytes((i * 11 + 5) % 256 for i in range(160 * 192)), (320, 192, None))]
    # the second PIX picture is smaller than the first (a decoder that keeps its sample buffer writes the stale tail)
    files["pixtopgm"] = [(bytes((i * 5) % 256 for i in range(128)), ()), (bytes((255 - i) % 256 for i in range(32)), ())]
    files["maxtoppm"] = [(bytes([0, 0x18, 0, 0, 0]) + bytes((i * 3) % 256 for i in range(6144)), (0, False, 256, None, None, False)),
                         (bytes([0, 0x18, 0, 0, 0]) + bytes((i * 13 + 1) % 256 for i in range(6144)), (3, False, 256, None, None, False))]
    head_m = lambda pal: bytes([0]) + pal + bytes([0, 0xFF]) + bytes(S.MGE_TITLE) + bytes([7, 0x21])  # noqa: E731
    files["mgetoppm"] = [(head_m(pal_a) + bytes((i * 3) % 256 for i in range(32000)), ()), (head_m(pal_b) + bytes((i * 9 + 2) % 256 for i in range(32000)), ())]
    # run-length MGE: both pictures use the same run values under different palettes (a decoder that remembers rendered
    # runs, palettes or positions from picture A shows it on picture B)
    head_mr = lambda pal: bytes([0]) + pal + bytes([0, 0]) + bytes(S.MGE_TITLE) + bytes([7, 0x21])  # noqa: E731
    runs = lambda k: b"".join(bytes([250, (i * k) % 256]) for i in range(128)) + bytes([0])  # noqa: E731
    files["mgetoppm:rle"] = [(head_mr(pal_a) + runs(7), ()), (head_mr(pal_b) + runs(7), ())]
    head_r = lambda pal: bytes([0xEE, 1, 0]) + pal  # noqa: E731
    body_r = lambda k: bytes(b for i in range(199 * 160) for b in ([(i * k) % 0xEE]))  # noqa: E731  (never the escape byte)
    files["rattoppm"] = [(head_r(pal_a) + body_r(3), ()), (head_r(pal_b) + body_r(7), ())]
    head_c = lambda pal: bytes([0x01]) + pal + bytes([1, 2] + [0] * 8 + [0x80, 0])  # noqa: E731
    raw_lines = lambda k: b"".join(bytes([200]) + bytes((j * k + ln) % 256 for j in range(160)) for ln in range(192))  # noqa: E731
    # second picture: every byte "same as the byte above" (first stream bit 1 = look at the second stream, whose bit 0 = copy
    # up); its first line therefore shows whatever the line buffer holds when the picture starts
    up_lines = b"".join(bytes([20]) + bytes([0xFF] * 20) + bytes([0x00] * 20) for _ in range(192))
    files["cm3toppm"] = [(head_c(pal_a) + bytes([192]) + raw_lines(3), ()), (head_c(pal_b) + bytes([192]) + up_lines, ())]
    return files


def bounded_convert(convert, raw, args=(), limit_s=8, real_file=False):
    """convert(input, output, *args) on these bytes in a forked child under a time limit -> (status, output bytes | None).
    status 'timeout' = the decoder did not return (the caller reports it; the check itself never hangs)."""
    import os
    import signal
    import tempfile
    import time as _time

    tmp = tempfile.NamedTemporaryFile(prefix="vfout", delete=False)
    tmp.close()
    rfd, wfd = os.pipe()
    pid = os.fork()
    if pid == 0:
        os.close(rfd)
        o = io.BytesIO()
        try:
            if real_file:
                with real_input(raw) as fin:
                    r = convert(fin, o, *args)
            else:
                r = convert(io.BytesIO(raw), o, *args)
            stt = "ok" if r is not False else "refused"
        except BaseException as e:  # noqa: BLE001
            stt = ("exit:" + str(e.code)) if isinstance(e, SystemExit) else type(e).__name__
        with open(tmp.name, "wb") as f:
            f.write(o.getvalue())
        os.write(wfd, stt.encode())
        os._exit(0)
    os.close(wfd)
    t0 = _time.time()
    try:
        while _time.time() - t0 < limit_s:
            done, _ = os.waitpid(pid, os.WNOHANG)
            if done:
                stt = os.read(rfd, 200).decode() or "died"
                with open(tmp.name, "rb") as f:
                    return stt, f.read()
            _time.sleep(0.01)
        os.kill(pid, signal.SIGKILL)
        os.waitpid(pid, 0)
        return "timeout", None
    finally:
        os.close(rfd)
        os.unlink(tmp.name)


class real_input:
    """the bytes as a real file opened for reading (pixtopgm asks the file system for the size of f.name)"""

    def __init__(self, raw):
        self.raw = raw

    def __enter__(self):
        import tempfile

        self.tmp = tempfile.NamedTemporaryFile(prefix="vfin", suffix=".bin", delete=False)
        self.tmp.write(self.raw)
        self.tmp.close()
        self.f = open(self.tmp.name, "rb")
        return self.f

    def __exit__(self, *a):
        import os

        self.f.close()
        os.unlink(self.tmp.name)
        return False


def complete_files(ctx):
    """C18 on complete full-size pictures (the symbolic cases are prefixes and never reach the end of a picture): for two
    well-formed files per format - raw and run-length MGE among them - the real decoder's output is its header followed by
    exactly width x height samples"""
    import importlib
    import io

    files = history_files()
    # run-length MGE whose last runs are short (249 + 1 bytes) and one whose runs are all of length 1..255 mixed
    head_mr = files["mgetoppm:rle"][0][0][:51]
    runs = b"".join(bytes([250, (i * 7) % 256]) for i in range(128))
    mixed = b"".join(bytes([255, i % 256]) for i in range(125)) + bytes([124, 3, 1, 4, 0])  # 125 * 255 + 124 + 1 = 32000
    files["mgetoppm:rle-short-last-runs"] = [(head_mr + runs[:-2] + bytes([249, 5, 1, 9, 0]), ()), (head_mr + mixed, ())]
    # RAT pictures whose run packets (escape, count, value) start at every offset just before, at and after multiples of 512
    # up to 8192 (a decoder that reads its input in blocks must put the three bytes together again)
    head_r = files["rattoppm"][0][0][:19]
    esc = head_r[0]
    for base in (512, 2048, 4096, 8192):
        pics = []
        for delta in (-3, -2, -1, 0, 1):
            k = base + delta
            body = bytes((i * 3) % esc for i in range(k)) + bytes([esc, 6, 9])
            rest = 199 * 160 - k - 6
            body += bytes((i * 5) % esc for i in range(rest))
            pics.append((head_r + body, ()))
        files[f"rattoppm:run-packet-near-offset-{base}"] = pics
    for key, pair in sorted(files.items()):
        mod = importlib.import_module("coco." + key.split(":")[0])
        for which, (raw, args) in zip("ABCDE", pair):
            out = io.BytesIO()
            ctx.stats["obligations"] += 1
            ctx.stats["programs"] += 1
            ctx.stats["traces_validated_against_impl"] += 1
            import contextlib

            with contextlib.redirect_stderr(io.StringIO()):
                stt_, data = bounded_convert(mod.convert, raw, args, limit_s=20, real_file=True)
            if stt_ == "timeout":
                ctx.violation(f"complete-file:{key}:does-not-return", f"{key} picture {which} (well-formed, {len(raw)} bytes): no result within 20 s", {"decoder": key})
                continue
            if stt_ not in ("ok", "refused"):
                ctx.violation(f"complete-file:{key}:rejected", f"{key} picture {which} (well-formed, {len(raw)} bytes): {stt_}", {"decoder": key})
                continue
            r = stt_ == "ok"
            m = re.match(rb"(P[56])\n(\d+) (\d+)\n255\n", data)
            if r is False or not m:
                ctx.violation(f"complete-file:{key}:no-image", f"{key} picture {which}: result {r!r}, output starts {data[:20]!r}", {"decoder": key})
                continue
            w, h = int(m.group(2)), int(m.group(3))
            want = w * h * (3 if m.group(1) == b"P6" else 1)
            got = len(data) - m.end()
            if got == want:
                ctx.stats["identity"] += 1
            else:
                ctx.violation(f"complete-file:{key}:sample-count", f"{key} picture {which}: header announces {w}x{h} = {want} samples, {got} written", {"decoder": key})


def decoder_history(ctx, decoders):
    """decoding picture B after picture A in the same process gives what a fresh process gives for B (and A again gives A):
    the decoders keep no state between pictures"""
    import importlib
    import io
    import json
    import subprocess
    import sys

    from vf.core import REPO

    files = history_files()
    for key in decoders:
        modname = key.split(":")[0]
        mod = importlib.import_module("coco." + modname)
        (raw_a, args_a), (raw_b, args_b) = files[key]

        def dec(raw, args):
            import contextlib

            out = io.BytesIO()
            with contextlib.redirect_stderr(io.StringIO()), real_input(raw) as fin:
                try:
                    r = mod.convert(fin, out, *args)
                    return ("ok" if r is not False else "refused", out.getvalue())
                except BaseException as e:  # noqa: BLE001
                    return ("exc:" + type(e).__name__, out.getvalue())

        code = ("import sys, io, json, hashlib, tempfile, os; sys.path.insert(0, %r); import importlib; m = importlib.import_module('coco.%s'); out = io.BytesIO()\n"
                "t = tempfile.NamedTemporaryFile(delete=False); t.write(bytes.fromhex(sys.stdin.read())); t.close(); fin = open(t.name, 'rb')\n"
                "try:\n    r = m.convert(fin, out, *%r); st = 'ok' if r is not False else 'refused'\n"
                "except BaseException as e:\n    st = 'exc:' + type(e).__name__\n"
                "fin.close(); os.unlink(t.name)\n"
                "print(json.dumps([st, hashlib.sha1(out.getvalue()).hexdigest(), len(out.getvalue())]))" % (REPO, modname, tuple(args_b)))
        pr = subprocess.run([sys.executable, "-c", code], input=raw_b.hex(), capture_output=True, text=True, timeout=300)
        if pr.returncode != 0:
            ctx.harness_gap(f"{modname}: fresh-process decode failed: {pr.stderr[-200:]}")
            continue
        import hashlib

        fresh = json.loads(pr.stdout)
        # the three decodes share ONE child process (that is the history); the child is under a time limit
        import os as _os
        import pickle as _pickle
        import signal as _signal
        import tempfile as _tempfile
        import time as _time

        resf = _tempfile.NamedTemporaryFile(prefix="vfhist", delete=False)
        resf.close()
        cpid = _os.fork()
        if cpid == 0:
            try:
                res = [dec(raw_a, args_a), dec(raw_b, args_b), dec(raw_a, args_a)]
                with open(resf.name, "wb") as fh:
                    _pickle.dump(res, fh)
            finally:
                _os._exit(0)
        t0 = _time.time()
        finished = False
        while _time.time() - t0 < 60:
            done_, _st = _os.waitpid(cpid, _os.WNOHANG)
            if done_:
                finished = True
                break
            _time.sleep(0.02)
        if not finished:
            _os.kill(cpid, _signal.SIGKILL)
            _os.waitpid(cpid, 0)
            _os.unlink(resf.name)
            ctx.violation(f"history:{modname}:does-not-return", f"{modname}: decoding picture A, picture B and picture A again in one process does not finish within 60 s", {"decoder": modname})
            continue
        try:
            with open(resf.name, "rb") as fh:
                a1, b1, a2 = _pickle.load(fh)
        except Exception:  # noqa: BLE001
            ctx.harness_gap(f"{key}: the history child process left no result")
            continue
        finally:
            _os.unlink(resf.name)
        ctx.stats["programs"] += 3
        ctx.stats["obligations"] += 2
        ctx.stats["traces_validated_against_impl"] += 1
        if fresh[0] != "ok" or a1[0] != "ok":
            ctx.harness_gap(f"{key}: the history pictures are not decoded successfully ({a1[0]}, fresh {fresh[0]}): comparison would be vacuous")
            continue
        if [b1[0], hashlib.sha1(b1[1]).hexdigest(), len(b1[1])] != fresh:
            i = None
            ctx.violation(f"history:{modname}:second-picture-differs-from-fresh-process", f"{modname}: picture B decoded after picture A: {b1[0]}, {len(b1[1])} bytes, sha1 {hashlib.sha1(b1[1]).hexdigest()[:10]}; in a fresh process {fresh[0]}, {fresh[2]} bytes, sha1 {fresh[1][:10]}", {"decoder": modname})
        else:
            ctx.stats["identity"] += 1
        if a1 != a2:
            ctx.violation(f"history:{modname}:same-picture-twice-differs", f"{modname}: picture A decoded before and after picture B gives different output", {"decoder": modname})
        else:
            ctx.stats["identity"] += 1


def decoder_cli(ctx):
    """C18 'every valid option combination': the command line of each decoder hands its options to convert() as
    documented (-w width, -r rows, -s skip, pixel mode flags, -i, -newsroom); files are opened in binary mode and closed;
    MAX removes the output after a failed conversion unless header errors are ignored"""
    import importlib
    import itertools
    import os
    import tempfile

    tmp = tempfile.mkdtemp(prefix="c18cli")
    try:
        inp, outp = os.path.join(tmp, "in.bin"), os.path.join(tmp, "out.bin")
        with open(inp, "wb") as f:
            f.write(bytes(range(64)))

        def run(modname, argv, result=True):
            mod = importlib.import_module("coco." + modname)
            calls = []
            real = mod.convert

            def rec(*a, **k):
                calls.append((a, k))
                return result

            mod.convert = rec
            try:
                try:
                    mod.start([inp, outp] + argv)
                    status = "ok"
                except SystemExit as e:
                    status = f"exit {e.code}"
            finally:
                mod.convert = real
            return status, calls

        def expect(modname, argv, want, what):
            ctx.stats["programs"] += 1
            ctx.stats["obligations"] += 1
            status, calls = run(modname, argv)
            got = None
            if calls:
                a = calls[0][0]
                got = tuple(a[2:])
                names = (getattr(a[0], "mode", None), getattr(a[1], "mode", None))
                if names != ("rb", "wb"):
                    ctx.violation(f"cli:{modname}:file-modes", f"{modname} {argv}: streams opened as {names}", {"argv": argv})
            if status != "ok" or got != want:
                ctx.violation(f"cli:{modname}:{what}", f"{modname} {' '.join(argv)}: convert() received {got} ({status}), documented {want}", {"argv": argv})
            else:
                ctx.stats["identity"] += 1

        for w, r, sk in itertools.product((None, 4, 640), (None, 1, 200), (None, 0, 7)):
            argv = (["-w", str(w)] if w is not None else []) + (["-r", str(r)] if r is not None else []) + (["-s", str(sk)] if sk is not None else [])
            expect("hrstoppm", argv, (w or 320, r or 192, sk), "options")
        modes = {None: 0, "-br": 1, "-rb": 2, "-br2": 3, "-rb2": 4, "-br3": 5, "-rb3": 6, "-s10": 7, "-s11": 8}
        for (flag, mode), news, ign in itertools.product(modes.items(), (False, True), (False, True)):
            for w, r, sk in ((None, None, None), (128, None, None), (None, 96, None), (None, None, 5), (64, 10, 3)):
                argv = ([flag] if flag else []) + (["-newsroom"] if news else []) + (["-i"] if ign else []) + (["-w", str(w)] if w else []) + (["-r", str(r)] if r else []) + (["-s", str(sk)] if sk else [])
                expect("maxtoppm", argv, (mode, news, w or 256, r, sk, ign), "options")
        for modname in ("pixtopgm", "mgetoppm", "rattoppm", "cm3toppm"):
            expect(modname, [], (), "options")
        # invalid values are refused by the option parser (documented: positive / non-negative integers)
        for modname, argv in (("hrstoppm", ["-w", "0"]), ("hrstoppm", ["-r", "-3"]), ("hrstoppm", ["-s", "-1"]), ("maxtoppm", ["-w", "0"]), ("maxtoppm", ["-s", "-1"]), ("maxtoppm", ["-r", "x"])):
            ctx.stats["obligations"] += 1
            import contextlib
            import io as _io

            with contextlib.redirect_stderr(_io.StringIO()):
                status, calls = run(modname, argv)
            if calls or status == "ok":
                ctx.violation(f"cli:{modname}:invalid-option-accepted", f"{modname} {' '.join(argv)} is accepted ({status})", {"argv": argv})
            else:
                ctx.stats["identity"] += 1
        # MAX: a failed conversion removes the output file, unless -i
        for ign in (False, True):
            ctx.stats["obligations"] += 1
            status, calls = run("maxtoppm", ["-i"] if ign else [], result=False)
            exists = os.path.exists(outp)
            if (not ign and exists) or status == "ok" and not ign and exists:
                ctx.violation("cli:maxtoppm:output-kept-after-failure", f"maxtoppm: convert() failed, output file still there (status {status})", {})
            else:
                ctx.stats["identity"] += 1
    finally:
        import shutil

        shutil.rmtree(tmp, ignore_errors=True)


def replay(rec):
    print(rec.get("what"), rec.get("witness"))
    return True
