"""C05 - functions turned into procedure calls are evaluated once, first, and in order (E3).

Family: every convertible function alone, nested in every built-in / other convertible function (depth 2), and in
pairs, in every expression slot of every statement class, plus jump-targeted lines.  Both machines record one
evaluation event per call (function, argument terms); device functions return a fresh symbol per call index, so
order is observable in values.  z3 decides equality of the event arguments and final stores; the BASIC09 machine also
reports every temporary read before the same physical line assigned it.
"""
import itertools
import re

from vf import smt
from vf.core import Ctx, HarnessError, pmap, repo_source
from vf.realconv import classify
from vf.tv import equiv, lib as tvlib

CONV_N = {"INT": "INT ( {n} )", "VAL": "VAL ( {s} )", "INSTR": "INSTR ( 1 , {s} , {s} )", "BUTTON": "BUTTON ( {n} )",
          "JOYSTK": "JOYSTK ( {n} )", "POINT": "POINT ( {n} , {n} )"}
CONV_S = {"STR$": "STR$ ( {n} )", "HEX$": "HEX$ ( {n} )", "STRING$": "STRING$ ( {n} , {s} )", "INKEY$": "INKEY$"}
BUILT_N = {"ABS": "ABS ( {n} )", "LEN": "LEN ( {s} )", "ASC": "ASC ( {s} )", "PEEK": "PEEK ( {n} )", "paren": "( {n} )",
           "neg": "- {n}", "plus": "{n} + 1", "mul": "2 * {n}", "arr": "Q ( {n} )"}
BUILT_S = {"CHR$": "CHR$ ( {n} )", "LEFT$": "LEFT$ ( {s} , {n} )", "MID$": "MID$ ( {s} , {n} , {n} )", "cat": '{s} + "x"', "sarr": "R$ ( {n} )"}


def inst(t, n="X", s="X$"):
    return t.replace("{n}", n).replace("{s}", s)


def num_exprs():
    for k, t in CONV_N.items():
        yield ("top", k), inst(t)
    for ko, to in {**BUILT_N, **CONV_N}.items():
        oc = "builtin" if ko in BUILT_N else "conv"
        for ki, ti in CONV_N.items():
            if "{n}" in to:
                yield (oc + ":" + ko, ki), inst(to, n=inst(ti))
        for ki, ti in CONV_S.items():
            if "{s}" in to:
                yield (oc + ":" + ko, ki), inst(to, s=inst(ti))
    # two calls side by side: order must be source order
    for (k1, t1), (k2, t2) in itertools.product(CONV_N.items(), repeat=2):
        yield ("pair", k1 + "+" + k2), inst(t1, n="X") + " + " + inst(t2, n="Y")
    yield ("pair3", "JOYSTK"), "JOYSTK ( 0 ) * 100 + JOYSTK ( 1 ) * 10 + JOYSTK ( 0 )"
    # functions of several operands whose operands are calls themselves - directly and below an operator / built-in - with
    # and without one more call after them: every temporary must still hold its value when it is read
    for a, b, tail in itertools.product(("JOYSTK ( 0 )", "1 + JOYSTK ( 0 )"), ("JOYSTK ( 1 )", "3 + JOYSTK ( 1 )"), ("", " + BUTTON ( 0 )", " + INT ( V )")):
        yield ("multi", "POINT"), f"POINT ( {a} , {b} ){tail}"
    for a, s1, s2, tail in itertools.product(("INT ( X )", "1 + INT ( X )"), ("STR$ ( Y )", "LEFT$ ( STR$ ( Y ) , 2 )"), ("HEX$ ( W )", "RIGHT$ ( STR$ ( W ) , 1 )"), ("", " + INT ( V )")):
        yield ("multi", "INSTR"), f"INSTR ( {a} , {s1} , {s2} ){tail}"


def str_exprs():
    for k, t in CONV_S.items():
        yield ("top", k), inst(t)
    for ko, to in {**BUILT_S, **CONV_S}.items():
        oc = "builtin" if ko in BUILT_S else "conv"
        for ki, ti in CONV_N.items():
            if "{n}" in to:
                yield (oc + ":" + ko, ki), inst(to, n=inst(ti))
        for ki, ti in CONV_S.items():
            if "{s}" in to:
                yield (oc + ":" + ko, ki), inst(to, s=inst(ti))
    for (k1, t1), (k2, t2) in itertools.product(CONV_S.items(), repeat=2):
        yield ("pair", k1 + "+" + k2), inst(t1) + " + " + inst(t2, n="Y")
    for a, sx, tail in itertools.product(("INT ( X )", "1 + INT ( X )"), ("STR$ ( Y )", "LEFT$ ( STR$ ( Y ) , 1 )"), ("", " + STR$ ( V )", " + INKEY$")):
        yield ("multi", "STRING$"), f"STRING$ ( {a} , {sx} ){tail}"


CTX_N = {
    "assign": "10 Z = {e}", "assign-sub": "10 Q ( {e} ) = 1", "assign-sub-conv": "10 Q ( {e} ) = INT ( W )", "assign-sub-val": "10 Q ( {e} ) = JOYSTK ( 1 ) + 1",
    "if": "10 IF {e} = 1 THEN 20\n20 END", "ifstmt": "10 IF {e} = 1 THEN Z = 1", "ifelse": "10 IF {e} = 1 THEN 20 ELSE 30\n20 END\n30 END",
    "ifelseif": "10 IF {e} = 1 THEN Z = 1 ELSE IF {e} = 2 THEN Z = 2", "if-branch": "10 IF Y = 1 THEN Z = {e}",
    "else-branch": "10 IF Y = 1 THEN 10 ELSE Z = {e}", "elseif-branch": "10 IF Y = 1 THEN Z = 1 ELSE IF Y = 2 THEN Z = {e}",
    "final-else": "10 IF Y = 1 THEN Z = 1 ELSE IF Y = 2 THEN Z = 2 ELSE Z = {e}",
    "for-start": "10 FOR I = {e} TO 99 : GOTO 20 : NEXT I\n20 END", "for-limit": "10 FOR I = 1 TO {e} : GOTO 20 : NEXT I\n20 END",
    "for-step": "10 FOR I = 1 TO 99 STEP {e} : GOTO 20 : NEXT I\n20 END", "print": "10 PRINT {e}", "print2": "10 PRINT {e} ; {e}",
    "print@": '10 PRINT @ {e} , "X"', "on": "10 ON {e} GOTO 20 , 20\n20 END", "poke": "10 POKE {e} , 1", "sound": "10 SOUND {e} , {e}",
    "hset": "10 HSET ( {e} , 1 )", "hline": "10 HLINE ( 1 , {e} ) - ( 2 , 3 ) , PSET", "cls": "10 CLS {e}", "width": "10 WIDTH {e}",
    "read-sub": "10 READ Q ( {e} )\n20 DATA 5", "input-sub": "10 INPUT Q ( {e} )", "locate": "10 LOCATE {e} , 1", "hcircle-c": "10 HCIRCLE ( 1 , 2 ) , 3 , {e}",
    "hprint": "10 HPRINT ( 1 , 2 ) , {e}", "second-stmt": "10 W = 1 : Z = {e}", "after-rem": "10 REM X\n20 Z = {e}",
    "jump-target": "10 GOTO 30\n20 W = 5\n30 Z = {e}", "gosub-target": "10 GOSUB 30\n20 END\n30 Z = {e} : RETURN",
    "loop-body": "10 FOR I = 1 TO 2 : Z = Z + {e} : NEXT I", "if-target": "10 IF Y = 1 THEN 30\n20 W = 5\n30 Z = {e}",
    # the target is also an operand of the call; READ targets while an empty DATA item is present (filter path)
    "assign-self": "10 X = {e}", "assign-self-y": "10 Y = {e}", "read-sub-empty": "10 READ Q ( {e} )\n20 DATA 5 , , 7",
    "read-sub-empty2": "10 READ W , Q ( {e} )\n20 DATA , 5",
    "read-two-subs-empty": "10 READ Q ( {e} ) , Q ( INT ( W ) ) , Q ( INT ( V ) )\n20 DATA 5 , , 7 , 8",

    # the value operand of POKE, at ordinary addresses and at the two speed-poke addresses (whose value the tool folds away)
    "poke-value": "10 POKE 1024 , {e}", "poke-fast": "10 POKE 65497 , {e}", "poke-slow": "10 POKE 65496 , {e}", "poke-fast-hex": "10 POKE &HFFD9 , {e}",
    "sound-second": "10 SOUND 1 , {e}", "set-colour": "10 SET ( 1 , 2 , {e} )", "palette": "10 PALETTE {e} , 1", "hcolor": "10 HCOLOR 1 , {e}",
    # PRINT items that start with a sign or NOT, alone and after another item
    "print-neg": "10 PRINT - {e}", "print-neg-second": "10 PRINT Y ; - {e}", "print-not": "10 PRINT NOT {e}", "print@-neg": "10 PRINT @ 5 , - {e}",
    "assign-neg": "10 Z = - {e}",
    # conditions that chain three or more terms with AND / OR, the call in a middle term
    "if-and3": "10 IF Y = 1 AND {e} = 1 AND W = 2 THEN Z = 1", "if-or-and3": "10 IF V = 0 OR Y = 1 AND {e} = 1 AND W = 2 THEN Z = 1", "if-or3": "10 IF Y = 1 OR {e} = 1 OR W = 2 THEN Z = 1",
    "for-step-signed": "10 FOR I = 9 TO 1 STEP - {e} - 1 : GOTO 20 : NEXT I\n20 END",
    # every operand of the ellipse and arc forms of HCIRCLE (statement objects that wrap another statement object)
    "ellipse-x": "10 HCIRCLE ( {e} , 2 ) , 3 , 4 , 5", "ellipse-r": "10 HCIRCLE ( 1 , 2 ) , {e} , 4 , 5", "ellipse-c": "10 HCIRCLE ( 1 , 2 ) , 3 , {e} , 5",
    "ellipse-ratio": "10 HCIRCLE ( 1 , 2 ) , 3 , 4 , {e}", "ellipse-no-colour": "10 HCIRCLE ( 1 , {e} ) , 3 , , 5",
    "arc-y": "10 HCIRCLE ( 1 , {e} ) , 3 , 4 , 5 , 6 , 7", "arc-r": "10 HCIRCLE ( 1 , 2 ) , {e} , 4 , 5 , 6 , 7", "arc-ratio": "10 HCIRCLE ( 1 , 2 ) , 3 , 4 , {e} , 6 , 7",
    "arc-start": "10 HCIRCLE ( 1 , 2 ) , 3 , 4 , 5 , {e} , 7", "arc-end": "10 HCIRCLE ( 1 , 2 ) , 3 , , 5 , 6 , {e}", "arc-all": "10 HCIRCLE ( {e} , {e} ) , {e} , 4 , 5 , 6 , 7",
}
CTX_S = {"assign-self": "10 X$ = {e}", "assign": "10 Z$ = {e}", "if": '10 IF {e} = "A" THEN 20\n20 END', "ifelse": '10 IF {e} = "A" THEN Z = 1 ELSE Z = 2', "print": "10 PRINT {e}",
         "play": "10 PLAY {e}", "hprint": "10 HPRINT ( 1 , 2 ) , {e}", "hdraw": "10 HDRAW {e}", "sassign-sub": "10 R$ ( JOYSTK ( 0 ) ) = {e}",
         "jump-target": "10 GOTO 30\n20 W = 5\n30 Z$ = {e}"}

_LIB = None


def library():
    global _LIB
    if _LIB is None:
        _LIB = tvlib.load_library()
    return _LIB


def jobs_for(tier):
    jobs = []
    nctx = CTX_N if tier == "thorough" else {k: v for k, v in CTX_N.items() if k not in ("print2", "hline", "locate", "hset", "gosub-target")}
    for (cname, c), (ekey, e) in itertools.product(nctx.items(), list(num_exprs())):
        if tier == "quick" and ekey[0] == "pair" and cname not in ("assign", "assign-sub", "print", "if", "sound"):
            continue
        if ekey[0] == "multi" and cname not in ("assign", "print", "if", "sound", "assign-sub", "poke-value", "arc-all"):
            continue
        if tier == "quick" and (cname.startswith("ellipse") or cname.startswith("arc")) and ekey[0] not in ("top", "multi") and cname not in ("ellipse-x", "arc-start"):
            continue
        jobs.append((cname, ekey, c.replace("{e}", e)))
    for (cname, c), (ekey, e) in itertools.product(CTX_S.items(), list(str_exprs())):
        if tier == "quick" and ekey[0] == "pair" and cname not in ("assign", "print"):
            continue
        if ekey[0] == "multi" and cname not in ("assign", "print", "if"):
            continue
        jobs.append(("s:" + cname, ekey, c.replace("{e}", e)))
    return jobs


def norm(detail):
    d = re.sub(r"tmp_\d+\$?", "tmp", detail, flags=re.I)
    d = re.sub(r"TMP_\d+\$?", "tmp", d)
    d = re.sub(r"event \d+: ", "", d)
    d = re.sub(r"#\d+", "#k", d)
    d = re.sub(r"-?\b\d+(\.\d+)?\b", "N", d)
    d = re.sub(r"'[^']*'", "<tok>", d)
    d = re.sub(r'"[^"]*"', "<str>", d)
    return d[:90]


def check_one(job):
    cname, ekey, src = job
    st = smt.Stats()
    smt.STATS = st  # path-feasibility queries of the machines are charged to this job too
    out = {"job": job, "sigs": [], "counts": {}, "status": None}
    o = classify(src + "\n")
    out["status"] = o[0]
    if o[0] != "ok":
        if o[0] == "crash":
            out["sigs"].append((f"crash:{o[1]}:{cname}:{ekey[0].split(':')[0]}", f"convert() raised {o[1]}"))
        out["stats"] = st.export()
        return out
    res = equiv.compare(src, o[1], library=library(), stats=st)
    out["emitted"] = o[1]
    out["counts"] = dict(res.counts)
    out["status"] = res.status
    oc = ekey[0].split(":")[0]
    if res.status in ("refgap", "outside"):
        out["sigs"].append((f"harness-gap:{cname}", res.note))
    kinds = set()
    for f in res.findings:
        if f.kind in ("arity", "type-class", "missing-argument", "duplicate-decl", "uninitialised-read"):
            continue
        if f.kind == "type-error" and ("PRINT item" in f.detail or "condition" in f.detail):
            continue  # C01 / C03 subjects
        if f.kind == "nontermination":
            continue  # ELSE-IF chain without ELSE: control flow, C02's subject
        if f.kind == "unknown":
            out["sigs"].append(("unknown", f.detail))
            continue
        detail = norm(f.detail) if f.kind in ("syntax", "tmp-read-before-write", "type-error") else ""
        key = f"{f.kind}:{cname}:{'nested-in-' + oc if oc in ('builtin', 'conv') else oc}:{detail}"
        if key not in kinds:
            kinds.add(key)
            out["sigs"].append((key, f"{f.kind}: {f.detail}"))
    out["stats"] = st.export()
    return out


def run(tier):
    ctx = Ctx("C05", tier, "translation_validation", technique="translation validation with SMT: evaluation events (function, argument terms) of both symbolic machines compared in order; device results are fresh symbols per call index; z3 decides term equality")
    smt.reset_stats()
    jobs = jobs_for(tier)
    ctx.bounds.update({"programs": len(jobs), "nesting_depth": 2, "contexts": sorted(CTX_N) + sorted("s:" + k for k in CTX_S)})
    for rel in ("coco/b09/elements.py", "coco/b09/visitors.py", "coco/b09/parser.py", "coco/b09/compiler.py"):
        ctx.encode(rel + " (executed: real convert())", repo_source(rel))
    results = pmap(check_one, jobs, chunksize=64)
    statuses = {}
    for r in results:
        ctx.stats["programs"] += 1
        statuses[r["status"]] = statuses.get(r["status"], 0) + 1
        ctx.add_solver_stats(r["stats"])
        ctx.stats["states"] += r["counts"].get("cb_paths", 0) + r["counts"].get("b09_paths", 0)
        if r["sigs"]:
            ctx.stats["disagreements_checked"] += 1
        for sig, what in r["sigs"]:
            if sig == "unknown":
                ctx.note_inconclusive(f"{r['job'][2]!r}: {what}")
            elif sig.startswith("harness"):
                ctx.harness_gap(f"{r['job'][2]!r}: {what}")
                continue
            else:
                ctx.violation(sig, f"{r['job'][2]!r} -> {what}", {"source": r["job"][2], "emitted": r.get("emitted")})
    for r in results[:: max(1, len(results) // 8)]:
        ctx.sample({"source": r["job"][2], "emitted": (r.get("emitted") or "").strip()[:200], "status": r["status"]})
    ctx.extra["program_status"] = statuses
    ctx.add_solver_stats(smt.STATS.export())
    ctx.extra["solver"] = {"z3": smt.z3_version()}
    ctx.explanation = "each program is one obligation set: equal event sequences (calls, device RUNs, prints) and equal final stores for all operand values and device results"
    ctx.assume("Color BASIC evaluates operands left to right, innermost first; LET evaluates the target's subscripts before the value")
    ctx.assume("a procedure call assigns <function>(inputs) to its output parameter (contract); device results are arbitrary per call")
    return ctx


def replay(rec):
    src = rec["source"]
    o = classify(src + "\n")
    print(o)
    if o[0] != "ok":
        return o[0] == "crash"
    res = equiv.compare(src, o[1], library=library())
    for f in res.findings:
        print(f)
    return bool(res.findings)
