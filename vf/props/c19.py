"""C19 - see vf/props/dec.py (shared driver of the decoder properties)."""
from vf.props import dec


def run(tier):
    return dec.run_prop("C19", tier)


def replay(rec):
    return dec.replay(rec)
