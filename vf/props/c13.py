"""C13 - the emitted bundle contains exactly the procedures the program needs (linker + z3 Fixedpoint + E2).

For each program the real convert(output_dependencies=True) bundle is split into procedures by an independent reader;
the set that SHOULD be there is the least fixpoint of the RUN relation (edges parsed independently from the real
ecb.b09 and from the program part), computed by z3's Fixedpoint engine, and must equal the set present - once each,
alphabetical, program last, every RUN resolving inside the bundle or to an OS-9 system module, every STRING<<>>
replaced by the requested size, the program part identical to the output without dependencies.  z3 regex queries
over the three real procbank regexes decide that no user string-literal content can be taken for a call or a size
placeholder.
"""
import itertools
import re

import z3

from vf import rxsmt, smt
from vf.core import Ctx, HarnessError, pmap, repo_source
from vf.realconv import classify
from vf.tv import b09front, families, lib as tvlib
from vf.tv.lex import SyntaxErr

OPTS = dict(add_standard_prefix=True, add_suffix=True, output_dependencies=True, skip_procedure_headers=False, procname="prog")
_LIB = None


def library():
    global _LIB
    if _LIB is None:
        _LIB = tvlib.load_library()
    return _LIB


def split_bundle(text):
    """-> list of (name, body text) in order"""
    procs = []
    cur = None
    for line in text.split("\n"):
        m = re.match(r"(?i)^procedure\s+([\w-]+)\s*$", line)
        if m:
            cur = [m.group(1), []]
            procs.append(cur)
        elif cur is not None:
            cur[1].append(line)
        elif line.strip():
            procs.append(["<preamble>", [line]])
            cur = procs[-1]
    return [(n, "\n".join(b)) for n, b in procs]


def runs_in(body):
    """names invoked by RUN statements (independent reading: statement level, outside strings and comments)"""
    names = set()
    for raw in body.split("\n"):
        try:
            parts = b09front.split_statements(raw)
        except SyntaxErr:
            parts = [raw]
        for part in parts:
            t = re.sub(r"^\s*\d+\s+", "", part).strip()
            if t.startswith("(*") or re.match(r"(?i)rem\b", t):
                continue
            code = re.sub(r'"[^"]*"', '""', part)
            for m in re.finditer(r"(?i)\brun\s+(\w+)", code):
                names.add(m.group(1))
    return names


def reachable(roots, edges, universe):
    """least fixpoint by z3's Fixedpoint (datalog) engine"""
    names = sorted(universe)
    idx = {n: i for i, n in enumerate(names)}
    fp = z3.Fixedpoint()
    fp.set(engine="datalog")
    S = z3.BitVecSort(8)
    reach = z3.Function("reach", S, z3.BoolSort())
    edge = z3.Function("edge", S, S, z3.BoolSort())
    fp.register_relation(reach, edge)
    x, y = z3.Consts("x y", S)
    fp.declare_var(x, y)
    fp.rule(reach(y), [reach(x), edge(x, y)])
    for r in roots:
        if r in idx:
            fp.fact(reach(z3.BitVecVal(idx[r], 8)))
    for a, bs in edges.items():
        for b in bs:
            if a in idx and b in idx:
                fp.fact(edge(z3.BitVecVal(idx[a], 8), z3.BitVecVal(idx[b], 8)))
    out = set()
    for n in names:
        if str(fp.query(reach(z3.BitVecVal(idx[n], 8)))) == "sat":
            out.add(n)
    return out


def programs(tier):
    progs = []
    singles = [src for name, tag, src in families.device_programs(False) if tag == "vars"]
    singles += ["10 PRINT A", "10 Z = INT ( A )", "10 Z = VAL ( A$ )", "10 Z$ = STR$ ( A )", "10 Z$ = HEX$ ( A )", "10 Z = INSTR ( 1 , A$ , B$ )",
                "10 Z$ = STRING$ ( 3 , A$ )", "10 INPUT A", "10 READ A\n20 DATA ,", "10 A = 1", "10 ON ERR GOTO 10", "10 WIDTH 40"]
    for s in singles:
        progs.append(("single", s))
    pool = singles if tier == "thorough" else singles[::4]
    for a, b in itertools.combinations(pool, 2):
        la, lb = a.split("\n"), b.split("\n")
        progs.append(("pair", "\n".join(la + [re.sub(r"^(\d+)", lambda m: str(int(m.group(1)) + 100), ln) for ln in lb])))
    progs += [
        ("two-runs-one-line", "10 A = JOYSTK ( 0 ) + POINT ( 1 , 2 )"),
        ("two-runs-one-line", "10 PRINT INT ( A ) ; VAL ( B$ )"),
        ("two-runs-one-line", "10 A$ = HEX$ ( 1 ) + STRING$ ( 2 , B$ )"),
        ("three-runs-one-line", "10 A = BUTTON ( 0 ) + JOYSTK ( 1 ) + INSTR ( 1 , A$ , B$ )"),
        ("text-run-in-string", '10 PRINT "RUN ecb_sound"'),
        ("text-run-in-string", '10 A$ = " RUN ecb_hdraw(" : PRINT A$'),
        ("text-run-in-string", '10 PRINT "RUN ecb_hscreen" ; A$ ; "!"'),
        ("text-run-in-string", '10 PRINT "A" ; "RUN ecb_hcls" ; "B" ; "C"'),
        ("text-run-in-string", '10 A$ = "X" + "RUN ecb_play" + "Y" : B$ = "Z"'),
        ("text-run-in-data", "10 DATA RUN ecb_play , RUN ecb_hcls , X\n20 READ A$ , B$ , C$"),
        ("text-run-in-data", '10 DATA "RUN ecb_sound" , 1 , "Q"\n20 READ A$ , B , C$'),
        ("text-run-in-data", "10 DATA RUN ecb_play , X\n20 READ A$ , B$"),
        ("val-with-placeholder-procedures", "10 Z = VAL ( A$ ) : B$ = STRING$ ( 3 , A$ )"),
        ("val-with-placeholder-procedures", "10 PLAY A$ : Z = VAL ( A$ )"),
        ("val-with-placeholder-procedures", "10 HDRAW A$ : Z = VAL ( A$ ) : B$ = STRING$ ( 2 , A$ )"),
        ("backslash-in-literal-argument", '10 P = INSTR ( 1 , A$ , "\\" )'),
        ("backslash-in-literal-argument", '10 HPRINT ( 1 , 1 ) , "A\\B"'),
        ("backslash-in-literal-argument", '10 A$ = STRING$ ( 3 , "\\" ) : PLAY "C\\D"'),
        ("text-procedure-in-string", '10 PRINT "procedure ecb_cls"'),
        ("text-procedure-in-data", "10 DATA procedure foo\n20 READ A$"),
        ("text-placeholder-in-string", '10 PRINT "A: STRING<<>>"'),
        ("text-placeholder-in-data", "10 DATA : STRING<<>>\n20 READ A$"),
        ("text-run-in-comment", "10 REM RUN ecb_hdraw"),
        ("text-run-in-comment", "10 ' TO START TYPE RUN ecb_play NOW"),
        ("text-procedure-in-comment", "10 REM procedure ecb_cls"),
        ("text-control-chars", '10 A$ = "AB\x0cCD" : PRINT A$'),
        ("text-control-chars", "10 DATA \"A\x0bB\" , C\x1cD , E\x85F\n20 READ A$ , B$ , C$"),
        ("text-quote-balance", '10 PRINT "A" ; : HDRAW "U5" : PRINT "B"'),
        ("own-name", '10 PRINT "X" : REM RUN prog'),
        ("text-comment-marker-in-string", '10 A$ = HEX$ ( 3 ) + "(*"'),
        ("text-comment-marker-in-string", '10 PRINT STR$ ( 4 ) ; " REM"'),
        ("text-comment-marker-in-string", '10 A$ = STRING$ ( 3 , "(*" ) + STR$ ( 7 )'),
        ("text-comment-marker-in-string", '10 PRINT "REM" ; INT ( A ) ; "*)"'),
        ("text-comment-marker-in-string", "10 PRINT \"IT'S\" ; HEX$ ( A )"),
        ("text-comment-marker-in-data", "10 DATA (* X , REM\n20 READ A$ , B$ : PRINT INT ( A )"),
    ]
    # the requested procedure name: legal names are kept, others fall back to `program`; the bundle is complete either way
    for pn in ("hello", "hello ", "hello.world", "my game", "v2+", "a$", "9", "_x", "x-y", "", "PROG", "ecb_cls"):
        for src in ("10 A$ = HEX$ ( 3 )", '10 PRINT "X"'):
            progs.append(("procname:" + (re.sub(r"[a-z0-9]+", "w", pn.lower()) or "empty"), src, pn))
    return progs


def check_one(job):
    label, src, size = job[:3]
    procname = job[3] if len(job) > 3 and job[3] is not None else "prog"
    OPTS = dict(globals()["OPTS"], procname=procname)
    variant = job[4] if len(job) > 4 else "full"
    if variant in ("noprefix", "bare"):
        OPTS["add_standard_prefix"] = False
    if variant in ("nosuffix", "bare"):
        OPTS["add_suffix"] = False
    st = smt.Stats()
    smt.STATS = st
    out = {"job": job, "sigs": [], "status": None, "nprocs": 0}
    o = classify(src + "\n", plain=False, default_str_storage=size, **OPTS)
    out["status"] = o[0]
    if o[0] != "ok":
        out["detail"] = o[1]
        if o[0] == "crash":
            out["sigs"].append((f"crash:{label}:{o[1]}", f"convert() raised {o[1]}"))
        out["stats"] = st.export()
        return out
    plain = classify(src + "\n", plain=False, default_str_storage=size, **{**OPTS, "output_dependencies": False, "skip_procedure_headers": True})
    procs = split_bundle(o[1])
    out["nprocs"] = len(procs)
    names = [n for n, _ in procs]
    lib = library()

    def sig(kind, detail):
        out["sigs"].append((f"{kind}:{label}", detail))

    if not names or names[-1] not in (procname, "program"):
        sig("program-not-last", f"procedure order {names[-3:]} (requested name {procname!r})")
        out["stats"] = st.export()
        return out
    if "<preamble>" in names:
        sig("text-before-first-procedure", "bundle does not start with a procedure header")
    body = procs[-1][1]
    if plain[0] == "ok" and body.rstrip() != plain[1].rstrip():
        a, b = body.rstrip().split("\n"), plain[1].rstrip().split("\n")
        d = [(x, y) for x, y in itertools.zip_longest(a, b) if x != y][:1]
        sig("program-part-changed", f"program part differs from the output without dependencies: {d}")
    deps = names[:-1]
    if len(set(n.lower() for n in deps)) != len(deps):
        sig("procedure-twice", f"{[n for n in deps if [m.lower() for m in deps].count(n.lower()) > 1][:3]}")
    if deps != sorted(deps):
        sig("not-alphabetical", f"{deps[:6]}...")
    # expected closure: independent edges (library parsed by vf/tv/lib, program part parsed here), z3 fixedpoint
    edges = {n: {c.lower() for c, _, _ in p.runs} for n, p in lib.items()}
    edges["<prog>"] = {n.lower() for n in runs_in(plain[1] if plain[0] == "ok" else body)}
    universe = set(lib) | {"<prog>"}
    want = reachable({"<prog>"}, edges, universe) - {"<prog>"}
    got = {n.lower() for n in deps}
    missing, extra = sorted(want - got), sorted(got - want)
    if missing:
        sig("procedure-missing", f"reachable but absent: {missing[:4]}")
    if extra:
        sig("procedure-unreachable", f"present but not reachable through RUN: {extra[:4]}")
    # every RUN in the bundle resolves
    present = got | {names[-1].lower()}
    for n, b in procs:
        for callee in runs_in(b):
            c = callee.lower()
            if c not in present and c not in tvlib.SYSTEM_MODULES:
                sig("unresolved-run", f"{n} runs {callee}, which is not in the bundle")
    # placeholders
    if "<<>>" in o[1].replace(plain[1] if plain[0] == "ok" else "", ""):
        sig("placeholder-left", "STRING<<>> left in a bundled procedure")
    want_decl = ": STRING" if size == 32 else f": STRING[{size}]"
    for n, b in procs[:-1]:
        p = lib.get(n.lower())
        if p is None:
            continue
        src_lines = [ln for ln in p.lines if re.search(r"(?i)string<<>>", ln) and not ln.strip().startswith("(*")]
        outl = [ln for ln in b.split("\n") if re.search(r"(?i):\s*string(\[|\s*$|\s)", ln) and not ln.strip().startswith("(*")]
        for ln in src_lines:
            exp = re.sub(r"(?i):\s*STRING<<>>", want_decl, ln.rstrip("\r"))
            if exp.strip() not in [x.strip() for x in b.split("\n")]:
                sig("placeholder-wrong-size", f"{n}: expected line {exp.strip()!r}")
                break
    out["stats"] = st.export()
    return out


def regex_lemmas(ctx):
    from coco.b09 import procbank
    from coco.b09.grammar import grammar

    for nm in ("INVOKED_PROCEDURE_NAMES", "STR_STORAGE_TAG", "PROCEDURE_START_PREFIX"):
        ctx.encode("procbank." + nm, getattr(procbank, nm).pattern)
    anyc = z3.Full(z3.ReSort(z3.StringSort()))
    noq = z3.Star(z3.Intersect(z3.AllChar(z3.ReSort(z3.StringSort())), z3.Complement(z3.Re('"'))))
    q = z3.Re('"')
    even = z3.Concat(noq, z3.Star(z3.Concat(q, noq, q, noq)))
    odd = z3.Concat(even, q, noq)
    s = z3.String("line")
    for nm in ("INVOKED_PROCEDURE_NAMES", "STR_STORAGE_TAG"):
        try:
            body, ahead = rxsmt.split_trailing_lookahead(getattr(procbank, nm))
        except rxsmt.Unsupported as e:
            ctx.harness_gap(f"procbank.{nm} is no longer of the form body + trailing look-ahead ({e}): its lemma is not decided")
            continue
        # a balanced emitted line = prefix . match . rest; prefix has an odd number of quotes = the match starts inside a literal
        inside = z3.Concat(odd, z3.Intersect(body, noq), ahead)
        ctx.stats["obligations"] += 1
        v, m = smt.check([z3.InRe(s, inside), z3.InRe(s, even), z3.Length(s) <= 24], 30000, True)
        ctx.stats[v] += 1
        ctx.sample({"lemma": f"{nm} never matches inside a string literal of a quote-balanced line", "max_len": 24, "verdict": v})
        if v == "sat":
            line = rxsmt.z3str(m.eval(s, True).as_string())
            got = getattr(procbank, nm).findall(line)
            ctx.stats["traces_validated_against_impl"] += 1
            ctx.violation(f"regex-matches-inside-literal:{nm}", f"line {line!r}: findall -> {got}", {"line": line})
        elif v == "unknown":
            ctx.note_inconclusive("regex lemma " + nm)
    # every placeholder spelling used by the library is matched by STR_STORAGE_TAG
    tag = rxsmt.split_trailing_lookahead(procbank.STR_STORAGE_TAG)[0]
    text = tvlib.library_text()
    uses = sorted(set(m.group(0) for m in re.finditer(r"(?i):\s*string\s*<\s*<\s*>\s*>", text)))
    for u in uses:
        ctx.stats["obligations"] += 1
        v, _ = smt.check([z3.InRe(z3.StringVal(u), tag)], 10000)
        ctx.stats["unsat" if v == "sat" else "sat"] += 0
        if v != "sat":
            ctx.violation(f"placeholder-spelling-not-matched:{u}", f"library spelling {u!r} is not matched by STR_STORAGE_TAG", {"spelling": u})
        else:
            ctx.stats["identity"] += 1


def run(tier):
    ctx = Ctx("C13", tier, "translation_validation", technique="bundle linker with the reachable set computed by z3's Fixedpoint (datalog) engine over independently parsed RUN edges; z3 regex queries over the real procbank regexes")
    smt.reset_stats()
    progs = programs(tier)
    jobs = [(p[0], p[1], size) + tuple(p[2:3]) for p in progs for size in (32, 40)]
    jobs += [(p[0] + ":size16", p[1], 16) for p in progs if p[0] in ("single", "two-runs-one-line")]  # a size below BASIC09's 32
    # the bundle does not depend on whether the standard prologue / the error-handler suffix is emitted (the prologue is the
    # only RUN of many programs' output; without it the program's own calls are all there is)
    jobs += [(p[0] + ":" + variant, p[1], 40, None, variant) for p in progs if p[0] in ("single", "two-runs-one-line", "text-run-in-string", "text-run-in-comment") for variant in ("noprefix", "nosuffix", "bare")]
    ctx.bounds.update({"programs": len(progs), "sizes": [32, 40, 16], "options": OPTS, "option_variants": ["full", "noprefix", "nosuffix", "bare (single-statement programs)"]})
    for rel in ("coco/b09/procbank.py", "coco/b09/compiler.py"):
        ctx.encode(rel + " (executed: real convert())", repo_source(rel))
    ctx.encode("coco/resources/ecb.b09", tvlib.library_text())
    results = pmap(check_one, jobs, chunksize=8)
    for r in results:
        ctx.stats["programs"] += 1
        ctx.stats["obligations"] += 1
        if r.get("stats"):
            ctx.add_solver_stats(r["stats"])
        if r["sigs"]:
            ctx.stats["disagreements_checked"] += 1
        else:
            ctx.stats["identity"] += 1
        for sig, detail in r["sigs"]:
            ctx.violation(sig, f"{r['job'][1]!r} (size {r['job'][2]}) -> {detail}", {"source": r["job"][1], "default_str_storage": r["job"][2], "procname": (r["job"][3] if len(r["job"]) > 3 and r["job"][3] is not None else "prog"), "variant": (r["job"][4] if len(r["job"]) > 4 else "full")})
    for r in results[:: max(1, len(results) // 6)]:
        ctx.sample({"source": r["job"][1], "size": r["job"][2], "status": r["status"], "procedures_in_bundle": r["nprocs"]})
    regex_lemmas(ctx)
    ctx.add_solver_stats(smt.STATS.export())
    ctx.extra["solver"] = {"z3": smt.z3_version(), "engine": "Fixedpoint/datalog for reachability, regex theory for the lemmas"}
    ctx.explanation = "one program x size = one bundle obligation set; reachability via z3 Fixedpoint; regex lemmas via z3 strings"
    ctx.assume("OS-9 system modules: gfx, gfx2, syscall, inkey")
    return ctx


def replay(rec):
    if "source" in rec:
        r = check_one(("replay", rec["source"], rec.get("default_str_storage", 32), rec.get("procname", "prog"), rec.get("variant", "full")))
        print(r["sigs"])
        return bool(r["sigs"])
    return True
