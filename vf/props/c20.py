"""C20 - bundled string helpers compute the Color BASIC function they stand for (b09m on the real ecb.b09 text).

ecb_instr, ecb_string and ecb_read_filter are parsed from the real library and executed by the symbolic BASIC09
machine with interpreted LEN / MID$ / FIX: parameters are z3 strings (length <= K over a small alphabet) and numbers;
loops fork on feasibility (each path = one unrolling, with the unwinding bound asserted reachable); output parameters
start with an arbitrary previous value (they are passed by reference).  z3 decides, per path, that the value left in
the output parameter is the one Color BASIC defines.  Every loop is run under both readings of a zero-trip FOR.
"""
import re

import z3

from vf import smt
from vf.core import Ctx, HarnessError, repo_source
from vf.tv import b09front, lib as tvlib, machine
from vf.tv.lex import SyntaxErr

ALPHA = ("a", "b")


def load(proc):
    text = "\n".join(ln for ln in proc.lines)
    stmts = b09front.parse_program(text)
    prog = machine.lower(stmts, "b09")
    return prog


def aliased(proc, keep, gone):
    """the procedure as it runs when the caller passes ONE variable for the parameters `keep` and `gone` (BASIC09 passes
    variables by reference; the tool emits such calls for `A$ = STRING$(3, A$)`, `I = INSTR(I, A$, B$)`, `A = INT(A)`):
    every occurrence of `gone` names the storage of `keep`"""
    import types

    rx = re.compile(r"(?i)(?<![A-Za-z0-9_$])" + re.escape(gone) + r"(?![A-Za-z0-9_$])")
    lines = []
    for ln in proc.lines:
        m = re.match(r"(?i)^(\s*param\s+)([^:]*)(:.*)$", ln)
        if m:
            names = [n.strip() for n in m.group(2).split(",")]
            if gone.lower() in [n.lower() for n in names]:
                names = [n for n in names if n.lower() != gone.lower()]
                if not names:
                    continue
                ln = m.group(1) + ", ".join(names) + m.group(3)
            lines.append(ln)
        else:
            lines.append(rx.sub(keep, ln))
    return types.SimpleNamespace(lines=lines, params=[p_ for p_ in proc.params if p_[0].lower() != gone.lower()], name=proc.name if hasattr(proc, "name") else "")


def run_proc(proc, premises, for_semantics, step_bound):
    sem = machine.Sem("real")
    prog = load(proc)
    m = machine.Machine(prog, sem, init_mode="symbolic", interp_strings=True, for_semantics=for_semantics)
    st0 = machine.initial_state()
    consts = {}
    for name, dims, tname, slen in proc.params:
        kind = {"string": "s"}.get(tname, "n")
        consts[name.lower()] = sem.const("init_" + name.upper(), kind)
    st0.cond = list(premises(consts))
    leaves = m.run(st0, step_bound)
    return sem, m, consts, leaves


def str_ok(s, K):
    alpha = z3.Union(*[z3.Re(c) for c in ALPHA])
    return [z3.Length(s) <= K, z3.InRe(s, z3.Star(alpha))]


def integral(x, lo, hi):
    return [x == z3.ToReal(z3.ToInt(x)), x >= lo, x <= hi]


def final(leaf, m, name):
    return m.read_var(leaf, name.upper())[1]


def check_instr(ctx, lib, K, alias=False):
    proc = lib["ecb_instr"]
    ctx.encode("ecb.b09 procedure ecb_instr", "\n".join(proc.lines))
    if alias:
        proc = aliased(proc, "index", "outindex")  # I = INSTR(I, A$, B$) is emitted as run ecb_instr(I, A$, B$, I)
    verdicts = {}
    for sem_name in ("pretest", "bodyonce"):
        def premises(c):
            # the empty pattern occurs at every position of the subject: INSTR returns the start index (start inside the
            # subject; the corner start = LEN + 1 with an empty pattern is left out, ROM and definition differ there)
            return str_ok(c["str0"], K) + str_ok(c["str1"], K) + [z3.Or(z3.Length(c["str1"]) >= 1, z3.ToInt(c["index"]) <= z3.Length(c["str0"]))] + integral(c["index"], 1, K + 1)

        sem, m, c, leaves = run_proc(proc, premises, sem_name, 40 + 12 * K)
        if alias:
            c["outindex"] = c["index"]
        ctx.stats["states"] += len(leaves)
        s0, s1, idx = c["str0"], c["str1"], z3.ToInt(c["index"])
        n0, n1 = z3.Length(s0), z3.Length(s1)

        def match(p):
            return z3.And(p + n1 - 1 <= n0, z3.SubString(s0, p - 1, n1) == s1)

        r = z3.Int("ref_instr")
        ref = z3.Or(
            z3.And(r == 0, *[z3.Or(p < idx, z3.Not(match(z3.IntVal(p)))) for p in range(1, K + 2)]),
            z3.And(r >= idx, r >= 1, r <= K + 1, match(r), *[z3.Or(p < idx, p >= r, z3.Not(match(z3.IntVal(p)))) for p in range(1, K + 2)]),
        )
        bad = None
        reached_bound = False
        for leaf in leaves:
            ctx.stats["transitions"] += len(leaf.cond)
            if leaf.status == "bound":
                reached_bound = True
                continue
            out = final(leaf, m, "index" if alias else "outindex")
            ctx.stats["obligations"] += 1
            v, mdl = smt.check(list(leaf.cond) + [ref, out != z3.ToReal(r)], 60000, True)
            ctx.stats[v] += 1
            if v == "sat" and bad is None:
                bad = {k: str(mdl.eval(t, model_completion=True)) for k, t in (("str0", s0), ("str1", s1), ("index", c["index"]), ("previous outindex", c["outindex"]), ("expected", r), ("got", out))}
            elif v == "unknown":
                ctx.note_inconclusive(f"ecb_instr path under {sem_name}")
        if reached_bound:
            ctx.note_inconclusive(f"ecb_instr: a path exceeded the step bound under {sem_name}")
        verdicts[sem_name] = bad
        ctx.sample({"procedure": "ecb_instr", "for_reading": sem_name, "paths": len(leaves), "K": K, "counterexample": bad, "start index and result share one variable": alias})
    if all(v is not None for v in verdicts.values()):
        b = verdicts["pretest"]
        # classify by which clause of the definition fails on the (replayed) witness
        if alias:
            ctx.violation("ecb_instr:wrong-result:result-variable-is-the-start-index", f"I = INSTR(I, {b['str0']}, {b['str1']}) with I = {b['index']} (emitted as run ecb_instr(I, .., .., I); BASIC09 passes variables by reference): procedure leaves {b['got']}, Color BASIC gives {b['expected']} (both zero-trip readings)", {"witness": verdicts})
            return verdicts
        ctx.violation("ecb_instr:wrong-result", f"INSTR({b['index']}, {b['str0']}, {b['str1']}) with previous output {b['previous outindex']}: procedure leaves {b['got']}, Color BASIC gives {b['expected']} (both zero-trip readings)", {"witness": verdicts})
    elif any(v is not None for v in verdicts.values()):
        ctx.note_inconclusive("ecb_instr: verdict depends on whether a zero-trip FOR runs its body: " + str(verdicts))
    return verdicts


def check_string(ctx, lib, K, maxcount, alias=False):
    proc = lib["ecb_string"]
    ctx.encode("ecb.b09 procedure ecb_string", "\n".join(proc.lines))
    outname = "strout"
    if alias:
        proc = aliased(proc, "str", "strout")  # A$ = STRING$(3, A$) is emitted as run ecb_string(3.0, A$, A$)
        outname = "str"
    verdicts = {}
    for sem_name in ("pretest", "bodyonce"):
        def premises(c):
            return str_ok(c["str"], K) + (str_ok(c["strout"], K) if not alias else []) + integral(c["count"], -1, maxcount)

        sem, m, c, leaves = run_proc(proc, premises, sem_name, 30 + 6 * maxcount)
        if alias:
            c["strout"] = c["str"]
        ctx.stats["states"] += len(leaves)
        s, cnt = c["str"], z3.ToInt(c["count"])
        bad = None
        for leaf in leaves:
            ctx.stats["transitions"] += len(leaf.cond)
            if leaf.status == "bound":
                ctx.note_inconclusive(f"ecb_string: step bound reached under {sem_name}")
                continue
            ctx.stats["obligations"] += 1
            should_fail = z3.Or(cnt < 0, z3.Length(s) == 0)
            if leaf.status == "error":
                v, mdl = smt.check(list(leaf.cond) + [z3.Not(should_fail)], 60000, True)
                what = "error raised for a legal call"
            else:
                out = final(leaf, m, outname)
                first = z3.SubString(s, 0, 1)
                # expected: first character repeated count times
                rep = z3.StringVal("")
                exp = z3.StringVal("")
                disj = []
                for k in range(0, maxcount + 1):
                    disj.append(z3.And(cnt == k, out == exp))
                    exp = z3.Concat(exp, first)
                v, mdl = smt.check(list(leaf.cond) + [z3.Or(should_fail, z3.Not(z3.Or(*disj)))], 60000, True)
                what = "wrong result"
            ctx.stats[v] += 1
            if v == "sat" and bad is None:
                bad = {"what": what, "count": str(mdl.eval(c["count"], model_completion=True)), "str": str(mdl.eval(s, model_completion=True)),
                       "previous strout": str(mdl.eval(c["strout"], model_completion=True)), "got": "error" if leaf.status == "error" else str(mdl.eval(final(leaf, m, outname), model_completion=True))}
            elif v == "unknown":
                ctx.note_inconclusive(f"ecb_string path under {sem_name}")
        verdicts[sem_name] = bad
        ctx.sample({"procedure": "ecb_string", "for_reading": sem_name, "paths": len(leaves), "max_count": maxcount, "counterexample": bad})
    if alias and all(v is not None for v in verdicts.values()):
        b = verdicts["pretest"]
        ctx.violation(f"ecb_string:{b['what'].replace(' ', '-')}:result-variable-is-the-argument", f"A$ = STRING$({b['count']}, A$) with A$ = {b['str']} (emitted as run ecb_string(n, A$, A$); BASIC09 passes variables by reference): {b['what']}, procedure gives {b['got']} (both zero-trip readings)", {"witness": verdicts})
        return verdicts
    if all(v is not None for v in verdicts.values()):
        b = verdicts["pretest"]
        ctx.violation(f"ecb_string:{b['what'].replace(' ', '-')}:count={'0' if b['count'] == '0' else 'max' if b['count'] == str(maxcount) else 'n'}", f"STRING$({b['count']}, {b['str']}): {b['what']}, procedure gives {b['got']} (both zero-trip readings)", {"witness": verdicts})
    elif any(v is not None for v in verdicts.values()):
        ctx.note_inconclusive("ecb_string: verdict depends on whether a zero-trip FOR runs its body (STRING$(0, s)): " + str({k: v for k, v in verdicts.items() if v}))
    return verdicts


def check_string_argument_check(ctx, lib, K):
    """the error test of ecb_string for EVERY count in -2..256 (no unrolling: stop once the repeat loop is entered),
    plus one arbitrary iteration of the repeat loop (inductive step)"""
    proc = lib["ecb_string"]

    def premises(c):
        return str_ok(c["str"], K) + str_ok(c["strout"], K) + integral(c["count"], -2, 256)

    sem, m, c, leaves = run_proc(proc, premises, "pretest", 9)
    s, cnt = c["str"], z3.ToInt(c["count"])
    legal = z3.And(cnt >= 0, cnt <= 255, z3.Length(s) >= 1)
    for leaf in leaves:
        ctx.stats["states"] += 1
        ctx.stats["obligations"] += 1
        if leaf.status == "error":
            v, mdl = smt.check(list(leaf.cond) + [legal], 30000, True)
            what = "error for a legal call"
        else:
            v, mdl = smt.check(list(leaf.cond) + [z3.Or(cnt < 0, z3.Length(s) == 0)], 30000, True)
            what = "no error for an illegal call"
        ctx.stats[v] += 1
        ctx.sample({"procedure": "ecb_string", "obligation": "argument check for every count -2..256", "leaf": leaf.status, "verdict": v})
        if v == "sat":
            cv = mdl.eval(c["count"], model_completion=True)
            sv = mdl.eval(s, model_completion=True)
            boundary = "255" if str(cv) == "255" else "0" if str(cv) == "0" else "n"
            ctx.violation(f"ecb_string:{what.replace(' ', '-')}:count={boundary}", f"STRING$({cv}, {sv}): {what}", {"count": str(cv), "str": str(sv)})
        elif v == "unknown":
            ctx.note_inconclusive("ecb_string argument check")
    # inductive step: body of the FOR loop from an arbitrary state
    stmts = b09front.parse_program("\n".join(proc.lines))
    fors = [i for i, st in enumerate(stmts) if st[0] == "for"]
    nexts = [i for i, st in enumerate(stmts) if st[0] == "next"]
    if len(fors) != 1 or len(nexts) != 1:
        raise HarnessError("ecb_string: expected exactly one FOR loop")
    head = stmts[fors[0]]
    ctx.stats["obligations"] += 1
    if not (head[2] == ("num", 1.0) and head[3] == ("var", "COUNT") and head[4] is None):
        ctx.violation("ecb_string:loop-bounds", f"repeat loop is not `FOR v = 1 TO count`: {head}", {"loop": str(head)})
    else:
        ctx.stats["identity"] += 1
    # the statements before the loop run as they are (argument check, whatever they set up); then the output so far is
    # replaced by an arbitrary string (a parameter added for the purpose) and the loop body runs once
    lines = [ln for ln in proc.lines]
    li_for = [i for i, ln in enumerate(lines) if re.match(r"(?i)\s*for\b", ln)]
    li_next = [i for i, ln in enumerate(lines) if re.match(r"(?i)\s*next\b", ln)]
    if len(li_for) != 1 or len(li_next) != 1:
        raise HarnessError("ecb_string: expected exactly one FOR line")
    text = "\n".join(["param havoc_strout: string"] + lines[: li_for[0]] + ["strout = havoc_strout"] + lines[li_for[0] + 1 : li_next[0]])
    prog = machine.lower(b09front.parse_program(text), "b09")
    sem2 = machine.Sem("real")
    m2 = machine.Machine(prog, sem2, init_mode="symbolic", interp_strings=True, for_semantics="pretest")
    st0 = machine.initial_state()
    s_in, o_in = sem2.const("init_STR", "s"), sem2.const("init_HAVOC_STROUT", "s")
    st0.cond = str_ok(s_in, K) + [z3.Length(s_in) >= 1, z3.Length(o_in) <= 8, z3.ToInt(sem2.const("init_COUNT", "n")) >= 1] + integral(sem2.const("init_COUNT", "n"), 1, 255)
    for leaf in m2.run(st0, 30):
        ctx.stats["states"] += 1
        ctx.stats["obligations"] += 1
        if leaf.status == "error":
            ctx.violation("ecb_string:loop-step", "the statements before the loop raise an error for a legal call", {})
            continue
        out = m2.read_var(leaf, "STROUT")[1]
        v, mdl = smt.check(list(leaf.cond) + [out != z3.Concat(o_in, z3.SubString(s_in, 0, 1))], 30000, True)
        ctx.stats[v] += 1
        ctx.sample({"procedure": "ecb_string", "obligation": "one loop iteration appends exactly the first character", "verdict": v})
        if v == "sat":
            ctx.violation("ecb_string:loop-step", f"one iteration from strout={mdl.eval(o_in, model_completion=True)}, str={mdl.eval(s_in, model_completion=True)} gives {mdl.eval(out, model_completion=True)}", {})
        elif v == "unknown":
            ctx.note_inconclusive("ecb_string loop step")


def check_read_filter(ctx, lib):
    proc = lib["ecb_read_filter"]
    ctx.encode("ecb.b09 procedure ecb_read_filter", "\n".join(proc.lines))

    def premises(c):
        return [z3.Length(c["inval"]) <= 6]

    sem, m, c, leaves = run_proc(proc, premises, "pretest", 30)
    ctx.stats["states"] += len(leaves)
    val = sem.fn("B09_VAL", [z3.StringSort()], sem.sort)
    for leaf in leaves:
        ctx.stats["obligations"] += 1
        out = final(leaf, m, "outval")
        exp = z3.If(c["inval"] == z3.StringVal(""), sem.num(0.0), val(c["inval"]))
        v, mdl = smt.check(list(leaf.cond) + [out != exp], 30000, True)
        ctx.stats[v] += 1
        ctx.sample({"procedure": "ecb_read_filter", "path": [str(x) for x in leaf.cond][1:], "verdict": v})
        if v == "sat":
            item = mdl.eval(c["inval"], model_completion=True)
            prev = mdl.eval(c["outval"], model_completion=True)
            ctx.violation(f"ecb_read_filter:{'empty' if str(item) == '\"\"' else 'non-empty'}-item", f"item {item} with previous value {prev}: procedure leaves {mdl.eval(out, model_completion=True)}", {"item": str(item), "previous": str(prev)})
        elif v == "unknown":
            ctx.note_inconclusive("ecb_read_filter path")


def data_spellings(n_models):
    """numeric spellings of DATA items: a fixed list of magnitudes plus strings drawn by z3 from the language of the real
    num_literal regex (distinct models, blanks and signs included)"""
    from coco.b09.grammar import grammar

    from vf import rxsmt

    fixed = ["1", "-3.25", "0.0015", "1E10", "1E-10", "2.5E-12", "1.5 E -11", ".000000001234", "123456789", "1E38", "-1E-38", ".5", "5.", "00012",
             "1 E 3", "+7", "- 2", "6.02E+23", "9.999999999E-5", "0", "-0", "1E-5", "4.9E-10", "5.1E-10", "&HFF", "&H 1F"]
    pat = grammar["num_literal"].re.pattern
    L = rxsmt.lang(pat)
    s = z3.String("spelling")
    got = []
    base = [z3.InRe(s, L), z3.Length(s) <= 9, z3.Length(s) >= 1]
    block = []
    for _ in range(n_models):
        v, m = smt.check(base + block, 10000, True)
        if v != "sat":
            break
        val = rxsmt.z3str(m.eval(s, True).as_string())
        got.append(val)
        block.append(s != z3.StringVal(val))
        # steer towards variety: forbid the same length + first character combination more than a few times
    return fixed, got


def check_data_items(ctx, tier):
    """the transpiler's half of the empty-DATA filter: when a DATA list has an empty item every numeric item is rewritten
    as a string for ecb_read_filter to VAL(); the string must spell the same number the source item spells"""
    from vf.realconv import classify

    ctx.encode("visitors.BasicReadStatementPatcherVisitor.visit_data_statement", repo_source("coco/b09/visitors.py"))
    fixed, drawn = data_spellings(12 if tier == "quick" else 60)
    ctx.bounds["data_item_spellings"] = {"fixed": len(fixed), "drawn_from_num_literal_by_z3": len(drawn)}
    for sp in fixed + drawn:
        src = f"10 DATA {sp} , , 7\n20 READ A , B , C"
        o = classify(src + "\n")
        ctx.stats["programs"] += 1
        ctx.stats["obligations"] += 1
        if o[0] != "ok":
            ctx.stats["identity"] += 1  # refused spellings are C15's subject
            continue
        mline = re.search(r"(?m)^\s*(?:\d+\s+)?DATA (.*)$", o[1])
        if not mline:
            ctx.harness_gap(f"no DATA line in the output for {src!r}")
            continue
        first = mline.group(1).split(",")[0].strip()
        txt = sp.replace(" ", "")
        try:
            want = float(int(txt[2:], 16)) if txt.upper().startswith("&H") else float(txt)
        except ValueError:
            ctx.stats["identity"] += 1
            continue
        item = first.strip('"')
        try:
            got = float(item)
        except ValueError:
            got = None
        if got is not None and got == want and first.startswith('"'):
            ctx.stats["identity"] += 1
        else:
            mag = "tiny" if want != 0 and abs(want) < 1e-6 else "huge" if abs(want) >= 1e12 else "ordinary"
            ctx.violation(f"data-item-value:{mag}", f"DATA item {sp!r} (= {want!r}) is handed to ecb_read_filter as {first} (= {got!r})", {"source": src, "emitted": o[1]})


def check_filter_call_sites(ctx):
    """the call sites: when ANY DATA statement of the program has an empty item, every READ into a numeric variable or
    array element goes through ecb_read_filter and every DATA item of every DATA statement is a quoted string (so that the
    filter can be handed the empty one); with no empty item nothing is rewritten"""
    from vf.realconv import classify

    layouts = [("first", ["DATA , 7", "DATA 8 , 9"]), ("middle", ["DATA 1 , 2", "DATA 3 ,", "DATA 8 , 9"]), ("last", ["DATA 1 , 2", "DATA , 9"]),
               ("only", ["DATA 1 , , 3"]), ("none", ["DATA 1 , 2", "DATA 3 , 4"]), ("after-read", ["DATA 1 , 2"]), ("leading-and-hex", ["DATA , &HFF", "DATA 2"])]
    reads = ["READ A , B , C , D", "READ A ( 1 ) , B , C$ , D", "READ A : READ B : READ Q ( I )"]
    for lname, datas in layouts:
        for rd in reads:
            lines = [f"10 {rd}"] + [f"{20 + 10 * i} {d}" for i, d in enumerate(datas)]
            if lname == "after-read":
                lines.append("90 DATA ,")
            src = "\n".join(lines)
            o = classify(src + "\n")
            ctx.stats["programs"] += 1
            ctx.stats["obligations"] += 1
            if o[0] != "ok":
                ctx.stats["identity"] += 1
                continue
            has_empty = lname != "none"
            text = o[1]
            nfilter = len(re.findall(r"(?i)RUN ecb_read_filter\(", text))
            targets = re.findall(r"[A-Z]+\$?(?: \( [^)]* \))?", rd.replace("READ", ""))
            numeric_targets = len([t for t in re.split(r"[,:]", rd.replace("READ", "")) if t.strip() and "$" not in t])
            data_items = [it.strip() for ln in text.split("\n") for m in [re.match(r"\s*(?:\d+\s+)?DATA (.*)$", ln)] if m for it in m.group(1).split(",")]
            unquoted = [it for it in data_items if not it.startswith('"')]
            ok = (nfilter == numeric_targets and not unquoted) if has_empty else (nfilter == 0)
            if ok:
                ctx.stats["identity"] += 1
            else:
                ctx.violation(f"filter-call-site:empty-item-in-{lname}-data-statement", f"{src!r}: {nfilter} filter calls for {numeric_targets} numeric READ targets, unquoted DATA items {unquoted[:3]} (empty item present: {has_empty})", {"source": src, "emitted": text})


def check_function_call_sites(ctx):
    """the call sites of the two string helpers: whatever the count / start index is spelled as (0, 1, 2, 255, a variable,
    an expression, start index omitted), STRING$ and INSTR reach their procedure with exactly the source operands - nothing
    is folded away at conversion time.  Both machines run source and emitted text; the helper is one uninterpreted
    function on both sides, so z3 finds the difference as soon as a call is replaced by something else."""
    from vf.realconv import classify
    from vf.tv import equiv

    lib = tvlib.load_library()
    counts = ["0", "1", "2", "3", "255", "1.0", "&H1", "N", "N + 1", "LEN ( B$ )", "1 * 1"]
    strs = ["A$", '"XY"', '""', 'A$ + "Q"', "LEFT$ ( A$ , 2 )"]
    progs = [f"10 Z$ = STRING$ ( {c} , {sx} )" for c in counts for sx in strs]
    progs += [f"10 PRINT STRING$ ( {c} , A$ ) ; \"|\"" for c in counts[:5]] + [f'10 IF STRING$ ( {c} , A$ ) = "X" THEN Z = 1' for c in counts[:5]]
    starts = ["1", "2", "0", "255", "N", "N + 1", "1.0", "&H1"]
    progs += [f"10 Z = INSTR ( {st} , A$ , B$ )" for st in starts] + ["10 Z = INSTR ( A$ , B$ )", '10 Z = INSTR ( 1 , A$ , "" )', '10 Z = INSTR ( 1 , "" , B$ )', "10 Z = INSTR ( 1 , A$ , A$ )",
                                                                     "10 IF INSTR ( 1 , A$ , B$ ) = 0 THEN Z = 1", "10 PRINT INSTR ( 2 , A$ , B$ )", "10 Q ( INSTR ( 1 , A$ , B$ ) ) = 1"]
    for src in progs:
        o = classify(src + "\n")
        ctx.stats["programs"] += 1
        if o[0] != "ok":
            ctx.stats["obligations"] += 1
            ctx.stats["identity"] += 1  # refusals are C15's subject
            continue
        res = equiv.compare(src, o[1], library=lib)
        ctx.stats["obligations"] += max(1, res.counts.get("obligations", 0))
        ctx.stats["identity"] += res.counts.get("identity", 0)
        if res.status in ("refgap", "outside"):
            ctx.harness_gap(f"{src!r}: {res.note}")
            continue
        bad = [f for f in res.findings if f.kind in ("value-differs", "trace-differs", "syntax", "type-error")]
        if bad:
            fn = "STRING$" if "STRING$" in src else "INSTR"
            m = re.search(r"(STRING\$|INSTR) \( ([^,]*?) ,", src)
            first = (m.group(2) if m else "omitted").strip()
            cls = first if re.fullmatch(r"[0-9.&H]+", first) else "expression" if " " in first or "(" in first else "omitted" if first.endswith("$") else "variable"
            ctx.violation(f"call-site:{fn}:first-operand={cls}:{bad[0].kind}", f"{src!r} -> {o[1].strip()!r}: {bad[0].kind}: {bad[0].detail[:120]}", {"source": src, "emitted": o[1]})
    ctx.bounds["call_site_programs"] = len(progs)


def run(tier):
    ctx = Ctx("C20", tier, "model_checking", technique="symbolic execution of the real ecb.b09 procedures by the BASIC09 machine over z3 strings (bounded length, interpreted LEN/MID$/FIX), loops unrolled by path forking, both zero-trip FOR readings; z3 decides result = Color BASIC definition per path")
    smt.reset_stats()
    lib = tvlib.load_library()
    K = 3 if tier == "quick" else 6
    maxcount = 4 if tier == "quick" else 12
    ctx.bounds.update({"string_length_max": K, "alphabet": list(ALPHA), "instr_start": f"1..{K + 1}", "string_count": f"-1..{maxcount}", "loop_unrolling": "by path forking up to the bounds; step bound per path"})
    for name in ("ecb_instr", "ecb_string", "ecb_read_filter"):
        if name not in lib:
            raise HarnessError(f"library has no procedure {name}")
    check_instr(ctx, lib, K)
    check_string(ctx, lib, K, maxcount)
    # the same two procedures called the way the tool calls them when the assignment target is also an argument
    check_instr(ctx, lib, K, alias=True)
    check_string(ctx, lib, K, maxcount, alias=True)
    check_string_argument_check(ctx, lib, K)
    check_read_filter(ctx, lib)
    check_data_items(ctx, tier)
    check_filter_call_sites(ctx)
    check_function_call_sites(ctx)
    ctx.stats["traces_validated_against_impl"] += 0
    ctx.add_solver_stats(smt.STATS.export())
    ctx.extra["solver"] = {"z3": smt.z3_version()}
    ctx.assume("BASIC09 semantics of the interpreted fragment: 1-based MID$(s, i, n) = n characters from position i, LEN, string =, FIX on non-negative values, FOR with integer control variable, parameters passed by reference")
    ctx.assume("INSTR: pattern non-empty, start >= 1 (integral); STRING$: count integral; VAL is uninterpreted (the same function as BASIC09's)")
    ctx.assume("there is no BASIC09 interpreter to replay on: counterexamples are re-evaluated on the model (z3 model evaluation of both sides)")
    return ctx


def replay(rec):
    print(rec.get("witness") or rec)
    return True
