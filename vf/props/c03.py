"""C03 - arrays, DATA/READ, PRINT, INPUT and string functions keep their meaning (E3 + E5).

PRINT lists (every arrangement of items and ; , juxtaposition), INPUT / LINE INPUT forms, DATA/READ/RESTORE
arrangements, array store/load with symbolic subscripts, nested string functions: source on the Color BASIC machine,
real convert() output on the BASIC09 machine, z3 decides equality of events and stores.  DIM bounds are symbolic
(real BasicDimStatement run on a z3 integer): extent = bound+1 and the fill loop covers 0..bound for every bound.
With initialize_vars=True the BASIC09 machine starts from undefined storage and reports every read of a variable or
element that nothing initialised.
"""
import itertools
import re

import z3

from vf import smt, symproxy
from vf.core import Ctx, HarnessError, pmap, repo_source
from vf.realconv import classify
from vf.tv import equiv, families, lib as tvlib

_LIB = None


def library():
    global _LIB
    if _LIB is None:
        _LIB = tvlib.load_library()
    return _LIB


# ----------------------------------------------------------------------------- families
def input_programs():
    return [
        "10 INPUT A", "10 INPUT A$", "10 INPUT A , B$", "10 INPUT A , B , C", '10 INPUT "P" ; A', '10 INPUT "P" ; A , B$ , C',
        '10 INPUT "" ; A', '10 INPUT "WHAT? " ; A$', "10 INPUT Q ( 1 )", "10 INPUT Q ( I ) , R$ ( J )", '10 INPUT "P" ; Q ( 2 , 3 )',
        "10 LINE INPUT A$", '10 LINE INPUT "P" ; A$', '10 LINE INPUT "" ; A$', "10 LINE INPUT R$ ( 1 )",
        "10 INPUT A : PRINT A", "10 INPUT A$ : B$ = A$ + A$", '10 IF Z = 1 THEN INPUT "P" ; A ELSE LINE INPUT "Q" ; A$',
        '10 IF Z = 1 THEN PRINT "X" ELSE IF Z = 2 THEN PRINT "Y" ELSE INPUT "R" ; A',
    ] + [f'10 {kw} "{p}" ; A$' for kw in ("INPUT", "LINE INPUT") for p in prompts()]


def prompts():
    """every prompt text of up to two characters over { letter, question mark, blank, colon } (what the prompt ends with
    must not change what INPUT appends to it)"""
    import itertools

    alpha = ("P", "?", " ", ":")
    return [a + b for a in alpha for b in alpha] + ["?", ":", " ", "READY?", "WHY ? "]


DATA_ITEMS = {"int": "1", "real": "2.5", "neg": "- 3", "exp": "1E3", "hex": "&HFF", "quoted": '"Q S"', "unquoted": "UN Q", "empty": ""}
NUMERIC_ITEMS = {"int", "real", "neg", "exp", "hex", "empty"}


def data_programs(tier):
    """DATA lines x READ lists; every READ target has the type of its item; empty items are read numerically and as strings"""
    progs = []
    kinds = list(DATA_ITEMS)
    combos = []
    for n in (1, 2, 3):
        for c in itertools.product(kinds, repeat=n):
            if tier == "quick" and n == 3 and len(set(c)) < 3:
                continue
            combos.append(c)
    for c in combos:
        for split in range(1, len(c) + 1):
            if tier == "quick" and split not in (1, len(c)):
                continue
            l1, l2 = c[:split], c[split:]
            for empty_as in ("n", "s"):
                if "empty" not in c and empty_as == "s":
                    continue
                targets = []
                ni = si = 0
                for k in c:
                    numeric = k in NUMERIC_ITEMS and not (k == "empty" and empty_as == "s")
                    if numeric:
                        ni += 1
                        targets.append(f"N{ni}" if ni != 2 else "Q ( 1 )")
                    else:
                        si += 1
                        targets.append(f"S{si}$" if si != 2 else "R$ ( 1 )")
                lines = ["10 READ " + " , ".join(targets)]
                lines.append("20 DATA " + " , ".join(DATA_ITEMS[k] for k in l1))
                if l2:
                    lines.append("30 DATA " + " , ".join(DATA_ITEMS[k] for k in l2))
                progs.append(("data:" + "+".join(c) + ":" + empty_as, "\n".join(lines)))
    # order across lines, RESTORE, READ spread over statements, DATA before READ
    first = "N1"
    progs += [
        ("data:restore", "10 READ A , B\n20 RESTORE\n30 READ C\n40 DATA 1 , 2 , 3"),
        ("data:restore-mid", "10 READ A : RESTORE : READ B , C\n40 DATA 1 , 2 , 3"),
        ("data:before-read", "10 DATA 1 , 2\n20 READ A , B"),
        ("data:interleaved", "10 DATA 1\n20 READ A\n30 DATA 2\n40 READ B\n50 DATA 3\n60 READ C"),
        ("data:two-reads", "10 READ A : READ B$ : READ C\n20 DATA 1 , X , 3"),
        ("data:branch", "10 IF Z = 1 THEN READ A ELSE READ A , B\n20 READ C\n30 DATA 1 , 2 , 3"),
        ("data:loop", "10 FOR I = 1 TO 3 : READ A : T = T + A : NEXT I\n20 DATA 1 , 2 , 3"),
        ("data:same-line", "10 DATA 1 , 2 : READ A , B"),
        ("data:empty-restore", "10 READ A , B : RESTORE : READ C\n20 DATA , 5"),
        ("data:empty-two-lines", "10 READ A , B , C , D , E\n20 DATA 7 , , 9\n30 DATA 4 , 5"),
        ("data:empty-last-line", "10 READ A , B , C , D\n20 DATA 7 , 9\n30 DATA , 5"),
        ("data:empty-overwrite", "10 A = 7 : READ A , B\n20 DATA , 5"),
        ("data:hex-boundary", "10 READ A , B , C , D\n20 DATA &H7FFF , &H8000 , &H8001 , &HFFFF"),
        ("data:hex-boundary-empty", "10 READ A , B , C\n20 DATA &H7FFF , &H8000 ,"),
        ("data:hex-boundary-print", "10 PRINT &H8000 ; &H7FFF : Z = &H8000"),
    ]
    # unquoted items are data up to the next comma / colon / line end: every other character belongs to the item
    for nm, item in (("apostrophe", "IT'S"), ("apostrophe-first", "'TIS"), ("apostrophe-last", "DOGS'"), ("question", "WHO?"), ("semicolon", "A;B"), ("parens", "F(1)"),
                     ("operators", "A+B=C"), ("rem-word", "REMARK"), ("keyword", "PRINT X"), ("hash-bang", "#1!"), ("blank-inside", "NEW  YORK"), ("digits-then-text", "12 MONKEYS")):
        progs.append((f"data:unquoted-{nm}", f"10 READ S1$ , S2$ , N1\n20 DATA {item} , {item} , 7"))
        progs.append((f"data:unquoted-{nm}-last", f"10 READ N1 , S1$\n20 DATA 7 , {item}\n30 Z = 1"))
    return progs


def array_programs():
    return [
        ("arr:store-load", "10 DIM Q ( 5 ) : Q ( I ) = V : Z = Q ( J )"),
        ("arr:store-load-2d", "10 DIM Q ( 2 , 3 ) : Q ( I , J ) = V : Z = Q ( K , L )"),
        ("arr:store-load-3d", "10 DIM Q ( 2 , 3 , 4 ) : Q ( I , J , K ) = V : Z = Q ( K , J , I )"),
        ("arr:implicit", "10 Q ( I ) = V : Z = Q ( J )"),
        ("arr:implicit-str", '10 R$ ( I ) = V$ : Z$ = R$ ( J )'),
        ("arr:str", "10 DIM R$ ( 5 ) : R$ ( I ) = V$ : Z$ = R$ ( J ) + R$ ( I )"),
        ("arr:two-stores", "10 DIM Q ( 5 ) : Q ( I ) = V : Q ( J ) = W : Z = Q ( I )"),
        ("arr:scalar-vs-array", "10 DIM Q ( 5 ) : Q = 7 : Q ( 1 ) = 8 : Z = Q + Q ( 1 )"),
        ("arr:num-vs-str", '10 Q ( 1 ) = 8 : Q$ ( 1 ) = "X" : Z = Q ( 1 ) : Z$ = Q$ ( 1 )'),
        ("arr:expr-subscript", "10 DIM Q ( 9 ) : Q ( I + 1 ) = V : Z = Q ( 2 * J )"),
        ("arr:hex-dim", "10 DIM Q ( &H10 ) : Q ( I ) = V : Z = Q ( J )"),
    ] + [(f"arr:element-gets-{fn.split(' ')[0]}{'-let' if let else ''}{'-dim' if dim else ''}", f"10 {dim}{let}{tgt} = {fn} : Z{'$' if '$' in tgt else ''} = {tgt}")
         for tgt, fn in (("Q ( 2 )", "VAL ( A$ )"), ("Q ( I )", "INT ( V )"), ("Q ( I )", "INSTR ( 1 , A$ , B$ )"), ("R$ ( 1 )", "STR$ ( V )"), ("R$ ( I )", "STRING$ ( 3 , A$ )"),
                         ("R$ ( I )", "HEX$ ( V )"), ("Q ( I , J )", "VAL ( A$ )"), ("Q ( I )", "LEN ( A$ )"), ("R$ ( I )", "LEFT$ ( A$ , 2 )"), ("Q ( I )", "VAL ( A$ ) + 1"))
         for let in ("", "LET ") for dim in ("", "DIM Q ( 5 , 5 ) , R$ ( 5 ) : " if "," in tgt else "DIM Q ( 5 ) , R$ ( 5 ) : ")]


def string_function_programs():
    exprs = [
        "LEFT$ ( A$ , 2 )", "RIGHT$ ( A$ , N )", "MID$ ( A$ , 2 , 3 )", "LEFT$ ( A$ + B$ , N )", "MID$ ( LEFT$ ( A$ , 4 ) , 2 , 1 )",
        "CHR$ ( ASC ( A$ ) )", "STR$ ( LEN ( A$ ) )", "CHR$ ( N ) + CHR$ ( N + 1 )", "STRING$ ( N , A$ )", 'STRING$ ( 3 , "AB" )',
        "HEX$ ( N )", "STR$ ( VAL ( A$ ) )", "RIGHT$ ( STR$ ( N ) , 2 )",
    ]
    nexprs = ["LEN ( A$ )", "ASC ( A$ )", "VAL ( A$ )", "INSTR ( 1 , A$ , B$ )", "INSTR ( N , A$ , B$ )", "LEN ( LEFT$ ( A$ , 2 ) )",
              "ASC ( MID$ ( A$ , N , 1 ) )", "VAL ( MID$ ( A$ , 2 , 2 ) )", "LEN ( A$ ) + LEN ( B$ )", "INSTR ( 1 , A$ + B$ , \"X\" )"]
    progs = [("strfn:" + e, "10 Z$ = " + e) for e in exprs] + [("strfn:" + e, "10 Z = " + e) for e in nexprs]
    progs += [("strfn-if:" + e, f'10 IF {e} = "A" THEN Z = 1') for e in exprs[:6]]
    return progs


def init_programs():
    """read every kind of variable; used with initialize_vars=True and undefined BASIC09 storage"""
    return [
        ("init:scalar", "10 Z = A + 1"), ("init:str", "10 Z$ = A$ + \"X\""), ("init:print", "10 PRINT A ; A$"),
        ("init:if", "10 IF A = 0 THEN Z = B"), ("init:else-arm", '10 IF A = 1 THEN Z = 1 ELSE Z = B'),
        ("init:final-else", '10 IF A = 1 THEN Z = 1 ELSE IF A = 2 THEN Z = 2 ELSE Z = B'),
        ("init:for", "10 FOR I = A TO B + 2 : T = T + I : NEXT I"), ("init:on", "10 ON A + 1 GOTO 20 , 20\n20 Z = B"),
        ("init:dim-array", "10 DIM Q ( 3 ) : Z = Q ( 2 ) + Q ( 0 ) + Q ( 3 )"), ("init:dim-array-2d", "10 DIM Q ( 1 , 2 ) : Z = Q ( 1 , 2 ) + Q ( 0 , 0 )"),
        ("init:dim-str-array", "10 DIM R$ ( 2 ) : Z$ = R$ ( 0 ) + R$ ( 2 )"), ("init:implicit-array", "10 Z = Q ( 10 ) + Q ( 0 )"),
        ("init:implicit-str-array", "10 Z$ = R$ ( 10 )"), ("init:scalar-and-dim-array", "10 DIM A ( 5 )\n20 B = A + A ( 1 )"),
        ("init:str-scalar-and-dim-array", '10 DIM N$ ( 3 )\n20 M$ = N$ + N$ ( 1 )'), ("init:scalar-and-implicit-array", "10 B = A + A ( 1 )"),
        ("init:long-names", "10 SCORE = SC + 1 : NAME$ = NA$ + \"X\""), ("init:dim-scalar", "10 DIM A , B$ : Z = A : Z$ = B$"),
        ("init:in-function", "10 Z = ABS ( A ) + LEN ( B$ )"), ("init:read-then-use", "10 READ A : Z = A + B\n20 DATA 4"),
        ("init:device-operand", "10 SOUND A , B"), ("init:poke", "10 POKE A , B"), ("init:subscript", "10 DIM Q ( 5 ) : Z = Q ( I )"),
        ("init:gosub", "10 GOSUB 30\n20 END\n30 Z = A : RETURN"), ("init:second-line", "10 Z = 1\n20 Y = A + Z"),
        ("init:for-variable-read-before-loop", '10 IF K = 0 THEN PRINT "FIRST"\n20 FOR K = 1 TO 3 : NEXT K'), ("init:for-variable-in-subroutine", "10 GOSUB 40\n20 FOR I = 1 TO 2 : NEXT I\n30 END\n40 Z = I : RETURN"),
        ("init:for-limit-variable", "10 FOR I = 1 TO N : NEXT I : Z = I + N"), ("init:next-variable-only", "10 Z = J\n20 FOR J = 1 TO 2\n30 NEXT"),
        ("init:hoisted-arg", "10 Z = INT ( A )"), ("init:print-number", "10 PRINT A + 0"), ("init:input-then-use", "10 INPUT A : Z = A + B"),
    ]


def check_one(job):
    label, src, mode = job
    st = smt.Stats()
    smt.STATS = st  # path-feasibility queries of the machines are charged to this job too
    out = {"job": job, "sigs": [], "counts": {}, "status": None}
    opts = dict(initialize_vars=True) if mode == "zero" else {}
    o = classify(src + "\n", **opts)
    out["status"] = o[0]
    if o[0] != "ok":
        out["detail"] = o[1]
        out["stats"] = st.export()
        return out
    res = equiv.compare(src, o[1], library=library(), init_mode="zero" if mode == "zero" else "symbolic", stats=st, step_bound=250)
    out["emitted"] = o[1]
    out["counts"] = dict(res.counts)
    out["status"] = res.status
    if res.status == "refgap":
        out["sigs"].append(("harness-gap:" + label, res.note))
    if res.status == "outside":
        out["stats"] = st.export()
        return out  # the source itself is ill-typed / outside the reference semantics: not an obligation
    family = label.split(":")[0]
    seen = set()
    for f in res.findings:
        if f.kind in ("arity", "type-class", "missing-argument", "duplicate-decl"):
            continue
        if f.kind == "uninitialised-read" and mode != "zero":
            continue
        if f.kind == "unknown":
            out["sigs"].append(("unknown", f.detail))
            continue
        d = re.sub(r"event \d+: ", "", f.detail)
        d = re.sub(r"TMP_\d+", "tmp", d)
        d = re.sub(r'"[^"]*"', "<str>", d)
        d = re.sub(r"-?\d+(\.\d+)?", "N", d)
        d = re.sub(r"'[^']*'", "<tok>", d)[:70]
        if family == "print":
            key = f"{f.kind}:print:{d if f.kind in ('type-error', 'syntax') else ''}"
        elif family == "data":
            key = f"{f.kind}:{label if not label.count('+') else 'data-items'}:{d if f.kind in ('type-error', 'syntax') else ''}"
        else:
            key = f"{f.kind}:{label}:{d if f.kind in ('type-error', 'syntax', 'uninitialised-read') else ''}"
        if key not in seen:
            seen.add(key)
            out["sigs"].append((key, f"{f.kind}: {f.detail}"))
    out["stats"] = st.export()
    return out


def dim_bounds(ctx):
    """E5: real DIM emission with a symbolic bound, decimal and hex spelling, 1-3 dimensions, with and without fill loops"""
    from coco.b09 import compiler, elements as el
    from coco.b09.prog import BasicProg

    ctx.encode("elements.BasicDimStatement (constructor, basic09_text, init_text_for_var)", repo_source("coco/b09/elements.py"))
    n = z3.Int("bound")
    for hexlit, ndims, init in itertools.product((False, True), (1, 2), (False, True)):
        def build():
            def lit(k):
                if k > 0:
                    return el.BasicLiteral(3) if not hexlit else el.HexLiteral("3")
                if hexlit:
                    h = object.__new__(el.HexLiteral)
                    el.AbstractBasicExpression.__init__(h, is_str_expr=False)
                    h._literal = symproxy.SInt(n)
                    h._is_float = False
                    return h
                return el.BasicLiteral(symproxy.SInt(n))

            ref = el.BasicArrayRef(el.BasicVar("A"), el.BasicExpressionList([lit(k) for k in range(ndims)]))
            return BasicProg([el.BasicLine(10, el.BasicStatements([el.BasicDimStatement([ref])]))])

        def fn():
            prog = build()

            class G:
                @staticmethod
                def parse(text):
                    return None

            class V:
                def visit(self, tree):
                    return prog

            og, ov = compiler.grammar, compiler.BasicVisitor
            compiler.grammar, compiler.BasicVisitor = G, V
            try:
                return compiler.convert("", add_standard_prefix=False, add_suffix=False, initialize_vars=init)
            finally:
                compiler.grammar, compiler.BasicVisitor = og, ov

        saved = {k: el.__dict__.get(k) for k in ("hex", "int")}
        el.hex, el.int = symproxy.sym_hex, symproxy.sym_int
        try:
            paths = symproxy.explore(fn, premises=[n >= 0, n <= 32766])
        finally:
            for k, v in saved.items():
                if v is None:
                    del el.__dict__[k]
                else:
                    setattr(el, k, v)
        ctx.stats["states"] += len(paths)
        for pc, (stt, text), holes in paths:
            if stt != "ok":
                ctx.violation(f"dim-symbolic-bound:{'hex' if hexlit else 'dec'}:{stt}:{type(text).__name__ if stt == 'exc' else text}", f"DIM with symbolic bound: {stt} {text!r}", {"hex": hexlit, "dims": ndims, "initialize_vars": init, "path": [str(c) for c in pc]})
                continue
            tpl = symproxy.split_template(text)
            shape = "".join(p if isinstance(p, str) else "#" for p in tpl)
            hs = [p for p in tpl if isinstance(p, int)]
            m = re.match(r"10 DIM arr_A\(\$?#", shape)
            if not m or not hs:
                raise HarnessError(f"DIM template not recognised: {shape!r}")
            # first hole: extent of dimension 1; fill loop upper bound: `FOR tmp_1 = 0 TO #`
            ctx.stats["obligations"] += 1
            ext = holes[hs[0]][1]
            v, mdl = smt.check(list(pc) + [ext != n + 1], 10000, True)
            ctx.stats[v] += 1
            ctx.sample({"obligation": "declared extent = bound + 1", "hex": hexlit, "dims": ndims, "initialize_vars": init, "template": shape[:80], "verdict": v})
            if v == "sat":
                val = mdl.eval(n, True).as_long()
                ctx.violation(f"dim-extent:{'hex' if hexlit else 'dec'}", f"DIM A({val}): declared extent differs from {val + 1}; template {shape!r}", {"bound": val})
            if init:
                fm = re.search(r"FOR tmp_1 = 0 TO \$?#", shape)
                if not fm:
                    ctx.violation(f"dim-fill-loop-missing:{'hex' if hexlit else 'dec'}", f"no fill loop in {shape!r}", {})
                else:
                    # which hole is the loop bound: count holes before that position
                    idx = shape[:fm.end()].count("#") - 1
                    ub = holes[hs[idx]][1]
                    ctx.stats["obligations"] += 1
                    v, mdl = smt.check(list(pc) + [ub != n], 10000, True)
                    ctx.stats[v] += 1
                    ctx.sample({"obligation": "fill loop runs 0..bound", "hex": hexlit, "dims": ndims, "verdict": v})
                    if v == "sat":
                        val = mdl.eval(n, True).as_long()
                        ctx.violation(f"dim-fill-loop-bound:{'hex' if hexlit else 'dec'}", f"DIM A({val}) with initialize_vars: fill loop does not end at {val}; template {shape!r}", {"bound": val})


def capacity(ctx, progs=None):
    from vf.props.c10 import collect_decls, collect_uses
    from vf.tv import b09front
    from vf.tv.lex import SyntaxErr

    size = 80
    if progs is None:
        progs = string_function_programs() + [("strfn-print:" + e, "10 PRINT " + e) for e in ("STRING$ ( 40 , \"*\" )", "STR$ ( N ) + HEX$ ( N )", "LEFT$ ( A$ , 2 ) + STR$ ( N )")]
    for label, src in progs:
        o = classify(src + "\n", default_str_storage=size)
        ctx.stats["programs"] += 1
        if o[0] != "ok":
            continue
        try:
            stmts = b09front.parse_program(o[1])
        except SyntaxErr:
            continue  # C07's subject
        decls, problems, uses = {}, [], []
        collect_decls(stmts, decls, [0], problems)
        collect_uses(stmts, uses, [0])
        for name in sorted({u[1].upper() for u in uses if u[1].endswith("$")}):
            ctx.stats["obligations"] += 1
            d = decls.get(name)
            cap = 32 if d is None or d[2] is None else d[2]
            if cap == size:
                ctx.stats["identity"] += 1
            else:
                cls = "temp" if name.startswith("TMP_") else "variable"
                ctx.violation(f"capacity:{cls}:{label.split(':')[0]}", f"{src!r} with default_str_storage={size}: {name} holds {cap} characters, so a longer function result is cut", {"source": src, "mode": "sym", "emitted": o[1]})


def run(tier):
    ctx = Ctx("C03", tier, "translation_validation", technique="translation validation with SMT (both symbolic machines over real convert() output; z3 decides event/store equality; undefined BASIC09 storage for initialisation) + real DIM emission on a symbolic bound")
    smt.reset_stats()
    jobs = []
    for pl in families.print_lists(3 if tier == "thorough" else 2):
        jobs.append(("print:" + pl, "10 PRINT " + pl, "sym"))
        jobs.append(("print:@" + pl, "10 PRINT @ 5 , " + pl, "sym"))
    for src in input_programs():
        jobs.append(("input:" + src[3:], src, "sym"))
        jobs.append(("input:" + src[3:], src, "zero"))
    for label, src in data_programs(tier):
        jobs.append((label, src, "sym"))
    for label, src in data_programs("quick")[-12:]:
        jobs.append((label, src, "zero"))
    for label, src in array_programs() + string_function_programs():
        jobs.append((label, src, "sym"))
    for label, src in init_programs() + array_programs():
        jobs.append((label, src, "zero"))
    ctx.bounds.update({"programs": len(jobs), "print_items_max": 3 if tier == "thorough" else 2, "data_items_max": 3, "dim_bound": "0..32766 symbolic", "step_bound": 250})
    for rel in ("coco/b09/grammar.py", "coco/b09/parser.py", "coco/b09/elements.py", "coco/b09/visitors.py", "coco/b09/compiler.py"):
        ctx.encode(rel + " (executed: real convert())", repo_source(rel))
    results = pmap(check_one, jobs, chunksize=32)
    statuses = {}
    for r in results:
        ctx.stats["programs"] += 1
        statuses[r["status"]] = statuses.get(r["status"], 0) + 1
        ctx.add_solver_stats(r["stats"])
        ctx.stats["states"] += r["counts"].get("cb_paths", 0) + r["counts"].get("b09_paths", 0)
        if r["status"] == "crash":
            ctx.stats["crashes_seen(C15)"] += 1
        if r["sigs"]:
            ctx.stats["disagreements_checked"] += 1
        for sig, what in r["sigs"]:
            if sig == "unknown":
                ctx.note_inconclusive(f"{r['job'][1]!r}: {what}")
            elif sig.startswith("harness"):
                ctx.harness_gap(f"{r['job'][1]!r}: {what}")
                continue
            else:
                ctx.violation(sig, f"{r['job'][1]!r} [{r['job'][2]}] -> {what}", {"source": r["job"][1], "mode": r["job"][2], "emitted": r.get("emitted")})
    for r in results[:: max(1, len(results) // 8)]:
        ctx.sample({"source": r["job"][1], "mode": r["job"][2], "status": r["status"], "emitted": (r.get("emitted") or "")[:150]})
    # Results of string functions must not be cut: with a requested default string size every string the program
    # touches - including the temporaries that carry hoisted function results - has that capacity.
    capacity(ctx)
    # string capacity must not depend on what this process converted before (a scalar DIMmed by an earlier program)
    from vf.props import c11 as _c11

    _c11.history(ctx)
    # The two machines treat INSTR, STRING$ and the empty-DATA filter as contracts (the same function on both sides).
    # Discharge them here by interpreting the library text (the C20 obligations), so that a change to the library that
    # breaks a string function is a C03 finding too.
    from vf.core import ContractCtx
    from vf.props import c20

    lib = tvlib.load_library()
    cctx = ContractCtx(ctx)
    K = 3
    c20.check_instr(cctx, lib, K)
    c20.check_string(cctx, lib, K, 4)
    c20.check_instr(cctx, lib, K, alias=True)
    c20.check_string(cctx, lib, K, 4, alias=True)
    c20.check_read_filter(cctx, lib)
    from vf.props import contracts

    contracts.check_str(cctx, lib)
    contracts.check_val(cctx, lib)
    ctx.bounds["contracts_discharged"] = {"procedures": ["ecb_instr", "ecb_string", "ecb_read_filter", "ecb_str (result ends with the last digit)"], "string_length_max": K, "string_count_max": 4}
    ctx.extra["program_status"] = statuses
    dim_bounds(ctx)
    ctx.add_solver_stats(smt.STATS.export())
    ctx.extra["solver"] = {"z3": smt.z3_version()}
    ctx.explanation = "programs = family members; mode zero = initialize_vars=True with undefined BASIC09 storage"
    ctx.assume("juxtaposed PRINT items behave as `;`; an empty string literal prints nothing; numeric items are compared through the number-formatter contract")
    ctx.assume("ecb_read_filter contract: 0 for the empty item, the item's numeric value otherwise (checked against the library text by C20)")
    ctx.assume("string functions shared by both dialects are the same uninterpreted function; out-of-range arguments, numeric DATA read into strings and non-integer subscripts are outside")
    return ctx


def replay(rec):
    src = rec["source"]
    mode = rec.get("mode", "sym")
    o = classify(src + "\n", **(dict(initialize_vars=True) if mode == "zero" else {}))
    print(o)
    if o[0] != "ok":
        return o[0] == "crash"
    res = equiv.compare(src, o[1], library=library(), init_mode="zero" if mode == "zero" else "symbolic", step_bound=250)
    for f in res.findings:
        print(f)
    return bool(res.findings)
