"""Contracts of runtime procedures that the translation-validation checks assume, discharged on the library text.

The two symbolic machines of vf/tv treat a converted function as the same uninterpreted function on both sides
(`RUN ecb_int(v, r)` assigns INT(v) to r).  That is only as good as the procedure behind it.  Here the BASIC09
machine executes the real text of the small, self-contained procedures over z3 reals / strings and z3 decides that
the output parameter is what Color BASIC defines - or yields the argument for which it is not.

INT     ecb_int        floor(v)            (BASIC09's own INT drops the fraction toward zero)
HEX$    _ecb_hex_digit one hex digit       ecb_hex: the digits of v without leading zeros
STR$    ecb_str        Color BASIC: sign character (blank or '-') followed by the digits, nothing after them
What BASIC09's STR$ / VAL / LAND do with their arguments is not modelled (uninterpreted): only facts that hold for every
possible behaviour of those built-ins are decided.
"""
import z3

from vf import smt
from vf.props import c20

HEXD = z3.StringVal("0123456789ABCDEF")


class LibCalls:
    """stands in for the reference map while a library procedure runs: inner RUNs follow their own contract"""

    def b09_run(self, m, st, name, args):
        n = name.lower()
        if n == "_ecb_hex_digit":
            x = m.num(st, args[0])
            m.assign(st, args[1], ("s", z3.SubString(HEXD, z3.ToInt(x) % 16, 1)))
            return
        raise machine_error(f"inner RUN {name} has no contract here")


class HavocCalls:
    """inner RUNs of device procedures: the variables in the listed output positions receive an arbitrary value, the same
    one for the same (callee, call number, position) in every run, so that two runs of one procedure can be compared"""

    OUT = {"gfx": {"joystk": (2, 3, 4)}, "_ecb_get_point_info": (2, 3, 4)}

    def __init__(self, sem):
        self.sem = sem

    def b09_run(self, m, st, name, args):
        n = name.lower()
        spec = self.OUT.get(n)
        if isinstance(spec, dict):
            key = args[0][1].lower() if args and args[0][0] == "str" else None
            spec = spec.get(key)
        if spec is None:
            raise machine_error(f"inner RUN {name} has no havoc contract here")
        st.devcount += 1
        for pos in spec:
            a = args[pos]
            if a[0] not in ("var", "idx"):
                raise machine_error(f"inner RUN {name}: output position {pos} is not a variable")
            kind = m.kind_of_name(a[1])
            hv = self.sem.const(f"havoc_{n}_{st.devcount}_{pos}", kind)
            if kind == "n":
                # the device procedures return INTEGER readings
                st.cond += [hv == z3.ToReal(z3.ToInt(hv)), hv >= -32768, hv <= 32767]
            m.assign(st, a, (kind, hv))


def check_alias_equivalence(ctx, lib, procname, keep, gone, premises, label):
    """the procedure called with ONE variable for the parameters `keep` (an argument) and `gone` (the result) leaves in it
    what the ordinary call leaves in the result parameter - for all arguments and all device readings (havoc)"""
    from vf.tv import machine

    proc = lib[procname]
    ctx.encode(f"ecb.b09 procedure {procname}", "\n".join(proc.lines))
    found = {}
    for reading in ("trunc", "round"):  # how LAND turns its REAL operands into integers: decided under both readings
        old = machine.Sem.int_conversion
        machine.Sem.int_conversion = reading
        try:
            runs = {}
            for alias in (False, True):
                pr = c20.aliased(proc, keep, gone) if alias else proc
                sem = machine.Sem("real")
                m = machine.Machine(c20.load(pr), sem, init_mode="symbolic", interp_strings=True, for_semantics="pretest", refmap=HavocCalls(sem))
                st0 = machine.initial_state()
                consts = {}
                for name, dims, tname, slen in pr.params:
                    consts[name.lower()] = sem.const("init_" + name.upper(), {"string": "s"}.get(tname, "n"))
                st0.cond = list(premises(consts))
                leaves = m.run(st0, 120)
                runs[alias] = [(lf, c20.final(lf, m, keep if alias else gone)) for lf in leaves]
            bad = None
            for la, oa in runs[False]:
                for lb, ob in runs[True]:
                    ctx.stats["obligations"] += 1
                    if la.status != lb.status:
                        v, mdl = smt.check(list(la.cond) + list(lb.cond), 20000, True)
                        what = f"ordinary call ends with {la.status}, shared-variable call with {lb.status}"
                    elif la.status == "error":
                        ctx.stats["identity"] += 1  # both raise the error: no result to compare
                        continue
                    else:
                        v, mdl = smt.check(list(la.cond) + list(lb.cond) + [oa != ob], 20000, True)
                        what = "results differ"
                    ctx.stats[v] += 1
                    if v == "sat" and bad is None:
                        bad = (what, {str(d): str(mdl[d]) for d in mdl.decls() if str(d).startswith(("init_", "havoc_"))}, str(mdl.eval(oa, True)), str(mdl.eval(ob, True)))
                    elif v == "unknown":
                        ctx.note_inconclusive(f"{procname} alias equivalence ({reading})")
                        bad = bad or "unknown"
            found[reading] = bad
            ctx.sample({"procedure": procname, "obligation": f"{label}: same result with {keep} and {gone} in one variable", "land_operands": reading, "paths": [len(runs[False]), len(runs[True])], "counterexample": bad})
        finally:
            machine.Sem.int_conversion = old
    if all(isinstance(b, tuple) for b in found.values()):
        bad = found["trunc"]
        ctx.violation(f"{procname}:result-variable-is-an-argument:{keep}", f"{label} (emitted as RUN {procname}(.., V, .., V)): {bad[0]}; ordinary call gives {bad[2]}, the call the tool emits gives {bad[3]} for {bad[1]} (under both readings of LAND's operand conversion)", {"witness": bad[1]})


def machine_error(msg):
    from vf.core import HarnessError

    return HarnessError(msg)


def run_proc(proc, premises, step_bound=80):
    from vf.tv import machine

    sem = machine.Sem("real")
    prog = c20.load(proc)
    m = machine.Machine(prog, sem, init_mode="symbolic", interp_strings=True, for_semantics="pretest", refmap=LibCalls())
    st0 = machine.initial_state()
    consts = {}
    for name, dims, tname, slen in proc.params:
        consts[name.lower()] = sem.const("init_" + name.upper(), {"string": "s"}.get(tname, "n"))
    st0.cond = list(premises(consts))
    return sem, m, consts, m.run(st0, step_bound)


def integral(x, lo, hi):
    return [x == z3.ToReal(z3.ToInt(x)), x >= lo, x <= hi]


def check_int(ctx, lib, alias=False):
    proc = lib["ecb_int"]
    ctx.encode("ecb.b09 procedure ecb_int", "\n".join(proc.lines))
    if alias:
        proc = c20.aliased(proc, "v", "retval")  # A = INT(A) is emitted as RUN ecb_int(A, A); variables go by reference
    # the procedure corrects BASIC09's truncation with `v - 0.999999999`: values within 1e-9 below an integer are outside
    from vf.tv.machine import floor_witness

    pre = []
    holder = {}

    def premises(c):
        holder["fl"] = floor_witness(pre, c["v"])  # floor(v), by witness
        return pre + [z3.Or(c["v"] >= 0, c["v"] - z3.ToReal(holder["fl"]) <= z3.RealVal("999999999/1000000000")), c["v"] >= -100000, c["v"] <= 100000]

    sem, m, c, leaves = run_proc(proc, premises)
    for leaf in leaves:
        ctx.stats["obligations"] += 1
        out = c20.final(leaf, m, "v" if alias else "retval")
        v, mdl = smt.check(list(leaf.cond) + [out != z3.ToReal(holder["fl"])], 30000, True)
        ctx.stats[v] += 1
        ctx.sample({"procedure": "ecb_int", "path": [str(x) for x in leaf.cond][-1:], "verdict": v, "argument and result share one variable": alias})
        if v == "sat":
            if alias:
                ctx.violation("ecb_int:not-floor:result-variable-is-the-argument", f"A = INT(A) with A = {mdl.eval(c['v'], True)} (emitted as RUN ecb_int(A, A)): procedure leaves {mdl.eval(out, True)}", {"v": str(mdl.eval(c["v"], True))})
                continue
            ctx.violation("ecb_int:not-floor", f"INT({mdl.eval(c['v'], True)}): procedure gives {mdl.eval(out, True)}", {"v": str(mdl.eval(c["v"], True))})
        elif v == "unknown":
            ctx.note_inconclusive("ecb_int path")


def check_val(ctx, lib):
    """VAL(s) in Color BASIC is 0 for text that spells no number; BASIC09's VAL raises an error for it.  ecb_val must
    return 0 then (whatever its result parameter held before - it is passed by reference) and BASIC09's value otherwise.
    Which texts fail is left open (uninterpreted predicate): decided for every such predicate."""
    from vf.tv import machine

    proc = lib["ecb_val"]
    ctx.encode("ecb.b09 procedure ecb_val", "\n".join(proc.lines))
    sem = machine.Sem("real")
    m = machine.Machine(c20.load(proc), sem, init_mode="symbolic", interp_strings=True, for_semantics="pretest", refmap=LibCalls())
    m.val_may_fail = True
    st0 = machine.initial_state()
    c = {}
    for name, dims, tname, slen in proc.params:
        c[name.lower()] = sem.const("init_" + name.upper(), {"string": "s"}.get(tname, "n"))
    fails = z3.Function("VAL_FAILS", z3.StringSort(), z3.BoolSort())
    val = sem.fn("B09_VAL", [z3.StringSort()], sem.sort)
    want = z3.If(fails(c["str"]), sem.num(0.0), val(c["str"]))
    leaves = m.run(st0, 60)
    seen_fail_path = False
    for leaf in leaves:
        ctx.stats["obligations"] += 1
        if leaf.status not in ("end", "stop"):
            v, mdl = smt.check(list(leaf.cond), 20000, True)
            ctx.stats[v] += 1
            if v == "sat":
                ctx.violation("ecb_val:ends-with-an-error", f"VAL({mdl.eval(c['str'], True)}): the procedure ends with {leaf.status}; Color BASIC returns 0 for text that is no number", {"str": str(mdl.eval(c["str"], True))})
            continue
        out = c20.final(leaf, m, "valout")
        v, mdl = smt.check(list(leaf.cond) + [out != want], 20000, True)
        ctx.stats[v] += 1
        seen_fail_path = seen_fail_path or any("VAL_FAILS" in str(x) and not str(x).startswith("Not") for x in leaf.cond)
        ctx.sample({"procedure": "ecb_val", "path": [str(x) for x in leaf.cond][-1:], "verdict": v})
        if v == "sat":
            failing = z3.is_true(mdl.eval(fails(c["str"]), True))
            ctx.violation("ecb_val:" + ("text-that-is-no-number" if failing else "numeric-text"), f"VAL({mdl.eval(c['str'], True)}) with the result variable holding {mdl.eval(c['valout'], True)} before the call: the procedure leaves {mdl.eval(out, True)}, Color BASIC gives {mdl.eval(want, True)}", {"str": str(mdl.eval(c["str"], True)), "previous": str(mdl.eval(c["valout"], True))})
        elif v == "unknown":
            ctx.note_inconclusive("ecb_val path")
    if not seen_fail_path:
        from vf.core import HarnessError

        raise HarnessError("ecb_val: the error path of VAL was never reached (vacuous contract check)")


def check_hex_digit(ctx, lib):
    proc = lib["_ecb_hex_digit"]
    ctx.encode("ecb.b09 procedure _ecb_hex_digit", "\n".join(proc.lines))
    sem, m, c, leaves = run_proc(proc, lambda c: integral(c["v"], 0, 15))
    for leaf in leaves:
        ctx.stats["obligations"] += 1
        out = c20.final(leaf, m, "s")
        v, mdl = smt.check(list(leaf.cond) + [out != z3.SubString(HEXD, z3.ToInt(c["v"]), 1)], 30000, True)
        ctx.stats[v] += 1
        ctx.sample({"procedure": "_ecb_hex_digit", "path": [str(x) for x in leaf.cond][-1:], "verdict": v})
        if v == "sat":
            d = mdl.eval(c["v"], True)
            ctx.violation("ecb_hex:digit:" + ("letter" if int(str(d)) >= 10 else "decimal"), f"hex digit {d}: procedure gives {mdl.eval(out, True)}", {"digit": str(d)})
        elif v == "unknown":
            ctx.note_inconclusive("_ecb_hex_digit path")


def hex_expected(v):
    """Color BASIC HEX$(v), 0 <= v <= 65535: the hex digits of v without leading zeros"""
    iv = z3.ToInt(v)
    d = [z3.SubString(HEXD, (iv / (16 ** k)) % 16, 1) for k in (3, 2, 1, 0)]
    return z3.If(iv >= 4096, z3.Concat(d[0], d[1], d[2], d[3]), z3.If(iv >= 256, z3.Concat(d[1], d[2], d[3]), z3.If(iv >= 16, z3.Concat(d[2], d[3]), d[3])))


def check_hex_length(ctx, lib):
    """HEX$(v) for every v in 0..65535.  How BASIC09 turns the REAL operands of LAND into integers is not known here:
    the procedure is run under both readings (drop the fraction / round).  Wrong under both = finding; verdicts that
    differ = inconclusive."""
    proc = lib["ecb_hex"]
    ctx.encode("ecb.b09 procedure ecb_hex", "\n".join(proc.lines))
    # (1) no leading zeros: the result is one character, or does not start with "0" - under both readings of LAND
    from vf.tv import machine

    lead = {}
    for reading in ("trunc", "round"):
        old = machine.Sem.int_conversion
        machine.Sem.int_conversion = reading
        try:
            sem, m, c, leaves = run_proc(proc, lambda c: integral(c["v"], 0, 65535), step_bound=160)
            lead[reading] = None
            for leaf in leaves:
                if leaf.status not in ("end", "stop"):
                    if leaf.status == "bound":
                        lead[reading] = "unknown"
                    continue
                ctx.stats["obligations"] += 1
                out = c20.final(leaf, m, "str")
                v, mdl = smt.check(list(leaf.cond) + [z3.Length(out) > 1, z3.PrefixOf(z3.StringVal("0"), out)], 30000, True)
                ctx.stats[v] += 1
                if v == "sat" and lead[reading] is None:
                    lead[reading] = (str(mdl.eval(c["v"], True)), str(mdl.eval(out, True)))
                elif v == "unknown":
                    lead[reading] = "unknown"
        finally:
            machine.Sem.int_conversion = old
    ctx.sample({"procedure": "ecb_hex", "obligation": "no leading zeros", "counterexamples": {k: str(v) for k, v in lead.items()}})
    if all(isinstance(x, tuple) for x in lead.values()):
        val, got = lead["trunc"]
        ctx.violation("ecb_hex:leading-zeros", f"HEX$({val}): the procedure returns {got}; Color BASIC's HEX$ has no leading zeros (under both readings of LAND's operand conversion)", {"v": val})
        return
    if any(x == "unknown" for x in lead.values()):
        ctx.note_inconclusive("ecb_hex: leading-zero obligation undecided")
    # (2) the digits themselves, under both readings of LAND's operand conversion (thorough tier: the queries mix integer
    # division with string terms and often end in a time-out, reported as inconclusive)
    if ctx.tier != "thorough":
        return
    verdicts = {}
    for reading in ("trunc", "round"):
        from vf.tv import machine

        old = machine.Sem.int_conversion
        machine.Sem.int_conversion = reading
        try:
            dg = [z3.Int(f"hexdigit{k}") for k in range(4)]  # v = 4096 d0 + 256 d1 + 16 d2 + d3: digit witnesses

            def premises(c):
                return [z3.And(d >= 0, d <= 15) for d in dg] + [c["v"] == z3.ToReal(4096 * dg[0] + 256 * dg[1] + 16 * dg[2] + dg[3])]

            sem, m, c, leaves = run_proc(proc, premises, step_bound=160)
            ds = [z3.SubString(HEXD, d, 1) for d in dg]
            want = z3.If(dg[0] > 0, z3.Concat(*ds), z3.If(dg[1] > 0, z3.Concat(*ds[1:]), z3.If(dg[2] > 0, z3.Concat(*ds[2:]), ds[3])))
            bad = None
            unknown = False
            for leaf in leaves:
                if leaf.status not in ("end", "stop"):
                    if leaf.status == "bound":
                        ctx.note_inconclusive(f"ecb_hex: a path exceeded the step bound ({reading})")
                    continue
                ctx.stats["obligations"] += 1
                out = c20.final(leaf, m, "str")
                v, mdl = smt.check(list(leaf.cond) + [out != want], 10000, True)
                ctx.stats[v] += 1
                if v == "sat" and bad is None:
                    bad = (str(mdl.eval(c["v"], True)), str(mdl.eval(out, True)), str(mdl.eval(want, True)))
                elif v == "unknown":
                    unknown = True
                    ctx.note_inconclusive(f"ecb_hex path ({reading})")
            verdicts[reading] = bad if bad is not None or not unknown else ("?", "?", "?")
            ctx.sample({"procedure": "ecb_hex", "land_operands": reading, "paths": len(leaves), "counterexample": bad})
        finally:
            machine.Sem.int_conversion = old
    if any(b == ("?", "?", "?") for b in verdicts.values()):
        return
    if all(b is not None for b in verdicts.values()):
        val, got, want_s = verdicts["trunc"]
        kind = "leading-zeros" if got.strip('"').lstrip("0") == want_s.strip('"') or len(got) > len(want_s) else "wrong-digits"
        ctx.violation(f"ecb_hex:{kind}", f"HEX$({val}): procedure returns {got}, Color BASIC {want_s} (under both readings of LAND's operand conversion)", {"v": val})
    elif any(b is not None for b in verdicts.values()):
        ctx.note_inconclusive("ecb_hex: the verdict depends on how BASIC09 converts the REAL operands of LAND (drop the fraction: correct; round: " + str(verdicts.get("round")) + ")")


def check_str(ctx, lib):
    """STR$(n) in Color BASIC ends with a digit (there is nothing after the number); whatever BASIC09's STR$ returns"""
    proc = lib["ecb_str"]
    ctx.encode("ecb.b09 procedure ecb_str", "\n".join(proc.lines))
    sem, m, c, leaves = run_proc(proc, lambda c: [])
    for leaf in leaves:
        if leaf.status not in ("end", "stop"):
            continue
        ctx.stats["obligations"] += 1
        out = c20.final(leaf, m, "valout")
        v, mdl = smt.check(list(leaf.cond) + [z3.SuffixOf(z3.StringVal(" "), out)], 30000, True)
        ctx.stats[v] += 1
        ctx.sample({"procedure": "ecb_str", "verdict": v})
        if v == "sat":
            ctx.violation("ecb_str:trailing-blank", f"STR$({mdl.eval(c['valin'], True)}): the procedure's result {mdl.eval(out, True)} ends with a blank; Color BASIC's STR$ ends with the last digit (the blank belongs to PRINT)", {"valin": str(mdl.eval(c["valin"], True))})
            break
        elif v == "unknown":
            ctx.note_inconclusive("ecb_str path")
