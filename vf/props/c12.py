"""C12 - conversion is a deterministic function of its input and options (E6).

`set` is replaced in visitors / compiler / elements / procbank by a class whose iteration order is chosen by the
harness; every iteration over a set is a choice point.  All schedules are explored (all n! orders for sets of <= 3
elements, a bounded family above) and z3 confirms the explored schedules cover every alternative of every choice
point reached.  All schedules must give byte-identical output.  Findings are replayed with real PYTHONHASHSEED values
in subprocesses; history independence (other programs converted before, repeated calls) is compared in one process.
"""
import json
import os
import subprocess
import sys

from vf import ndset, smt
from vf.core import REPO, Ctx, HarnessError, repo_source
from vf.realconv import classify

PROGRAMS = [
    ("one-implicit-array", "10 A ( 1 ) = 2"),
    ("two-implicit-arrays", "10 A ( 1 ) = B ( 2 )"),
    ("three-implicit-arrays", "10 A ( 1 ) = B ( 2 ) + C ( 3 )"),
    ("implicit-num-and-str-arrays", '10 A ( 1 ) = 1 : A$ ( 1 ) = "X" : B$ ( 2 ) = "Y"'),
    ("three-strings", '10 A$ = "X" : B$ = A$ : C$ = B$'),
    ("three-scalars", "10 A = 1 : B = A : C = B"),
    ("dim-sizes", "10 DIM A$ ( 2 ) , B$ ( 3 ) , C$"),
    ("line-references", "10 GOTO 30\n20 GOSUB 40\n30 ON A GOTO 10 , 20\n40 RETURN"),
    ("temps", "10 PRINT 1 ; 2 ; 3"),
    ("deps-two", "10 CLS : SOUND 1 , 2"),
    ("deps-three", "10 HSET ( 1 , 2 ) : PLAY \"A\" : Z = POINT ( 1 , 2 )"),
    ("deps-many", '10 CLS : SOUND 1 , 2 : HCIRCLE ( 1 , 2 ) , 3 : HDRAW "U5" : PLAY "A" : Z = JOYSTK ( 0 ) : HPRINT ( 1 , 2 ) , "X" : LOCATE 1 , 2'),
    ("read-filter", "10 READ A , B , C\n20 DATA 1 , , 3"),
    ("dim-configured", "10 DIM N$ ( 2 ) , T$ ( 3 ) , C$ ( 4 ) , K$ ( 5 ) , S$ , U$"),
]
CONFIGURED = {"N$()": 20, "T$()": 30, "C$()": 40, "K$()": 50, "S$": 60}  # sizes from a configuration (option set `configured`)
OPTION_SETS = [
    ("plain-init", dict(add_standard_prefix=False, add_suffix=False, skip_procedure_headers=True, initialize_vars=True, default_str_storage=40)),
    ("filter", dict(add_standard_prefix=False, add_suffix=False, skip_procedure_headers=True, filter_unused_linenum=True)),
    ("bundle", dict(add_standard_prefix=True, add_suffix=True, skip_procedure_headers=False, output_dependencies=True, procname="prog", initialize_vars=True)),
    ("configured", dict(add_standard_prefix=False, add_suffix=False, skip_procedure_headers=True, initialize_vars=True, default_str_storage=70, _cfg=True)),
]


def real_opts(opts):
    """option dict for convert(): the marker _cfg stands for a CompilerConfigs object built from CONFIGURED"""
    o = {k: v for k, v in opts.items() if k != "_cfg"}
    if opts.get("_cfg"):
        from coco.b09.configs import CompilerConfigs, StringConfigs

        o["compiler_configs"] = CompilerConfigs(string_configs=StringConfigs(strname_to_size=dict(CONFIGURED)))
    return o


def modules():
    from coco.b09 import compiler, elements, procbank, visitors

    return [visitors, compiler, elements, procbank]


def hashseed_outputs(src, opts, seeds):
    plain = {k: v for k, v in opts.items() if k != "_cfg"}
    cfg = ("from coco.b09.configs import CompilerConfigs, StringConfigs; kw['compiler_configs'] = CompilerConfigs(string_configs=StringConfigs(strname_to_size=%r)); " % CONFIGURED) if opts.get("_cfg") else ""
    code = ("import sys, json; sys.path.insert(0, %r); from coco.b09 import compiler; kw = %r; %s"
            "print(json.dumps(compiler.convert(%r, **kw)))" % (REPO, plain, cfg, src + "\n"))
    outs = {}
    for s in seeds:
        env = dict(os.environ, PYTHONHASHSEED=str(s))
        r = subprocess.run([sys.executable, "-c", code], env=env, capture_output=True, text=True, timeout=120)
        outs[s] = r.stdout if r.returncode == 0 else "ERR:" + r.stderr[-200:]
    return outs


def cli_history(ctx):
    """the command-line entry point called several times in one process: every call's output file is what a fresh process
    writes for that command line (options of an earlier call do not stick)"""
    import shutil
    import tempfile

    from coco import decb_to_b09

    tmp = tempfile.mkdtemp(prefix="c12cli")
    try:
        inp = os.path.join(tmp, "game.bas")
        with open(inp, "w") as f:
            f.write('10 DIM A$ : A$ = "X" : B$ = A$ + STRING$ ( 2 , "Y" )\n20 GOTO 40\n30 PRINT "SKIPPED"\n40 PRINT A$ ; B$\n')
        cfgp = os.path.join(tmp, "c.yaml")
        with open(cfgp, "w") as f:
            f.write('string_configs:\n  strname_to_size:\n    "A$": 90\n')
        argvs = [["-s", "80", "-D"], [], ["-l", "-z"], ["-w"], ["-c", cfgp], [], ["-s", "50"], ["-D"], []]
        for i, extra in enumerate(argvs):
            out_a, out_b = os.path.join(tmp, f"a{i}.b09"), os.path.join(tmp, f"b{i}.b09")
            decb_to_b09.start([inp, out_a] + extra)
            code = "import sys; sys.path.insert(0, %r); from coco import decb_to_b09; decb_to_b09.start(%r)" % (REPO, [inp, out_b] + extra)
            r = subprocess.run([sys.executable, "-c", code], env=dict(os.environ, PYTHONHASHSEED="0"), capture_output=True, text=True, timeout=120)
            if r.returncode != 0:
                raise HarnessError("fresh-process command line failed: " + r.stderr[-200:])
            ctx.stats["obligations"] += 1
            ctx.stats["programs"] += 1
            ctx.stats["traces_validated_against_impl"] += 1
            with open(out_a, newline="") as fa, open(out_b, newline="") as fb:
                same = fa.read() == fb.read()
            if same:
                ctx.stats["identity"] += 1
            else:
                ctx.violation("history-dependent:command-line:options-of-an-earlier-call", f"call {i + 1} of start() in one process with options {extra} (earlier calls: {argvs[:i]}): output file differs from a fresh process with the same command line", {"source": "game.bas", "options": {"argv": extra}})
                break
    finally:
        shutil.rmtree(tmp, ignore_errors=True)


def config_history(ctx):
    """the options are part of the input: a configuration object that was used for one conversion and then changed, and a
    configuration file name that is read again (after an edit, or from another working directory), give what a fresh
    process gives for the new content"""
    import io
    import shutil
    import tempfile

    from coco.b09 import compiler
    from coco.b09.configs import CompilerConfigs, StringConfigs

    src = '10 DIM B$ , C$ ( 5 ) , N$ ( 2 ) : B$ = "X" : C$ ( 1 ) = B$ : N$ ( 1 ) = B$\n'
    kw = dict(add_standard_prefix=False, add_suffix=False, skip_procedure_headers=True, default_str_storage=64)
    maps = [{"B$": 40, "C$()": 41}, {"B$": 200, "C$()": 77, "N$()": 16}, {}, {"N$()": 90}]

    def fresh(mapping):
        code = ("import sys, json; sys.path.insert(0, %r); from coco.b09 import compiler; from coco.b09.configs import CompilerConfigs, StringConfigs; "
                "print(json.dumps(compiler.convert(%r, compiler_configs=CompilerConfigs(string_configs=StringConfigs(strname_to_size=%r)), **%r)))" % (REPO, src, mapping, kw))
        r = subprocess.run([sys.executable, "-c", code], env=dict(os.environ, PYTHONHASHSEED="0"), capture_output=True, text=True, timeout=120)
        if r.returncode != 0:
            raise HarnessError("fresh-process conversion with a configuration failed: " + r.stderr[-200:])
        return json.loads(r.stdout)

    want = [fresh(m) for m in maps]
    # (a) one configuration object, changed between conversions (assignment of a new table, and update in place)
    for how in ("assign", "in-place"):
        sc = StringConfigs(strname_to_size=dict(maps[0]))
        cfg = CompilerConfigs(string_configs=sc)
        for i, m in enumerate(maps):
            if i:
                if how == "assign":
                    sc.strname_to_size = dict(m)
                else:
                    sc.strname_to_size.clear()
                    sc.strname_to_size.update(m)
            got = compiler.convert(src, compiler_configs=cfg, **kw)
            ctx.stats["obligations"] += 1
            ctx.stats["programs"] += 1
            ctx.stats["traces_validated_against_impl"] += 1
            if got == want[i]:
                ctx.stats["identity"] += 1
            else:
                ctx.violation(f"history-dependent:configuration-object-reused:{how}", f"conversion {i + 1} with one configuration object whose table was changed ({how}) to {m}: output differs from a fresh process with that table", {"source": src, "options": kw, "tables": maps[: i + 1]})
                break
    # (a2) one configuration object, unchanged by the caller, used with different default sizes (and different programs): the
    # conversion must not write into it
    src2 = '10 DIM N$ , T$ ( 5 ) : N$ = "X" : T$ ( 1 ) = N$\n'
    for mapping in ({}, {"B$": 40}, {"T$()": 50}):
        cfg = CompilerConfigs(string_configs=StringConfigs(strname_to_size=dict(mapping)))
        before = dict(cfg.string_configs.strname_to_size)
        for i, (text, size) in enumerate(((src2, 64), (src2, 80), (src, 80), (src2, 33))):
            kw2 = dict(kw, default_str_storage=size)
            code = ("import sys, json; sys.path.insert(0, %r); from coco.b09 import compiler; from coco.b09.configs import CompilerConfigs, StringConfigs; "
                    "print(json.dumps(compiler.convert(%r, compiler_configs=CompilerConfigs(string_configs=StringConfigs(strname_to_size=%r)), **%r)))" % (REPO, text, mapping, kw2))
            r = subprocess.run([sys.executable, "-c", code], env=dict(os.environ, PYTHONHASHSEED="0"), capture_output=True, text=True, timeout=120)
            if r.returncode != 0:
                raise HarnessError("fresh-process conversion with a configuration failed: " + r.stderr[-200:])
            got = compiler.convert(text, compiler_configs=cfg, **kw2)
            ctx.stats["obligations"] += 1
            ctx.stats["programs"] += 1
            ctx.stats["traces_validated_against_impl"] += 1
            if got == json.loads(r.stdout):
                ctx.stats["identity"] += 1
            else:
                ctx.violation("history-dependent:configuration-object-reused:other-default-size", f"conversion {i + 1} with one configuration object {mapping} and default_str_storage={size}: output differs from a fresh process", {"source": text, "options": kw2})
                break
        ctx.stats["obligations"] += 1
        if dict(cfg.string_configs.strname_to_size) == before:
            ctx.stats["identity"] += 1
        else:
            ctx.violation("history-dependent:configuration-object-written", f"convert() changed the caller's configuration table from {before} to {dict(cfg.string_configs.strname_to_size)}", {"source": src2, "options": kw})
    # (b) configuration files: same name in two directories (relative path), and one file edited between conversions
    tmp = tempfile.mkdtemp(prefix="c12cfg")
    cwd = os.getcwd()
    try:
        def yaml_of(m):
            return "string_configs:\n  strname_to_size:" + ("".join(f'\n    "{k}": {v}' for k, v in m.items()) if m else " {}") + "\n"

        def via_file(config_file):
            out = io.StringIO()
            compiler.convert_file(io.StringIO(src), out, config_file=config_file, default_str_storage=64, add_standard_prefix=False)
            return out.getvalue()

        def fresh_file(mapping):
            code = ("import sys, io, json; sys.path.insert(0, %r); from coco.b09 import compiler; from coco.b09.configs import CompilerConfigs, StringConfigs; "
                    "print(json.dumps(compiler.convert(%r, compiler_configs=CompilerConfigs(string_configs=StringConfigs(strname_to_size=%r)), default_str_storage=64, add_standard_prefix=False).replace(chr(10), chr(13))))" % (REPO, src, mapping))
            r = subprocess.run([sys.executable, "-c", code], env=dict(os.environ, PYTHONHASHSEED="0"), capture_output=True, text=True, timeout=120)
            if r.returncode != 0:
                raise HarnessError("fresh-process conversion failed: " + r.stderr[-200:])
            return json.loads(r.stdout)

        wantf = [fresh_file(m) for m in maps[:2]]
        for d, m in (("p1", maps[0]), ("p2", maps[1])):
            os.makedirs(os.path.join(tmp, d))
            with open(os.path.join(tmp, d, "config.yaml"), "w") as f:
                f.write(yaml_of(m))
        outs = []
        for d in ("p1", "p2"):
            os.chdir(os.path.join(tmp, d))
            outs.append(via_file("config.yaml"))
        os.chdir(cwd)
        for i, (g, w) in enumerate(zip(outs, wantf)):
            ctx.stats["obligations"] += 1
            ctx.stats["traces_validated_against_impl"] += 1
            if g == w:
                ctx.stats["identity"] += 1
            else:
                ctx.violation("history-dependent:configuration-file:same-name-other-directory", f"convert_file with config_file='config.yaml' in directory {i + 1} of 2: output differs from a fresh process reading that directory's file", {"source": src, "options": {"config_file": "config.yaml"}})
        path = os.path.join(tmp, "edited.yaml")
        outs = []
        for m in maps[:2]:
            with open(path, "w") as f:
                f.write(yaml_of(m))
            outs.append(via_file(path))
        for i, (g, w) in enumerate(zip(outs, wantf)):
            ctx.stats["obligations"] += 1
            ctx.stats["traces_validated_against_impl"] += 1
            if g == w:
                ctx.stats["identity"] += 1
            else:
                ctx.violation("history-dependent:configuration-file:edited-between-conversions", f"convert_file after the configuration file was rewritten (conversion {i + 1}): output differs from a fresh process reading the file", {"source": src, "options": {"config_file": "<edited>"}})
    finally:
        os.chdir(cwd)
        shutil.rmtree(tmp, ignore_errors=True)


def run(tier):
    ctx = Ctx("C12", tier, "model_checking", technique="set iteration order as an explicit choice (shadow set class in the tool's modules); exhaustive schedule exploration with z3-checked coverage of the choice tree; replay with real PYTHONHASHSEED values")
    smt.reset_stats()
    ndset.FULL_LIMIT = 3
    for rel in ("coco/b09/visitors.py", "coco/b09/compiler.py", "coco/b09/procbank.py", "coco/b09/elements.py"):
        ctx.encode(rel + " (executed with a schedulable set class)", repo_source(rel))
    ctx.bounds.update({"programs": [p[0] for p in PROGRAMS], "option_sets": [o[0] for o in OPTION_SETS], "full_permutations_up_to": 3, "simultaneous_deviations_from_default_order": 1 if tier == "quick" else "2 with the bundled library, 3 without",
                       "orders_for_larger_sets": "sorted, reversed and all rotations", "hash_seeds_replayed": 8 if tier == "quick" else 24})
    from coco.b09 import compiler

    for label, src in PROGRAMS:
        for oname, opts in OPTION_SETS:
            if oname == "bundle" and tier == "quick" and not label.startswith("deps") and label not in ("two-implicit-arrays",):
                continue
            if (oname == "configured") != (label == "dim-configured") and not (oname == "configured" and label in ("dim-sizes", "three-strings")):
                continue

            def fn():
                return compiler.convert(src + "\n", **real_opts(opts))

            depth = 1 if tier == "quick" else (2 if oname == "bundle" else 3)
            results, cov = ndset.explore(fn, modules(), depth=depth, max_runs=20000)
            ctx.stats["states"] += len(results)
            ctx.stats["transitions"] += sum(len(v) for v, _ in results)
            ctx.stats["obligations"] += 1
            ctx.stats["programs"] += 1
            if cov != "unsat":
                raise HarnessError(f"schedule coverage for {label}/{oname}: {cov}")
            ctx.stats["unsat"] += 1
            outs = {}
            for vec, out in results:
                outs.setdefault(out, []).append(vec)
            ctx.sample({"program": src, "options": oname, "schedules": len(results), "distinct_outputs": len(outs), "choice_points": max(len(v) for v, _ in results)}, limit=16)
            if len(outs) > 1:
                # replay with real hash seeds
                seeds = list(range(8 if tier == "quick" else 24))
                real = hashseed_outputs(src, opts, seeds)
                ctx.stats["traces_validated_against_impl"] += len(seeds)
                distinct = len(set(real.values()))
                a, b = list(outs)[:2]
                la, lb = (a[1] if a[0] == "ok" else str(a)).split("\n"), (b[1] if b[0] == "ok" else str(b)).split("\n")
                diff = [(x, y) for x, y in zip(la, lb) if x != y][:1]
                what = diff[0][0].split("(")[0].split(" ")[0] if diff else "?"
                kind = "DIM" if diff and diff[0][0].startswith("DIM arr_") else "procedure-order" if diff and "procedure" in diff[0][0].lower() else what
                if distinct > 1:
                    ctx.violation(f"set-order-dependent:{kind}:{label}:{oname}", f"{src!r} [{oname}]: {len(outs)} different outputs over set iteration orders, {distinct} over {len(seeds)} real hash seeds; first difference {diff}", {"source": src, "options": opts, "seeds_distinct": distinct})
                else:
                    ctx.violation(f"set-order-dependent(unreplayed):{kind}:{label}:{oname}", f"{src!r} [{oname}]: outputs differ over modelled set orders ({diff}) but the {len(seeds)} real hash seeds tried agree", {"source": src, "options": opts})
    # real hash seeds for a few programs whatever the schedules said: set displays and set comprehensions do not go through
    # the name `set`, so the schedulable set class does not see them
    sweep = [("dim-configured", "configured"), ("deps-many", "bundle"), ("three-implicit-arrays", "plain-init"), ("implicit-num-and-str-arrays", "plain-init"), ("line-references", "filter")]
    progs = dict(PROGRAMS)
    osets = dict(OPTION_SETS)
    for label, oname in sweep:
        seeds = list(range(8 if tier == "quick" else 24))
        real = hashseed_outputs(progs[label], osets[oname], seeds)
        ctx.stats["obligations"] += 1
        ctx.stats["programs"] += len(seeds)
        ctx.stats["traces_validated_against_impl"] += len(seeds)
        if any(v.startswith("ERR:") for v in real.values()):
            raise HarnessError(f"hash-seed run of {label}/{oname} failed: {[v for v in real.values() if v.startswith('ERR:')][0][:200]}")
        if len(set(real.values())) == 1:
            ctx.stats["identity"] += 1
        else:
            vals = list(set(real.values()))
            la, lb = json.loads(vals[0]).split("\n"), json.loads(vals[1]).split("\n")
            diff = [(x, y) for x, y in zip(la, lb) if x != y][:1]
            ctx.violation(f"hash-seed-dependent:{label}:{oname}", f"{progs[label]!r} [{oname}]: {len(vals)} different outputs over PYTHONHASHSEED 0..{len(seeds) - 1}; first difference {diff}", {"source": progs[label], "options": osets[oname], "seeds_distinct": len(vals)})
    # history independence in one process
    # programs whose translation needs per-conversion state the tool keeps in module / class level objects if it is
    # careless: the HBUFF prologue, names DIMensioned by an earlier program, procedures bundled for an earlier program
    HIST = ["10 HBUFF 1 , 100", '10 DIM N$ , M$ ( 3 ) : N$ = "A"', '10 N$ = "B" : PRINT N$', "10 HBUFF 2 , 50 : HGET ( 1 , 2 ) - ( 3 , 4 ) , 2", '10 PLAY "A" : CLS', "10 A = 1"]
    HOPTS = [dict(add_standard_prefix=True, add_suffix=True, skip_procedure_headers=True, default_str_storage=40, initialize_vars=True),
             dict(add_standard_prefix=True, add_suffix=True, skip_procedure_headers=False, output_dependencies=True, procname="prog"),
             dict(add_standard_prefix=True, add_suffix=True, skip_procedure_headers=False, output_dependencies=True)]
    plain_sets = [(n_, o_) for n_, o_ in OPTION_SETS if not o_.get("_cfg")]
    seq = [(src, opts) for (_, src) in PROGRAMS[:8] for (_, opts) in plain_sets] + [(src, opts) for src in HIST for opts in HOPTS]
    nbase = 8 * len(plain_sets)
    fresh = {}
    for i, (src, opts) in enumerate(seq):
        code = ("import sys, json; sys.path.insert(0, %r); from coco.b09 import compiler; print(json.dumps(compiler.convert(%r, **%r)))" % (REPO, src + "\n", opts))
        if i % 3 == 2 or tier == "thorough" or i >= nbase:
            r = subprocess.run([sys.executable, "-c", code], env=dict(os.environ, PYTHONHASHSEED="0"), capture_output=True, text=True, timeout=120)
            fresh[i] = json.loads(r.stdout) if r.returncode == 0 else None
    hist = []
    for src, opts in seq:
        o = classify(src + "\n", plain=False, **opts)
        hist.append(o[1] if o[0] == "ok" else None)
    again = []
    for src, opts in reversed(seq):
        o = classify(src + "\n", plain=False, **opts)
        again.append(o[1] if o[0] == "ok" else None)
    again.reverse()
    for i, (src, opts) in enumerate(seq):
        ctx.stats["obligations"] += 1
        ok = hist[i] == again[i] and (i not in fresh or fresh[i] == hist[i])
        if ok:
            ctx.stats["identity"] += 1
        else:
            which = "repeat" if hist[i] != again[i] else "fresh-process"
            ctx.violation(f"history-dependent:{which}:{'bundle' if opts.get('output_dependencies') else 'plain'}", f"{src!r}: output depends on what was converted before ({which})", {"source": src, "options": opts})
        ctx.stats["traces_validated_against_impl"] += 1
    config_history(ctx)
    cli_history(ctx)
    # the same for the image decoders: a second picture decoded in the same process = that picture in a fresh process
    from vf.props import dec

    dec.decoder_history(ctx, ["hrstoppm", "pixtopgm", "maxtoppm", "mgetoppm", "mgetoppm:rle", "rattoppm", "cm3toppm"])
    ctx.add_solver_stats(smt.STATS.export())
    ctx.extra["solver"] = {"z3": smt.z3_version()}
    ctx.assume("CPython's hash function is modelled as an arbitrary iteration order of each set (not encoded)")
    ctx.assume("decoders: for one picture determinism follows from C16/C17 (output is a function of the input within their bounds); across pictures two well-formed pictures per format are decoded in sequence and compared with a fresh process")
    return ctx


def replay(rec):
    sig = rec.get("signature", "")
    if sig.startswith("history-dependent:command-line"):
        probe = Ctx("C12", "quick", "model_checking", technique="replay")
        cli_history(probe)
        return bool(probe.new_violations or probe.known_hit)
    if sig.startswith("history-dependent:configuration"):
        probe = Ctx("C12", "quick", "model_checking", technique="replay")
        config_history(probe)
        hit = [s_ for s_, _, _ in probe.new_violations] + list(probe.known_hit)
        print(hit)
        return sig in hit
    if sig.startswith("history:"):
        from vf.props import dec

        probe = Ctx("C12", "quick", "model_checking", technique="replay")
        dec.decoder_history(probe, [rec.get("decoder", "mgetoppm")] + (["mgetoppm:rle"] if rec.get("decoder") == "mgetoppm" else []))
        return bool(probe.new_violations or probe.known_hit)
    outs = hashseed_outputs(rec["source"], rec["options"], list(range(12)))
    print(len(set(outs.values())), "distinct outputs over 12 hash seeds")
    return len(set(outs.values())) > 1
