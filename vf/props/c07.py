"""C07 - accepted programs yield structurally well-formed BASIC09 text.

Structural part (decided per program by the independent BASIC09 reader vf/tv/b09front, no solver): every output of
the statement-coverage, device and expression families and of the bundled examples, under the option combinations.
Solver part (z3 regex queries over the real grammar regexes): for EVERY content of a string literal, unquoted DATA
item, comment or INPUT prompt the emitted line is still one physical line with a closed literal; for EVERY name the
var/str_var regexes accept, the emitted identifier is not a BASIC09 reserved word.
"""
import glob
import itertools
import os
import re

import z3

from vf import rxsmt, smt
from vf.core import REPO, Ctx, HarnessError, pmap, repo_source
from vf.realconv import classify
from vf.tv import b09front, families
from vf.tv.lex import SyntaxErr

OPTION_SETS = [
    dict(add_standard_prefix=False, add_suffix=False, skip_procedure_headers=True),
    dict(add_standard_prefix=True, add_suffix=True, skip_procedure_headers=True, initialize_vars=True),
    dict(add_standard_prefix=True, add_suffix=True, skip_procedure_headers=True, initialize_vars=True, filter_unused_linenum=True, default_str_storage=40),
]

EXPR_SHAPES = ["- A", "NOT A", "- INT ( A )", "A + B", "- A ^ 2", "NOT A AND B", "A * ( B + C )", "ABS ( A ) + INT ( B )", "A$ + B$", "LEN ( A$ ) * 2",
               "A = B", "A < B AND C > D", "INT ( A ) + INT ( B )", "STR$ ( A ) + HEX$ ( B )", "ABS ( INT ( A ) )",
               "LEFT$ ( INKEY$ , 1 )", "1E38 * 1E38", "&HFFFF", "&H0", "&H00 + A", "& H 0", "&H8000", "0", "- 0", ".0"]
EXPR_CONTEXTS = ["10 Z = {e}", "10 PRINT {e}", "10 IF {e} THEN 10", "10 IF {e} THEN Z = 1 ELSE Z = 2", "10 FOR I = {e} TO 9 : NEXT I",
                 "10 Z ( {e} ) = 1", "10 ON {e} GOTO 10", "10 Z$ = {e}", "10 PLAY {e}", "10 SOUND {e} , 1", "10 IF {e} = \"A\" THEN 10",
                 "10 IF Y = 1 THEN 10 ELSE Z = {e}", "10 IF Y = 1 THEN Z = 1 ELSE IF Y = 2 THEN Z = {e}", "10 READ Q ( {e} )", "10 INPUT Q ( {e} )",
                 "10 WIDTH {e}", "10 POKE {e} , 1", "10 HPRINT ( 1 , 2 ) , {e}", "10 CLS {e}",
                 "10 FOR I = 1 TO {e} : NEXT I", "10 FOR I = 1 TO 9 STEP {e} : NEXT I", '10 PRINT @ {e} , "X"', "10 HSET ( {e} , 1 )", "10 LOCATE {e} , 1",
                 "10 W = 1 : Z = {e}", "10 HCIRCLE ( 1 , 2 ) , 3 , {e}", "10 Z = Q ( {e} )", "10 PRINT TAB ( {e} ) ; 1", "10 ON {e} GOSUB 10", "10 Z = 1 : IF {e} THEN 10"]


def programs(tier):
    progs = []
    for p in families.statement_coverage():
        progs.append(("stmt", p))
    for name, tag, src in families.device_programs(deep=(tier == "thorough")):
        progs.append(("dev:" + name, src))
    for e, c in itertools.product(EXPR_SHAPES, EXPR_CONTEXTS):
        progs.append(("expr:" + c.replace("{e}", "_")[3:] + ":" + re.sub(r"\b[A-Z]\b\$?|\d+", "_", e), c.format(e=e)))
    arm_stmts = ["Z = INT ( A )", "Z = A + INT ( B )", "PRINT INT ( A )", "SOUND INT ( A ) , 1", "Q ( INT ( A ) ) = INT ( B )", "Z$ = STR$ ( A ) + INKEY$",
                 "Z = - A", "GOTO 10", "PRINT A ; B$", "INPUT A", "READ A"]
    for c in families.IF_ARM_CONTEXTS:
        for st in arm_stmts:
            progs.append(("arm:" + c.replace("{s}", "_")[3:] + ":" + st, c.format(s=st)))
    for pl in families.print_lists(3 if tier == "thorough" else 2):
        progs.append(("print:" + re.sub(r"TAB \( 3 \)", "T", pl), "10 PRINT " + pl))
        if tier == "thorough":
            progs.append(("print@:" + pl, "10 PRINT @ 5 , " + pl))
    return progs


def normalise(msg):
    msg = re.sub(r"'[^']*'", "<tok>", msg)
    msg = re.sub(r"\b(ABS|ATN|COS|EXP|FIX|LEN|LOG|PEEK|RND|SGN|SIN|SQR|TAN|ASC|VAL|INT|TAB)\b|(CHR|LEFT|RIGHT|MID|STR)\$", "<builtin>", msg)
    msg = re.sub(r"\d+", "N", msg)
    return msg[:90]


def check_one(job):
    kind, src, oi = job
    o = classify(src + "\n", plain=False, **OPTION_SETS[oi])
    if o[0] != "ok":
        return {"job": job, "status": o[0], "detail": o[1]}
    try:
        b09front.parse_program(o[1])
    except SyntaxErr as e:
        return {"job": job, "status": "syntax", "detail": str(e), "emitted": o[1]}
    return {"job": job, "status": "ok", "lines": o[1].count("\n")}


def sentinel_template(src_with_sentinel, sentinel="QZQZ"):
    o = classify(src_with_sentinel + "\n")
    if o[0] != "ok":
        raise HarnessError(f"template probe {src_with_sentinel!r} was not converted: {o}")
    for line in o[1].split("\n"):
        if sentinel in line:
            i = line.index(sentinel)
            return line[:i], line[i + len(sentinel):]
    raise HarnessError(f"template probe {src_with_sentinel!r}: sentinel not found in {o[1]!r}")


def content_lemmas(ctx):
    from coco.b09.grammar import grammar

    c = z3.String("content")
    anyc = z3.Full(z3.ReSort(z3.StringSort()))
    cases = [
        ("string-literal", grammar["str_literal"].re.pattern, lambda s: z3.InRe(z3.Concat(z3.StringVal('"'), s, z3.StringVal('"')), rxsmt.lang(grammar["str_literal"].re.pattern)), '10 A$="QZQZ"', '10 A$="{c}"', True),
        ("partial-string-literal", grammar["partial_str_lit"].re.pattern, lambda s: z3.InRe(z3.Concat(z3.StringVal('"'), s), rxsmt.lang(grammar["partial_str_lit"].re.pattern)), '10 A$="QZQZ', '10 A$="{c}', True),
        ("unquoted-data-item", grammar["data_str_literal"].re.pattern, lambda s: z3.InRe(s, rxsmt.lang(grammar["data_str_literal"].re.pattern)), "10 DATA QZQZ", "10 DATA {c}", True),
        ("comment", grammar["comment_text"].re.pattern, lambda s: z3.InRe(s, rxsmt.lang(grammar["comment_text"].re.pattern)), "10 REM QZQZ", "10 REM {c}", False),
        ("input-prompt", grammar["str_literal"].re.pattern, lambda s: z3.InRe(z3.Concat(z3.StringVal('"'), s, z3.StringVal('"')), rxsmt.lang(grammar["str_literal"].re.pattern)), '10 INPUT "QZQZ";A', '10 INPUT "{c}";A', True),
    ]
    nl = z3.Union(z3.Re("\n"), z3.Re("\r"))
    for name, pat, member, probe, carrier, quoted in cases:
        ctx.encode(f"grammar regex for {name}", pat)
        pre, post = sentinel_template(probe)
        # the emitted physical line is pre + content + post; it must not contain a line terminator, and for quoted
        # contexts the content must not contain a quote (a doubled quote would be needed)
        bad = z3.Concat(anyc, nl, anyc)
        if quoted:
            if not pre.endswith('"') or '"' not in post:
                raise HarnessError(f"{name}: emission template {pre!r}..{post!r} is not a quoted literal")
            bad = z3.Union(bad, z3.Concat(anyc, z3.Re('"'), anyc))
        ctx.stats["obligations"] += 1
        v, m = smt.check([member(c), z3.Length(c) <= 6, z3.InRe(c, bad)], 20000, True)
        ctx.stats[v] += 1
        ctx.sample({"lemma": f"every {name} content keeps the emitted line closed and on one line", "template": [pre, post], "verdict": v})
        if v == "sat":
            val = rxsmt.z3str(m.eval(c, True).as_string())
            o = classify(carrier.format(c=val) + "\n")
            ctx.stats["traces_validated_against_impl"] += 1
            broken = False
            if o[0] == "ok":
                try:
                    b09front.parse_program(o[1])
                    broken = "\r" in o[1]
                except SyntaxErr:
                    broken = True
            if broken:
                what = "CR" if "\r" in val else "quote" if '"' in val else "LF"
                ctx.violation(f"content-breaks-line:{name}:{what}", f"{name} content {val!r} is accepted and emitted as {o[1]!r}", {"source": carrier.format(c=val), "emitted": o[1]})
            elif o[0] == "ok":
                raise HarnessError(f"content lemma model {val!r} for {name} did not replay: {o}")
        elif v == "unknown":
            ctx.note_inconclusive(f"content lemma {name}")


def reserved_lemma(ctx):
    from coco.b09.grammar import grammar

    n = z3.String("name")
    L = rxsmt.lang(grammar["var"].re.pattern)
    ctx.encode("grammar.var regex", grammar["var"].re.pattern)
    reserved = sorted(w for w in b09front.RESERVED_AS_VARIABLE if len(w) <= 2)
    for w in reserved:
        ctx.stats["obligations"] += 1
        v, m = smt.check([z3.InRe(n, L), z3.Length(n) <= 4, z3.Length(n) >= 1, z3.SubString(n, 0, 2) == z3.StringVal(w)], 20000, True)
        ctx.stats[v] += 1
        if v == "sat":
            name = rxsmt.z3str(m.eval(n, True).as_string())
            o = classify(f"10 {name}=1\n")
            ctx.stats["traces_validated_against_impl"] += 1
            if o[0] == "ok":
                try:
                    b09front.parse_program(o[1])
                    raise HarnessError(f"reserved-word model {name} did not replay: {o[1]!r}")
                except SyntaxErr:
                    ctx.violation(f"reserved-identifier:{w}", f"variable {name} is emitted as {w}, a BASIC09 reserved word: {o[1].strip()!r}", {"source": f"10 {name}=1", "emitted": o[1]})
        elif v == "unknown":
            ctx.note_inconclusive("reserved word " + w)
    ctx.sample({"lemma": "no accepted variable name truncates to a BASIC09 reserved word", "reserved": reserved})


def bundle_roundtrip(ctx):
    """with output_dependencies the program travels through the procedure bank (split into lines, re-joined): what comes
    out after the `procedure <name>` header must still be the statements convert() emits without dependencies - one
    complete statement line per line, every literal and comment closed - whatever characters literals contain"""
    specials = ["\x0c", "\x0b", "\x1c", "\x1d", "\x1e", "\x85", "\u2028", "\u2029", "\t", "\x7f", " ", "(*", "*)", "\\", "REM", "'"]
    progs = ['10 PRINT "HI" : GOTO 10', "10 FOR I = 1 TO 2 : NEXT I", "10 CLS : SOUND 1 , 2"]
    for ch in specials:
        progs += [f'10 PRINT "A{ch}B"', f"10 REM A{ch}B", f"10 DATA X{ch}Y , 2\n20 READ A$ , B", f'10 A$ = HEX$ ( 1 ) + "P{ch}Q"', f'10 A$ = "U{ch}V']
    for src in progs:
        plain = classify(src + "\n", plain=False, add_standard_prefix=True, add_suffix=True, skip_procedure_headers=True)
        deps = classify(src + "\n", plain=False, add_standard_prefix=True, add_suffix=True, skip_procedure_headers=False, output_dependencies=True, procname="prog")
        ctx.stats["programs"] += 2
        ctx.stats["obligations"] += 1
        if plain[0] != "ok" or deps[0] != "ok":
            if plain[0] != deps[0]:
                ctx.violation("bundle:status-differs", f"{src!r}: without dependencies {plain[0]}, with dependencies {deps[0]}", {"source": src})
            else:
                ctx.stats["identity"] += 1
            continue
        marker = "procedure prog\n"
        i = deps[1].rfind(marker)
        body = deps[1][i + len(marker):] if i >= 0 else None
        ok = body is not None and [ln.rstrip() for ln in body.rstrip("\n").split("\n")] == [ln.rstrip() for ln in plain[1].rstrip("\n").split("\n")]
        if ok:
            try:
                b09front.parse_program(body)
            except SyntaxErr as e:
                ok = False
                ctx.violation("bundle:program-part-unparsable", f"{src!r}: {e}", {"source": src, "options": dict(output_dependencies=True, procname="prog", skip_procedure_headers=False)})
                continue
            ctx.stats["identity"] += 1
        else:
            cls = "control-char" if any(c in src for c in specials[:8]) else "other"
            ctx.violation(f"bundle:program-part-changed:{cls}", f"{src!r}: the statements after `procedure prog` differ from the output without dependencies", {"source": src, "options": dict(output_dependencies=True, procname="prog", skip_procedure_headers=False)})


def emitted_bundle_wellformed(ctx):
    """the bundle as emitted (library text after the size substitution and the bank's own processing): every procedure
    in it parses and lowers, and nothing of the tool's internal size marker is left in it"""
    from vf.props.c13 import split_bundle
    from vf.tv import machine

    progs = ['10 PLAY "CDE"', '10 HDRAW "U5" : A$ = STRING$ ( 2 , "Y" )', "10 CLS : SOUND 1 , 2 : Z = JOYSTK ( 0 )", "10 READ A\n20 DATA ,", '10 HPRINT ( 1 , 2 ) , "X" : HBUFF 1 , 9',
             "10 A$ = HEX$ ( 3 ) + STR$ ( 4 ) : B = VAL ( A$ ) + INSTR ( 1 , A$ , B$ )", "10 HCIRCLE ( 1 , 2 ) , 3 : HLINE - ( 1 , 2 ) , PSET : HPAINT ( 1 , 2 )"]
    for src in progs:
        for size in (32, 40, 16):
            o = classify(src + "\n", plain=False, add_standard_prefix=True, add_suffix=True, skip_procedure_headers=False, output_dependencies=True, procname="prog", default_str_storage=size)
            ctx.stats["programs"] += 1
            if o[0] != "ok":
                continue
            for name, body in split_bundle(o[1]):
                ctx.stats["obligations"] += 1
                code = re.sub(r'"[^"]*"', '""', re.sub(r"\(\*.*", "", body))
                if "<<" in code or ">>" in code:
                    line = [ln for ln in body.split("\n") if "<<" in ln or ">>" in ln][0]
                    ctx.violation(f"bundle:internal-marker-left:{name}", f"{src!r} (size {size}): procedure {name} still contains the size marker: {line.strip()!r}", {"source": src, "options": dict(output_dependencies=True, procname="prog", skip_procedure_headers=False, default_str_storage=size)})
                    continue
                try:
                    machine.lower(b09front.parse_program(body), "b09")
                    ctx.stats["identity"] += 1
                except SyntaxErr as e:
                    ctx.violation(f"bundle:procedure-unparsable:{name}:{normalise(str(e))}", f"{src!r} (size {size}): bundled procedure {name}: {e}", {"source": src, "options": dict(output_dependencies=True, procname="prog", skip_procedure_headers=False, default_str_storage=size)})


def library_wellformed(ctx):
    """with dependencies on, the bundled runtime procedures are part of the emitted text: each of them is read by the same
    BASIC09 front end (statement forms, operand positions) and lowered (IF/ENDIF, FOR/NEXT, WHILE/ENDWHILE, LOOP/ENDLOOP,
    EXITIF/ENDEXIT balance, jump targets defined)"""
    from vf.tv import lib as tvlib, machine

    lib = tvlib.load_library()
    ctx.encode("coco/resources/ecb.b09 (every procedure parsed and lowered)", tvlib.library_text())
    for name, proc in sorted(lib.items()):
        ctx.stats["obligations"] += 1
        ctx.stats["programs"] += 1
        try:
            machine.lower(b09front.parse_program("\n".join(proc.lines)), "b09")
            ctx.stats["identity"] += 1
        except SyntaxErr as e:
            ctx.violation(f"library-syntax:{name}:{normalise(str(e))}", f"bundled procedure {name}: {e}", {"procedure": name})
    ctx.bounds["library_procedures"] = len(lib)


def run(tier):
    ctx = Ctx("C07", tier, "translation_validation", technique="independent BASIC09 reader over real convert() output (structural) + z3 regex queries over the real grammar regexes (content closure, reserved identifiers)")
    smt.reset_stats()
    progs = programs(tier)
    jobs = [(k, s, oi) for (k, s) in progs for oi in range(len(OPTION_SETS))]
    ex = sorted(glob.glob(os.path.join(REPO, "examples", "*", "*.bas")))
    for path in ex:
        with open(path) as f:
            text = f.read()
        for oi in range(len(OPTION_SETS)):
            jobs.append(("example:" + os.path.basename(path), text.rstrip("\n"), oi))
    ctx.bounds.update({"programs": len(progs), "examples": len(ex), "option_sets": OPTION_SETS, "content_length_max": 6, "name_length_max": 4})
    for rel in ("coco/b09/elements.py", "coco/b09/parser.py", "coco/b09/prog.py", "coco/b09/compiler.py", "coco/b09/grammar.py"):
        ctx.encode(rel + " (executed: real convert())", repo_source(rel))
    results = pmap(check_one, jobs, chunksize=32)
    statuses = {}
    for r in results:
        ctx.stats["programs"] += 1
        ctx.stats["obligations"] += 1
        statuses[r["status"]] = statuses.get(r["status"], 0) + 1
        kind, src, oi = r["job"]
        if r["status"] == "ok":
            ctx.stats["identity"] += 1
        elif r["status"] == "syntax":
            ctx.stats["disagreements_checked"] += 1
            where = kind if not kind == "stmt" else src
            ctx.violation("syntax:" + normalise(r["detail"]) + (":" + where if where else ""), f"{src[:80]!r} (options #{oi}) -> {r['detail']}", {"source": src, "options": OPTION_SETS[oi], "emitted": r.get("emitted")})
        elif r["status"] == "crash":
            ctx.stats["crashes_seen(C15)"] += 1
    for r in results[:: max(1, len(results) // 8)]:
        ctx.sample({"source": r["job"][1][:100], "options": r["job"][2], "status": r["status"]})
    ctx.extra["program_status"] = statuses
    content_lemmas(ctx)
    reserved_lemma(ctx)
    bundle_roundtrip(ctx)
    library_wellformed(ctx)
    emitted_bundle_wellformed(ctx)
    ctx.add_solver_stats(smt.STATS.export())
    ctx.extra["solver"] = {"z3": smt.z3_version()}
    ctx.explanation = "structural acceptance by the independent BASIC09 reader is decided per program (no solver); the content and identifier lemmas are z3 regex queries over the real grammar regexes with sentinel-derived emission templates"
    ctx.assume("BASIC09 statement grammar as implemented in vf/tv/b09front.py (restricted to what the tool emits); FOR/NEXT must pair within one block")
    ctx.assume("reserved words that cannot be variables: " + ", ".join(sorted(b09front.RESERVED_AS_VARIABLE - b09front.KEYWORDS)) + " plus the statement keywords")
    return ctx


def replay(rec):
    if "procedure" in rec and "source" not in rec:
        from vf.tv import lib as tvlib, machine

        try:
            machine.lower(b09front.parse_program("\n".join(tvlib.load_library()[rec["procedure"]].lines)), "b09")
        except SyntaxErr as e:
            print("SyntaxErr:", e)
            return True
        return False
    o = classify(rec["source"] + "\n", plain=False, **(rec.get("options") or OPTION_SETS[0]))
    print(o)
    if o[0] != "ok":
        return False
    try:
        b09front.parse_program(o[1])
    except SyntaxErr as e:
        print("SyntaxErr:", e)
        return True
    return "\r" in o[1]
