"""Translation validation driver: Color BASIC source vs. BASIC09 text emitted by the real convert().

compare() returns a Result with .findings = list of Finding(kind, detail, witness) and counters.  Nothing in here
prints; the property modules decide what a finding means for their property.
"""
import collections
import re

import z3

from vf import smt
from vf.tv import b09front, cbfront, machine, refmap as refmap_mod
from vf.tv.lex import RefGap, SyntaxErr

DIAG_KINDS = {"tmp-read-before-write", "uninitialised-read", "arity", "type-class", "unresolved", "missing-argument", "os-call", "read-filter"}
TOOL_GLOBALS = re.compile(r"^(TMP_\d+\$?|DISPLAY(\..*)?|PLAY(\..*)?|PID|ERNO|ERRNUM|JOY\d[XY])$")


class Finding:
    def __init__(self, kind, detail, witness=None):
        self.kind = kind
        self.detail = detail
        self.witness = witness or {}

    def __repr__(self):
        return f"Finding({self.kind}: {self.detail})"


class Result:
    def __init__(self):
        self.findings = []
        self.status = "ok"  # ok | refgap | syntax | outside
        self.counts = collections.Counter()
        self.note = ""


def uses_logic(e):
    if not isinstance(e, tuple):
        return False
    if e and e[0] in ("and", "or", "not"):
        return True
    return any(uses_logic(x) for x in e if isinstance(x, (tuple, list))) if isinstance(e, tuple) else False


def walk(obj, pred):
    if isinstance(obj, tuple):
        if obj and isinstance(obj[0], str) and pred(obj):
            return True
        return any(walk(x, pred) for x in obj)
    if isinstance(obj, list):
        return any(walk(x, pred) for x in obj)
    if isinstance(obj, dict):
        return any(walk(x, pred) for x in obj.values())
    return False


def needs_bv(cb_lines):
    return walk(cb_lines, lambda t: t[0] in ("and", "or", "not"))


def for_counters(cb_lines, b_stmts):
    names = set()

    def pred(t):
        if t[0] == "for" and len(t) >= 2 and isinstance(t[1], tuple):
            names.add(t[1][1].upper())
        return False

    walk(cb_lines, pred)
    walk(b_stmts, pred)
    return names


def event_pairs(ce, be):
    """structural match of two events; returns (mismatch text | None, [(cb_term, b09_term)...])"""
    if ce[0] != be[0]:
        return f"{ce[0]} vs {be[0]}", []
    k = ce[0]
    if k == "call":
        if ce[1] != be[1]:
            return f"call {ce[1]} vs {be[1]}", []
        if len(ce[2]) != len(be[2]):
            return f"call {ce[1]} argument count", []
        return None, list(zip(ce[2], be[2]))
    if k == "dev":
        if ce[1] != be[1]:
            return f"procedure {ce[1]} vs {be[1]}", []
        cd, bd = dict(ce[2]), dict(be[2])
        if set(cd) != set(bd):
            return f"{ce[1]}: parameters {sorted(set(cd) ^ set(bd))} not bound on both sides", []
        pairs = []
        for pn in cd:
            cv, bv = cd[pn], bd[pn]
            if cv[0] != bv[0]:
                return f"{ce[1]}.{pn}: {cv[0]} vs {bv[0]}", []
            if cv[0] == "r":
                if cv[1] != bv[1]:
                    return f"{ce[1]}.{pn}: record {cv[1]} vs {bv[1]}", []
            else:
                pairs.append((cv[1], bv[1], f"{ce[1]}.{pn}"))
        return None, pairs
    if k == "print":
        ce = ("print", norm_print(ce[1]))
        be = ("print", norm_print(be[1]))
        if len(ce[1]) != len(be[1]):
            return "print item count", []
        pairs = []
        for a, b in zip(ce[1], be[1]):
            if a[0] != b[0]:
                return "print item/separator order", []
            if a[0] == "sep":
                if a[1] != b[1]:
                    return "print separator", []
            else:
                pairs.append((a[1], b[1], "print item"))
        return None, pairs
    if k == "input":
        if ce[1] != be[1]:
            return f"input prompt {ce[1]!r} vs {be[1]!r}", []
        if len(ce[2]) != len(be[2]):
            return "input target count", []
        pairs = []
        for (cn, ci), (bn, bi) in zip(ce[2], be[2]):
            if cn != bn or len(ci) != len(bi):
                return f"input target {cn} vs {bn}", []
            pairs.extend((x, y, "input subscript") for x, y in zip(ci, bi))
        return None, pairs
    if k == "for":
        return None, [(ce[1], be[1], "FOR limit"), (ce[2], be[2], "FOR step")]
    if k == "poke":
        return None, [(ce[1], be[1], "poke address"), (ce[2], be[2], "poke value")]
    return None, []


def norm_print(items):
    """juxtaposed items are separated by an implicit `;`; an empty string literal prints nothing (the tool emits `""` in
    front of a leading or doubled separator because BASIC09's PRINT list cannot start with one)"""
    out = []
    for it in items:
        if it[0] == "item":
            if z3.is_string_value(it[1]) and it[1].as_string() == "":
                continue
            if out and out[-1][0] == "item":
                out.append(("sep", ";"))
            out.append(it)
        else:
            out.append(it)
    return out


def norm_pairs(pairs):
    out = []
    for p in pairs:
        if len(p) == 2:
            out.append((p[0], p[1], "operand"))
        else:
            out.append(p)
    return out


def compare(src, out_text, *, library, init_mode="symbolic", expect_prologue=False, step_bound=machine.STEP_BOUND,
            timeout_ms=10000, stats=None):
    res = Result()
    st = stats or smt.STATS
    try:
        cb_lines = cbfront.parse_program(src)
    except RefGap as e:
        res.status = "refgap"
        res.note = str(e)
        return res
    try:
        b_stmts = b09front.parse_program(out_text)
    except SyntaxErr as e:
        res.status = "syntax"
        res.findings.append(Finding("syntax", str(e)))
        return res
    mode = "bv" if needs_bv(cb_lines) else "real"
    sem = machine.Sem(mode)
    rm = refmap_mod.RefMap(library)
    cprog = machine.lower(cb_lines, "cb")
    bprog = machine.lower(b_stmts, "b09")
    for kind, detail in bprog.problems:
        res.findings.append(Finding(kind, str(detail)))
    counters = for_counters(cb_lines, b_stmts)
    cm = machine.Machine(cprog, sem, init_mode=init_mode, lib=library, refmap=rm)
    c0 = machine.initial_state()
    try:
        c_leaves = cm.run(c0, step_bound)
    except RuntimeError as e:
        res.status = "outside"
        res.note = str(e)
        return res
    res.counts["cb_paths"] = len(c_leaves)
    res.counts["forks"] += cm.stats["forks"]
    for cl in c_leaves:
        if cl.status == "bound":
            res.counts["cb_bound"] += 1
            continue
        if cl.status == "type-error":
            res.status = "outside"
            res.note = "source is ill-typed for the reference: " + str(cl.trace[-1])
            continue
        bm = machine.Machine(machine.lower(b_stmts, "b09"), sem, init_mode=init_mode, lib=library, refmap=rm)
        bm.p.decls = bprog.decls
        b0 = machine.initial_state()
        b0.cond = list(cl.cond)
        try:
            b_leaves = bm.run(b0, step_bound * 3)
        except RuntimeError as e:
            res.findings.append(Finding("path-explosion", str(e)))
            continue
        res.counts["b09_paths"] += len(b_leaves)
        res.counts["forks"] += bm.stats["forks"]
        for bl in b_leaves:
            compare_leaves(res, sem, cl, bl, counters, cm, bm, timeout_ms, st)
    return res


def compare_leaves(res, sem, cl, bl, counters, cm, bm, timeout_ms, st):
    res.counts["leaf_pairs"] += 1
    if bl.status == "zero-trip":
        res.counts["zero_trip"] += 1
        return
    c_events = [e for e in cl.trace]
    b_events = []
    for e in bl.trace:
        if e[0] in DIAG_KINDS:
            if e[0] not in ("os-call", "read-filter"):
                res.findings.append(Finding(e[0], " ".join(str(x) for x in e[1:])))
            continue
        b_events.append(e)
    if bl.status == "type-error":
        res.findings.append(Finding("type-error", str(bl.trace[-1][1])))
        return
    if bl.status == "loop":
        res.findings.append(Finding("nontermination", "the emitted program repeats a state forever while the source stops", {"path": [str(c) for c in bl.cond]}))
        return
    if bl.status == "bound":
        res.findings.append(Finding("b09-bound", "emitted program did not finish within 3x the step bound"))
        return
    pairs = []
    n = min(len(c_events), len(b_events))
    for i in range(n):
        mis, ps = event_pairs(c_events[i], b_events[i])
        if mis:
            res.findings.append(Finding("trace-differs", f"event {i}: {mis}", {"cb": describe(c_events), "b09": describe(b_events), "path": [str(c) for c in bl.cond]}))
            return
        pairs.extend(norm_pairs(ps))
    if len(c_events) != len(b_events):
        extra = c_events[n:] if len(c_events) > n else b_events[n:]
        side = "source" if len(c_events) > n else "emitted program"
        res.findings.append(Finding("trace-differs", f"{side} has extra events {describe(extra)}", {"cb": describe(c_events), "b09": describe(b_events), "path": [str(c) for c in bl.cond]}))
        return
    # final stores of user variables
    names = set()
    for key in list(cl.store) + list(bl.store):
        if TOOL_GLOBALS.match(key) or key in counters:
            continue
        names.add(key)
    if "PLAY.OCTO" in cl.defined:
        names.add("PLAY.OCTO")
    for key in sorted(names):
        cv = cm.read_var(cl, key)
        bv = bm.read_var(bl, key)
        if cv[0] != bv[0]:
            res.findings.append(Finding("store-differs", f"{key}: kinds {cv[0]} vs {bv[0]}"))
            return
        pairs.append((cv[1], bv[1], "final value of " + key))
    if cm.init_mode != "zero":
        for key in sorted(set(cl.arrays) | set(bl.arrays)):
            pairs.append((cm.array(cl, key), bm.array(bl, key), "final contents of " + key))
    for a, b, what in pairs:
        if a.sort() != b.sort():
            # e.g. a numeric operand that the emitted text passes as a string literal
            res.findings.append(Finding("trace-differs", f"{what}: {'s' if a.sort() == z3.StringSort() else 'n'} vs {'s' if b.sort() == z3.StringSort() else 'n'}"))
            return
    todo = [(a, b, what) for a, b, what in pairs if not a.eq(b)]
    st.bump("obligations")
    res.counts["obligations"] += 1
    if not todo:
        st.bump("identity")
        res.counts["identity"] += 1
        return
    base = list(bl.cond) + sem.range_assumptions
    goal = z3.Or(*[a != b for a, b, _ in todo])
    v, model = smt.check(base + [goal], timeout_ms, want_model=True, stats=st)
    st.bump(v)
    res.counts[v] += 1
    if v == "unsat":
        return
    if v == "unknown":
        res.findings.append(Finding("unknown", "solver gave no answer for " + ", ".join(w for _, _, w in todo)))
        return
    # confirm by evaluation under the model (independent of the search that found it)
    bad = []
    for a, b, what in todo:
        va = model.eval(a, model_completion=True)
        vb = model.eval(b, model_completion=True)
        if not z3.is_true(z3.simplify(va == vb)):
            bad.append((what, str(va), str(vb)))
    if not bad:
        res.findings.append(Finding("harness", "model does not separate the terms"))
        return
    vals = {}
    for d in model.decls():
        if d.arity() == 0:
            vals[d.name()] = str(model[d])
    res.findings.append(Finding("value-differs", "; ".join(f"{w}: source gives {x}, emitted gives {y}" for w, x, y in bad[:3]), {"model": vals, "where": [w for w, _, _ in bad]}))


def describe(events):
    out = []
    for e in events:
        if e[0] == "dev":
            out.append(f"RUN {e[1]}({', '.join(k for k, _ in e[2])})")
        elif e[0] == "call":
            out.append(f"{e[1]}({', '.join(str(x) for x in e[2])})")
        elif e[0] == "print":
            out.append("PRINT " + " ".join(("<item>" if a[0] == "item" else a[1]) for a in e[1]))
        else:
            out.append(" ".join(str(x) for x in e)[:60])
    return out


def compare_b09(text_a, text_b, *, library, init_mode="symbolic", step_bound=machine.STEP_BOUND, timeout_ms=10000, stats=None):
    """B09 <-> B09 equivalence of two emitted programs for all inputs (used for option pairs)"""
    res = Result()
    st = stats or smt.STATS
    try:
        a_stmts = b09front.parse_program(text_a)
        b_stmts = b09front.parse_program(text_b)
    except SyntaxErr as e:
        res.status = "syntax"
        res.findings.append(Finding("syntax", str(e)))
        return res
    mode = "bv" if (walk(a_stmts, lambda t: t[0] in ("and", "or", "not")) or walk(b_stmts, lambda t: t[0] in ("and", "or", "not"))) else "real"
    sem = machine.Sem(mode)
    rm = refmap_mod.RefMap(library)
    counters = for_counters(a_stmts, b_stmts)
    am = machine.Machine(machine.lower(a_stmts, "b09"), sem, init_mode=init_mode, lib=library, refmap=rm)
    try:
        a_leaves = am.run(machine.initial_state(), step_bound)
    except RuntimeError as e:
        res.status = "outside"
        res.note = str(e)
        return res
    res.counts["cb_paths"] = len(a_leaves)
    for al in a_leaves:
        if al.status == "bound":
            res.counts["cb_bound"] += 1
            continue
        bm = machine.Machine(machine.lower(b_stmts, "b09"), sem, init_mode=init_mode, lib=library, refmap=rm)
        b0 = machine.initial_state()
        b0.cond = list(al.cond)
        try:
            b_leaves = bm.run(b0, step_bound * 2)
        except RuntimeError as e:
            res.findings.append(Finding("path-explosion", str(e)))
            continue
        res.counts["b09_paths"] += len(b_leaves)
        for bl in b_leaves:
            # diagnostics are symmetric here: drop them from both traces
            al2 = al.clone()
            al2.trace = [e for e in al.trace if e[0] not in DIAG_KINDS]
            if al.status in ("loop", "type-error", "zero-trip") and bl.status == al.status:
                continue
            compare_leaves(res, sem, al2, bl, counters, am, bm, timeout_ms, st)
    return res
