"""Loader for the bundled runtime library coco/resources/ecb.b09: procedure headers, parameter lists, record types,
RUN edges - read from the real file at run time."""
import os
import re

from vf.core import REPO, HarnessError
from vf.tv.b09front import StmtParser, split_statements
from vf.tv.lex import SyntaxErr

SYSTEM_MODULES = {"gfx", "gfx2", "syscall", "inkey"}


class Proc:
    def __init__(self, name):
        self.name = name
        self.lines = []
        self.params = []  # (name, dims, typename, strlen)
        self.types = {}  # typename -> decl list
        self.dims = {}  # local name -> (dims, typename, strlen)
        self.runs = []  # (callee, args IR, raw text)

    def __repr__(self):
        return f"<Proc {self.name} params={[p[0] for p in self.params]}>"


def library_text():
    with open(os.path.join(REPO, "coco/resources/ecb.b09"), encoding="utf-8") as f:
        return f.read()


def load_library(text=None):
    text = library_text() if text is None else text
    procs = {}
    cur = None
    for raw in re.split(r"[\r\n]", text):
        m = re.match(r"(?i)\s*procedure\s+(\w+)\s*$", raw)
        if m:
            cur = Proc(m.group(1))
            if cur.name.lower() in procs:
                raise HarnessError(f"library defines {cur.name} twice")
            procs[cur.name.lower()] = cur
            continue
        if cur is None:
            if raw.strip():
                raise HarnessError(f"library text before the first procedure: {raw!r}")
            continue
        cur.lines.append(raw)
        s = raw.strip()
        if re.match(r"(?i)(param|type|dim)\b", s):
            try:
                st = StmtParser(s).parse()
            except SyntaxErr as e:
                raise HarnessError(f"cannot read library declaration {s!r}: {e}")
            if st[0] == "param":
                cur.params.extend(st[1])
            elif st[0] == "type":
                cur.types[st[1]] = st[2]
            elif st[0] == "dim":
                for name, dims, tname, slen in st[1]:
                    cur.dims[name.lower()] = (dims, tname, slen)
        elif re.search(r"(?i)\brun\b", s) and not s.startswith("(*") and not re.match(r"(?i)rem\b", s):
            try:
                parts = split_statements(raw)
            except SyntaxErr:
                parts = [raw]
            for part in parts:
                pm = re.search(r"(?i)\brun\s+\w+", re.sub(r'"[^"]*"', '""', part))
                if not pm:
                    continue
                frag = part[part.lower().find("run"):]
                # strip a leading 'then' clause etc.: take from RUN to end of statement
                try:
                    st = StmtParser(frag).parse()
                except SyntaxErr as e:
                    raise HarnessError(f"cannot read library call {frag!r} in {cur.name}: {e}")
                if st[0] != "run":
                    raise HarnessError(f"library call not recognised: {frag!r}")
                cur.runs.append((st[1], st[2], part.strip()))
    return procs


def type_class(tname):
    t = tname.lower()
    if t == "string":
        return "s"
    if t in ("real", "integer", "byte"):
        return "n"
    if t == "boolean":
        return "b"
    return "r:" + t
