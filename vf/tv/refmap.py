"""Reference map: which runtime procedure implements which Color BASIC statement / function, and which source operand
belongs to which *named* parameter of that procedure.  Written from the Extended / Super Extended Color BASIC manuals'
operand order, independent of parser.py.  Parameter positions are then taken from the real ecb.b09 `param` lines, so a
parameter moved in the library without the call being moved (or the reverse) is a mismatch."""
import z3

from vf.tv import lib as tvlib
from vf.tv.machine import RunErr, TypeErr

HFORE = ("deffore",)
REC_DISPLAY = ("rec", "DISPLAY")
REC_PLAY = ("rec", "PLAY")
REC_PID = ("rec", "PID")


def op(name, default=None):
    return ("op", name, default)


# statement -> (procedure, {parameter name: source})
DEVICES = {
    "CLS": ("ecb_cls", {"color": op("c", 1.0), "display": REC_DISPLAY}),
    "AT": ("ecb_at", {"location": op("p")}),
    "LOCATE": ("ecb_locate", {"x": op("x"), "y": op("y")}),
    "ATTR": ("ecb_attr", {"f": op("c1"), "b": op("c2"), "bk": ("flag", "B"), "undr": ("flag", "U"), "display": REC_DISPLAY}),
    "WIDTH": ("_ecb_width", {"width": op("n"), "display": REC_DISPLAY}),
    "PALETTE": ("ecb_set_palette", {"pr": op("r"), "cc": op("c"), "display": REC_DISPLAY}),
    "PALETTE_RGB": ("ecb_set_palette_rgb", {"display": REC_DISPLAY}),
    "PALETTE_CMP": ("ecb_set_palette_cmp", {"display": REC_DISPLAY}),
    "HSCREEN": ("ecb_hscreen", {"n": op("n", 0.0), "display": REC_DISPLAY}),
    "HCLS": ("ecb_hcls", {"n": op("c", -1.0), "display": REC_DISPLAY}),
    "HCOLOR": ("ecb_hcolor", {"f": op("f"), "b": op("b", -1.0), "display": REC_DISPLAY}),
    "HCIRCLE": ("ecb_hcircle", {"x": op("x"), "y": op("y"), "r": op("r"), "c": op("c", HFORE), "rt": op("hw", 1.0), "display": REC_DISPLAY}),
    "HARC": ("ecb_harc", {"x": op("x"), "y": op("y"), "r": op("r"), "c": op("c", HFORE), "rt": op("hw", 1.0), "sp": op("s"), "ep": op("e"), "display": REC_DISPLAY}),
    "HLINE": ("ecb_hline", {"rd": ("relword",), "x0": op("x0", 0.0), "y0": op("y0", 0.0), "x1": op("x1"), "y1": op("y1"), "m": ("word", "m"), "t": ("word", "t"), "display": REC_DISPLAY}),
    "HSET": ("ecb_hset", {"x": op("x"), "y": op("y"), "display": REC_DISPLAY}),
    "HSET3": ("ecb_hset3", {"x": op("x"), "y": op("y"), "c": op("c"), "display": REC_DISPLAY}),
    "HRESET": ("ecb_hreset", {"x": op("x"), "y": op("y"), "display": REC_DISPLAY}),
    "HPAINT": ("ecb_hpaint", {"x": op("x"), "y": op("y"), "c": op("c", HFORE), "c0": op("b", HFORE), "d": REC_DISPLAY}),
    "HPRINT": ("ecb_hprint", {"x": op("x"), "y": op("y"), "txt": ("text", "e"), "display": REC_DISPLAY}),
    "HDRAW": ("ecb_hdraw", {"s": op("s"), "d": REC_DISPLAY}),
    "PLAY": ("ecb_play", {"s": op("s"), "p": REC_PLAY}),
    "HBUFF": ("_ecb_hbuff", {"b": op("b"), "s": op("s"), "pid": REC_PID, "d": REC_DISPLAY}),
    "HGET": ("ecb_hget", {"x0": op("x0"), "y0": op("y0"), "x1": op("x1"), "y1": op("y1"), "b": op("b"), "p": REC_PID, "d": REC_DISPLAY}),
    "HPUT": ("ecb_hput", {"x0": op("x0"), "y0": op("y0"), "x1": op("x1"), "y1": op("y1"), "b": op("b"), "a": ("word", "a"), "p": REC_PID, "d": REC_DISPLAY}),
    "SET": ("ecb_set", {"x": op("x"), "y": op("y"), "c": op("c")}),
    "RESET": ("ecb_reset", {"x": op("x"), "y": op("y")}),
    "SOUND": ("ecb_sound", {"f": op("f"), "d": op("d"), "v": ("const", 31.0), "o": ("octave",)}),
    "INPUT_PREFIX": ("_ecb_input_prefix", {}),
    "INPUT_SUFFIX": ("_ecb_input_suffix", {}),
}

# procedure -> (Color BASIC function, input parameter names in source-argument order, output parameter name)
FUNC_PROCS = {
    "ecb_int": ("INT", ["v"], "retval"),
    "ecb_val": ("VAL", ["str"], "valout"),
    "ecb_str": ("STR$", ["valin"], "valout"),
    "ecb_hex": ("HEX$", ["v"], "str"),
    "ecb_instr": ("INSTR", ["index", "str0", "str1"], "outindex"),
    "ecb_string": ("STRING$", ["count", "str"], "strout"),
    "ecb_button": ("BUTTON", ["button"], "retval"),
    "ecb_joystk": ("JOYSTK", ["joystk"], "retval"),
    "ecb_point": ("POINT", ["x", "y"], "c0"),
    "ecb_read_filter": ("READFILTER", ["inval"], "outval"),
}
RESULT_KIND = {"INT": "n", "VAL": "n", "STR$": "s", "HEX$": "s", "INSTR": "n", "STRING$": "s", "BUTTON": "n",
               "JOYSTK": "n", "POINT": "n", "READFILTER": "n", "INKEY$": "s"}
# the OS-9 system module `inkey` takes one string parameter (the key read)
SYSTEM_SIGS = {"inkey": [("k", None, "string", None)]}


class RefMap:
    def __init__(self, library):
        self.lib = library

    # ------------------------------------------------------------------ Color BASIC side: what should happen
    def cb_device(self, m, st, name, ops):
        if name not in DEVICES:
            raise RunErr(f"no reference entry for {name}")
        proc, pmap = DEVICES[name]
        vals = {}
        # evaluate operands in source order first (evaluation events of nested convertible functions)
        evald = {}
        for key, e in ops.items():
            if e is None or (isinstance(e, tuple) and e and e[0] == "word"):
                continue
            evald[key] = m.ev(st, e)
        for pname, src in pmap.items():
            kind = src[0]
            if kind == "op":
                _, key, default = src
                if key in evald:
                    v = evald[key]
                    vals[pname] = v
                elif default is None:
                    raise RunErr(f"{name}: operand {key} missing")
                elif default == HFORE:
                    vals[pname] = m.read_var(st, "DISPLAY.HFORE")
                else:
                    vals[pname] = ("n", m.sem.num(default))
            elif kind == "rec":
                vals[pname] = ("r", src[1])
            elif kind == "flag":
                vals[pname] = ("n", m.sem.num(1.0 if ops[src[1]][1] else 0.0))
            elif kind == "word":
                vals[pname] = ("s", z3.StringVal(ops[src[1]][1]))
            elif kind == "relword":
                vals[pname] = ("s", z3.StringVal("r" if ops["rel"][1] else "d"))
            elif kind == "const":
                vals[pname] = ("n", m.sem.num(src[1]))
            elif kind == "octave":
                vals[pname] = ("n", m.sem.apply("FIX", [m.read_var(st, "PLAY.OCTO")[1]], "n"))
            elif kind == "text":
                v = evald[src[1]]
                if v[0] == "n":
                    v = ("s", m.convertible(st, "STR$", [v[1]], "s"))
                vals[pname] = v
        st.trace.append(("dev", proc, tuple(sorted((k, v) for k, v in vals.items()))))

    # ------------------------------------------------------------------ BASIC09 side: what the emitted RUN does
    def b09_run(self, m, st, name, args):
        lname = name.lower()
        proc = self.lib.get(lname)
        if proc is None:
            if lname in SYSTEM_SIGS:
                params = SYSTEM_SIGS[lname]
            elif lname in tvlib.SYSTEM_MODULES:
                st.trace.append(("os-call", lname))
                return
            else:
                st.trace.append(("unresolved", lname))
                raise RunErr(f"RUN of unknown procedure {name}")
        else:
            params = proc.params
        if len(args) != len(params):
            st.trace.append(("arity", lname, len(args), len(params)))
        bound = {}
        for (pname, dims, tname, slen), a in zip(params, args):
            bound[pname.lower()] = (a, tvlib.type_class(tname))
        if lname == "inkey":
            self._function_call(m, st, "INKEY$", [], bound.get("k"), lname)
            return
        if lname in FUNC_PROCS and len(args) != len(params) and len(args) == len(FUNC_PROCS[lname][1]) + 1:
            # interface mismatch (reported as `arity`, C14): keep executing with the evident intent - inputs first,
            # result variable last - so that order / once / first (C05) stay observable
            fname, ins, outp = FUNC_PROCS[lname]
            vals = [m.ev(st, a)[1] for a in args[:-1]]
            self._function_call(m, st, fname, vals, (args[-1], "n"), lname)
            return
        if lname in FUNC_PROCS:
            fname, ins, outp = FUNC_PROCS[lname]
            vals = []
            for pn in ins:
                if pn not in bound:
                    st.trace.append(("missing-argument", lname, pn))
                    raise RunErr("argument missing")
                a, tc = bound[pn]
                v = m.ev(st, a)
                self._class_check(st, lname, pn, v, tc, a, m)
                vals.append(v[1])
            self._function_call(m, st, fname, vals, bound.get(outp), lname)
            return
        vals = {}
        for pn, (a, tc) in bound.items():
            if tc.startswith("r:") or (a[0] == "var" and a[1] in ("DISPLAY", "PLAY", "PID")):
                if a[0] != "var":
                    st.trace.append(("type-class", lname, pn, "record parameter given an expression"))
                    vals[pn] = ("r", "?")
                else:
                    vals[pn] = ("r", a[1])
                    self._record_check(st, m, lname, pn, a[1], tc)
                continue
            v = m.ev(st, a)
            self._class_check(st, lname, pn, v, tc, a, m)
            vals[pn] = v
        st.trace.append(("dev", lname, tuple(sorted((k, v) for k, v in vals.items()))))

    def _record_check(self, st, m, lname, pn, varname, tc):
        decl = m.p.decls.get(varname)
        if decl is None:
            return
        declared = decl[1]
        want = tc[2:] if tc.startswith("r:") else tc
        if tc.startswith("r:") and declared != want:
            st.trace.append(("type-class", lname, pn, f"{varname} is {declared}, parameter is {want}"))
        if not tc.startswith("r:") and declared not in ("integer", "byte", "real"):
            st.trace.append(("type-class", lname, pn, f"{varname} is {declared}, parameter is {tc}"))

    def _class_check(self, st, lname, pn, v, tc, a, m):
        have = v[0]
        if tc.startswith("r:"):
            st.trace.append(("type-class", lname, pn, "record parameter given a value"))
        elif tc != have:
            st.trace.append(("type-class", lname, pn, f"parameter is {tc}, argument is {have}"))
        if a[0] in ("var", "idx"):
            decl = m.p.decls.get(a[1])
            if decl is not None and tvlib.type_class(decl[1]) != tc and not tc.startswith("r:"):
                st.trace.append(("type-class", lname, pn, f"{a[1]} declared {decl[1]}"))

    def _function_call(self, m, st, fname, vals, out, lname):
        res = RESULT_KIND[fname]
        if fname == "READFILTER":
            # contract of ecb_read_filter: numeric value of the item, 0 for the empty item (checked against the text by C20)
            value = None
            if len(vals) == 1 and z3.is_string_value(vals[0]):
                text = vals[0].as_string()
                try:
                    value = m.sem.num(0.0 if text == "" else float(text))
                except ValueError:
                    value = None
            if value is None:
                value = m.sem.apply("READFILTER", list(vals), "n")
            st.trace.append(("read-filter", tuple(vals)))
        else:
            value = m.convertible(st, fname, vals, res)
        if out is None:
            st.trace.append(("missing-argument", lname, "result"))
            return
        a, tc = out
        if a[0] not in ("var", "idx"):
            st.trace.append(("type-class", lname, "result", "result parameter is not a variable"))
            return
        kind = m.kind_of_name(a[1])
        if kind != res:
            st.trace.append(("type-class", lname, "result", f"result is {res}, variable {a[1]} is {kind}"))
            # keep executing with a value of the variable's own kind so later uses stay typed
            value = m.sem.apply("COERCE_" + res + kind, [value], kind)
        m.assign(st, a, (kind, value))
