"""Independent reader for the BASIC09 text the tool emits (and for the bundled runtime library): text -> IR.

Precedence per the BASIC09 reference manual: NOT and unary minus bind tightest, then ^ / **, then * /, then + -,
then relations, then AND, then OR / XOR; equal precedence groups to the left.  Typing: relations and AND/OR/NOT/TRUE/
FALSE are boolean; LAND/LOR/LXOR/LNOT are numeric functions.

Everything that is not a complete, well-formed statement raises SyntaxErr - that is the structural part of C07.
"""
import re

from vf.tv.lex import Cursor, SyntaxErr, b09_tokens

RELOPS = {"=": "=", "<": "<", ">": ">", "<=": "<=", ">=": ">=", "<>": "<>", "=<": "<=", "=>": ">=", "><": "<>"}
KEYWORDS = {
    "IF", "THEN", "ELSE", "ENDIF", "FOR", "TO", "STEP", "NEXT", "WHILE", "DO", "ENDWHILE", "REPEAT", "UNTIL", "LOOP",
    "ENDLOOP", "EXITIF", "ENDEXIT", "GOTO", "GOSUB", "RETURN", "ON", "ERROR", "END", "STOP", "PRINT", "INPUT", "READ",
    "DATA", "RESTORE", "POKE", "LET", "RUN", "DIM", "PARAM", "TYPE", "BASE", "PROCEDURE", "REM", "AND", "OR", "XOR",
    "NOT", "TRON", "TROFF", "USING", "BYE", "CHAIN", "SHELL", "KILL", "OPEN", "CLOSE", "CREATE", "SEEK", "GET", "PUT",
    "DELETE", "CHD", "CHX", "DEG", "RAD", "PAUSE", "WRITE",
}
# reserved words that can never be a variable (trusted data, deliberately short: only words I am sure of)
RESERVED_AS_VARIABLE = {"DO", "ON", "PI", "IF", "OR", "TO"} | KEYWORDS
NUM_BUILTINS = {"ABS", "ATN", "COS", "EXP", "FIX", "INT", "LOG", "PEEK", "RND", "SGN", "SIN", "SQR", "SQRT", "TAN", "LEN",
                "ASC", "VAL", "FLOAT", "ADDR", "LAND", "LOR", "LXOR", "LNOT", "MOD", "SQ", "SIZE", "POS", "ERR", "SUBSTR"}
STR_BUILTINS = {"CHR$", "STR$", "LEFT$", "RIGHT$", "MID$", "TRIM$", "DATE$", "TAB"}
ARITY = {"ABS": 1, "ATN": 1, "COS": 1, "EXP": 1, "FIX": 1, "INT": 1, "LOG": 1, "PEEK": 1, "RND": 1, "SGN": 1, "SIN": 1,
         "SQR": 1, "SQRT": 1, "TAN": 1, "LEN": 1, "ASC": 1, "VAL": 1, "FLOAT": 1, "ADDR": 1, "LAND": 2, "LOR": 2,
         "LXOR": 2, "LNOT": 1, "MOD": 2, "SQ": 1, "SIZE": 1, "CHR$": 1, "STR$": 1, "LEFT$": 2, "RIGHT$": 2, "MID$": 3,
         "TRIM$": 1, "TAB": 1, "SUBSTR": 2}


def canon(name):
    """identifiers are case-insensitive"""
    u = name.upper()
    return "arr_" + u[4:] if u.startswith("ARR_") else u


class ExprParser:
    def __init__(self, cur):
        self.c = cur

    def parse(self):
        return self.p_or()

    def _kw(self, *words):
        k, v = self.c.peek()
        return k == "id" and v.upper() in words

    def p_or(self):
        left = self.p_and()
        while self._kw("OR", "XOR"):
            w = self.c.next()[1].upper()
            left = ("bor" if w == "OR" else "bxor", left, self.p_and())
        return left

    def p_and(self):
        left = self.p_rel()
        while self._kw("AND"):
            self.c.next()
            left = ("band", left, self.p_rel())
        return left

    def p_rel(self):
        left = self.p_add()
        while self.c.peek()[0] == "op" and self.c.peekv() in RELOPS:
            op = RELOPS[self.c.next()[1]]
            left = ("rel", op, left, self.p_add())
        return left

    def p_add(self):
        left = self.p_mul()
        while self.c.peek()[0] == "op" and self.c.peekv() in ("+", "-"):
            op = self.c.next()[1]
            left = ("bin", op, left, self.p_mul())
        return left

    def p_mul(self):
        left = self.p_pow()
        while self.c.peek()[0] == "op" and self.c.peekv() in ("*", "/"):
            op = self.c.next()[1]
            left = ("bin", op, left, self.p_pow())
        return left

    def p_pow(self):
        left = self.p_unary()
        while self.c.peek()[0] == "op" and self.c.peekv() in ("^", "**"):
            self.c.next()
            left = ("bin", "^", left, self.p_unary())
        return left

    def p_unary(self):
        c = self.c
        if c.peek()[0] == "op" and c.peekv() in ("-", "+"):
            op = c.next()[1]
            return ("un", op, self.p_unary())
        if self._kw("NOT"):
            c.next()
            return ("bnot", self.p_unary())
        return self.atom()

    def args(self):
        c = self.c
        c.expect("(", SyntaxErr)
        if c.peekv() == ")":
            raise SyntaxErr("empty argument list")
        out = [self.parse()]
        while c.accept(","):
            out.append(self.parse())
        c.expect(")", SyntaxErr)
        return out

    def atom(self):
        c = self.c
        kind, v = c.next()
        if kind is None:
            raise SyntaxErr("operand missing at end of expression")
        if kind == "num":
            return ("num", float(v))
        if kind == "hex":
            h = int(v[1:], 16)
            if h > 0xFFFF:
                raise SyntaxErr("hex literal wider than 16 bits")
            return ("num", float(h - 0x10000 if h >= 0x8000 else h))
        if kind == "str":
            return ("str", v[1:-1].replace('""', '"'))
        if kind == "op" and v == "(":
            e = self.parse()
            c.expect(")", SyntaxErr)
            return ("par", e)
        if kind == "id":
            u = v.upper()
            if u == "TRUE":
                return ("bool", True)
            if u == "FALSE":
                return ("bool", False)
            if u in ("ERRNUM",):
                return ("var", "ERRNUM")
            if u == "PI":
                return ("call", "PI", [])
            if u in NUM_BUILTINS or u in STR_BUILTINS:
                if c.peekv() != "(":
                    if u in ("ERR", "POS"):
                        return ("call", u, [])
                    raise SyntaxErr(f"function {u} without argument list")
                a = self.args()
                if u in ARITY and len(a) != ARITY[u]:
                    raise SyntaxErr(f"function {u} called with {len(a)} arguments")
                if u == "LAND":
                    return ("and", a[0], a[1])
                if u == "LOR":
                    return ("or", a[0], a[1])
                if u == "LNOT":
                    return ("not", a[0])
                if u == "FLOAT":
                    return ("call", "FLOAT", a)
                return ("call", "SQR" if u == "SQRT" else u, a)
            if u in KEYWORDS:
                raise SyntaxErr(f"keyword {u} where an operand is expected")
            if c.peekv() == "(":
                return ("idx", canon(v), self.args())
            return ("var", canon(v))
        raise SyntaxErr(f"unexpected token {v!r} where an operand is expected")


def split_statements(line):
    r"""split a physical line on '\' outside string literals and comments"""
    out = []
    cur = []
    i = 0
    n = len(line)
    inq = False
    while i < n:
        ch = line[i]
        if inq:
            cur.append(ch)
            if ch == '"':
                inq = False
            i += 1
            continue
        if ch == '"':
            inq = True
            cur.append(ch)
        elif ch == "(" and line.startswith("(*", i):
            cur.append(line[i:])
            i = n
            break
        elif ch == "\\":
            out.append("".join(cur))
            cur = []
        else:
            cur.append(ch)
        i += 1
    if inq:
        raise SyntaxErr("unterminated string literal")
    out.append("".join(cur))
    return out


LABEL_RE = re.compile(r"\s*(\d+)(?:\s+|$)(.*)$", re.S)


class StmtParser:
    def __init__(self, text):
        self.text = text
        t = text.strip()
        if t.startswith("(*") or re.match(r"(?i)rem\b", t):
            self.c = Cursor([])
        else:
            self.c = Cursor(b09_tokens(text))
        self.e = ExprParser(self.c)

    def expr(self):
        return self.e.parse()

    def kw(self, *words):
        k, v = self.c.peek()
        return k == "id" and v.upper() in words

    def lvalue(self):
        c = self.c
        k, v = c.next()
        if k != "id":
            raise SyntaxErr(f"variable expected, found {v!r}")
        u = v.upper()
        if u in RESERVED_AS_VARIABLE:
            raise SyntaxErr(f"reserved word {u} used as a variable")
        if c.peekv() == "(":
            return ("idx", canon(v), self.e.args())
        return ("var", canon(v))

    def end(self):
        if not self.c.at_end():
            raise SyntaxErr(f"junk after statement: {self.c.peekv()!r} in {self.text.strip()!r}")

    def linenum(self):
        k, v = self.c.next()
        if k != "num" or not v.isdigit():
            raise SyntaxErr(f"line number expected, found {v!r}")
        return int(v)

    def parse(self):
        """-> one IR statement, or a block marker ('ifopen', cond) / ('else',) / ('endif',) / ('loop',) ..."""
        c = self.c
        t = self.text.strip()
        if t.startswith("(*"):
            return ("rem", t)
        if re.match(r"(?i)rem\b", t):
            return ("rem", t)
        if c.at_end():
            return None
        k, v = c.peek()
        if k != "id":
            raise SyntaxErr(f"statement expected, found {v!r}")
        u = v.upper()
        if u == "IF":
            c.next()
            cond = self.expr()
            if not self.kw("THEN"):
                raise SyntaxErr("THEN expected")
            c.next()
            if c.at_end():
                return ("ifopen", cond)
            if c.peek()[0] == "num":
                n = self.linenum()
                self.end()
                return ("ifgoto", cond, n)
            rest = StmtParser.__new__(StmtParser)
            rest.text = self.text
            rest.c = c
            rest.e = self.e
            return ("ifopen+", cond, rest.parse())
        if u == "ELSE":
            c.next()
            if c.at_end():
                return ("else",)
            return ("else+", self.parse())
        if u in ("ENDIF", "LOOP", "ENDLOOP", "ENDEXIT", "ENDWHILE", "REPEAT"):
            c.next()
            self.end()
            return (u.lower(),)
        if u == "EXITIF":
            c.next()
            cond = self.expr()
            if not self.kw("THEN"):
                raise SyntaxErr("THEN expected after EXITIF")
            c.next()
            self.end()
            return ("exitif", cond)
        if u == "WHILE":
            c.next()
            cond = self.expr()
            if not self.kw("DO"):
                raise SyntaxErr("DO expected after WHILE")
            c.next()
            self.end()
            return ("while", cond)
        if u == "UNTIL":
            c.next()
            cond = self.expr()
            self.end()
            return ("until", cond)
        if u == "FOR":
            c.next()
            var = self.lvalue()
            if not (c.accept("=") or c.accept(":=")):
                raise SyntaxErr("= expected in FOR")
            start = self.expr()
            if not self.kw("TO"):
                raise SyntaxErr("TO expected in FOR")
            c.next()
            limit = self.expr()
            step = None
            if self.kw("STEP"):
                c.next()
                step = self.expr()
            self.end()
            return ("for", var, start, limit, step)
        if u == "NEXT":
            c.next()
            if c.at_end():
                raise SyntaxErr("NEXT without a variable")
            var = self.lvalue()
            self.end()
            return ("next", [var])
        if u in ("GOTO", "GOSUB"):
            c.next()
            n = self.linenum()
            self.end()
            return (u.lower(), n)
        if u == "ON":
            c.next()
            if self.kw("ERROR"):
                c.next()
                if c.at_end():
                    return ("onerror", None)
                if not self.kw("GOTO"):
                    raise SyntaxErr("GOTO expected after ON ERROR")
                c.next()
                n = self.linenum()
                self.end()
                return ("onerror", n)
            sel = self.expr()
            if not self.kw("GOTO", "GOSUB"):
                raise SyntaxErr("GOTO/GOSUB expected in ON")
            kind = c.next()[1].lower()
            ns = [self.linenum()]
            while c.accept(","):
                ns.append(self.linenum())
            self.end()
            return ("on", sel, kind, ns)
        if u in ("RETURN", "END", "STOP", "RESTORE", "TRON", "TROFF", "BYE"):
            c.next()
            if u == "END" and not c.at_end():
                self.expr()
            self.end()
            return (u.lower(),)
        if u == "ERROR":
            c.next()
            e = self.expr()
            self.end()
            return ("error", e)
        if u == "PRINT":
            c.next()
            items = []
            if c.accept("#"):
                self.expr()
                if not c.at_end():
                    c.expect(",", SyntaxErr)
            if self.kw("USING"):
                raise SyntaxErr("PRINT USING is not produced by the tool")
            while not c.at_end():
                if c.peek()[0] == "op" and c.peekv() in (";", ","):
                    if not items or items[-1][0] == "sep":
                        # BASIC09's PRINT list is item {separator item} [separator]: a separator needs an item before it
                        # (the tool writes an empty string literal there)
                        raise SyntaxErr("PRINT separator without an item before it")
                    items.append(("sep", c.next()[1]))
                else:
                    if items and items[-1][0] == "e":
                        raise SyntaxErr("two PRINT items without a separator")
                    items.append(("e", self.expr()))
            return ("print", None, items, False)
        if u == "INPUT":
            c.next()
            if c.accept("#"):
                self.expr()
                c.expect(",", SyntaxErr)
            prompt = None
            if c.peek()[0] == "str":
                prompt = c.next()[1][1:-1]
                c.expect(",", SyntaxErr)
            lvs = [self.lvalue()]
            while c.accept(","):
                lvs.append(self.lvalue())
            self.end()
            return ("input", False, prompt, lvs)
        if u == "READ":
            c.next()
            lvs = [self.lvalue()]
            while c.accept(","):
                lvs.append(self.lvalue())
            self.end()
            return ("read", lvs)
        if u == "DATA":
            c.next()
            items = []
            while True:
                e = self.expr()
                if e[0] == "un" and e[2][0] == "num":
                    e = ("num", -e[2][1] if e[1] == "-" else e[2][1])
                if e[0] == "call" and e[1] == "FLOAT" and e[2][0][0] == "num":
                    e = e[2][0]  # BASIC09 DATA items are expressions; float($hh) is a constant one
                if e[0] not in ("num", "str"):
                    raise SyntaxErr("DATA item is not a constant")
                items.append(e)
                if not c.accept(","):
                    break
            self.end()
            return ("data", items)
        if u == "POKE":
            c.next()
            a = self.expr()
            c.expect(",", SyntaxErr)
            b = self.expr()
            self.end()
            return ("poke", a, b)
        if u == "RUN":
            c.next()
            k2, name = c.next()
            if k2 != "id":
                raise SyntaxErr("procedure name expected after RUN")
            args = []
            if not c.at_end():
                args = self.e.args()
            self.end()
            return ("run", name, args)
        if u == "BASE":
            c.next()
            k2, n = c.next()
            if n not in ("0", "1"):
                raise SyntaxErr("BASE 0 or BASE 1 expected")
            self.end()
            return ("base", int(n))
        if u in ("DIM", "PARAM"):
            c.next()
            return (u.lower(), self.decls())
        if u == "TYPE":
            c.next()
            k2, name = c.next()
            c.expect("=", SyntaxErr)
            return ("type", name.lower(), self.decls())
        if u in ("SHELL", "CHD", "CHX", "KILL", "CLOSE", "OPEN", "CREATE", "SEEK", "GET", "PUT", "DELETE", "DEG", "RAD", "PAUSE", "WRITE", "CHAIN"):
            while not c.at_end():
                c.next()
            return ("os", u)
        if u == "LET":
            c.next()
        lv = self.lvalue()
        if not (c.accept(":=") or c.accept("=")):
            raise SyntaxErr(f"assignment expected in {t!r}")
        e = self.expr()
        self.end()
        return ("assign", lv, e)

    def decls(self):
        """name[(dims)] {, name[(dims)]} [: type] {; ...}  -> list of (name, dims|None, typename, strlen|None)"""
        c = self.c
        out = []
        while True:
            group = []
            while True:
                k, v = c.next()
                if k != "id":
                    raise SyntaxErr(f"name expected in declaration, found {v!r}")
                dims = None
                if c.accept("("):
                    dims = []
                    while True:
                        kd, vd = c.next()
                        if kd == "num" and vd.isdigit():
                            dims.append(int(vd))
                        elif kd == "hex":
                            dims.append(int(vd[1:], 16))
                        else:
                            raise SyntaxErr("array extent must be an integer constant")
                        if not c.accept(","):
                            break
                    c.expect(")", SyntaxErr)
                group.append((v, dims))
                if not c.accept(","):
                    break
            tname, slen = None, None
            if c.accept(":"):
                k, v = c.next()
                if k != "id":
                    raise SyntaxErr("type name expected")
                tname = v.lower()
                if tname == "string":
                    if c.accept("["):
                        kd, vd = c.next()
                        if kd != "num" or not vd.isdigit():
                            raise SyntaxErr("STRING[n] needs an integer constant")
                        slen = int(vd)
                        c.expect("]", SyntaxErr)
                    elif c.peekv() == "<":
                        # STRING<<>> placeholder of the library source
                        got = ""
                        while c.peekv() in ("<", ">", "<>", "><"):
                            got += c.next()[1]
                        if got != "<<>>":
                            raise SyntaxErr("malformed STRING<<>> placeholder")
                        slen = -1
            for name, dims in group:
                # without a type clause the name decides: a trailing $ means STRING, otherwise REAL
                out.append((name, dims, tname or ("string" if name.endswith("$") else "real"), slen))
            if not c.accept(";"):
                break
        self.end()
        return out


def parse_lines(text):
    """text -> flat list of ('label', n) and statement/marker tuples, physical-line aware"""
    flat = []
    for raw in text.split("\n"):
        line = raw.rstrip("\r")
        if line.strip() == "":
            continue
        flat.append(("line",))
        m = LABEL_RE.match(line)
        if m and not line.strip().upper().startswith(("DATA",)):
            flat.append(("label", int(m.group(1))))
            line = m.group(2)
        for part in split_statements(line):
            if part.strip() == "":
                continue
            st = StmtParser(part).parse()
            while st is not None:
                if st[0] == "ifopen+":
                    flat.append(("ifopen", st[1]))
                    st = st[2]
                elif st[0] == "else+":
                    flat.append(("else",))
                    st = st[1]
                else:
                    flat.append(st)
                    st = None
    return flat


def build_blocks(flat):
    """assemble IF/ELSE/ENDIF, LOOP/EXITIF/ENDEXIT/ENDLOOP, WHILE/ENDWHILE, REPEAT/UNTIL into nested statements and
    check that FOR/NEXT nest properly with them.  -> list of statements (labels stay as ('label', n))"""
    pos = 0

    def block(closers):
        nonlocal pos
        out = []
        while pos < len(flat):
            st = flat[pos]
            k = st[0]
            if k in closers:
                return out, k
            pos += 1
            if k == "ifopen":
                then, closer = block(("else", "endif"))
                els = None
                if closer == "else":
                    pos += 1
                    els, closer = block(("endif",))
                if closer != "endif":
                    raise SyntaxErr("IF without ENDIF")
                pos += 1
                out.append(("if", st[1], then, els))
            elif k == "loop":
                body, closer = block(("endloop",))
                if closer != "endloop":
                    raise SyntaxErr("LOOP without ENDLOOP")
                pos += 1
                out.append(("loop", body))
            elif k == "exitif":
                body, closer = block(("endexit",))
                if closer != "endexit":
                    raise SyntaxErr("EXITIF without ENDEXIT")
                pos += 1
                out.append(("exitif", st[1], body))
            elif k == "while":
                body, closer = block(("endwhile",))
                if closer != "endwhile":
                    raise SyntaxErr("WHILE without ENDWHILE")
                pos += 1
                out.append(("while", st[1], body))
            elif k == "repeat":
                body, closer = block(("until",))
                if closer != "until":
                    raise SyntaxErr("REPEAT without UNTIL")
                cond = flat[pos][1]
                pos += 1
                out.append(("repeat", body, cond))
            elif k in ("else", "endif", "endloop", "endexit", "endwhile", "until"):
                raise SyntaxErr(f"{k.upper()} without opener")
            else:
                out.append(st)
        return out, None

    stmts, closer = block(())
    if pos != len(flat):
        raise SyntaxErr(f"unbalanced block structure at {flat[pos]!r}")
    check_for_next(stmts)
    return stmts


def check_for_next(stmts):
    """FOR/NEXT must pair up inside the same block (BASIC09 compiles them lexically)"""
    stack = []
    for st in stmts:
        k = st[0]
        if k == "for":
            stack.append(st[1])
        elif k == "next":
            if not stack:
                raise SyntaxErr("NEXT without FOR in the same block")
            v = stack.pop()
            if st[1] and st[1][0] != v:
                raise SyntaxErr(f"NEXT {st[1][0][1]} closes FOR {v[1]}")
        elif k == "if":
            check_for_next(st[2])
            if st[3] is not None:
                check_for_next(st[3])
        elif k in ("loop",):
            check_for_next(st[1])
        elif k in ("exitif", "while"):
            check_for_next(st[2])
        elif k == "repeat":
            check_for_next(st[1])
    if stack:
        raise SyntaxErr(f"FOR {stack[-1][1]} without NEXT in the same block")


def parse_program(text):
    return build_blocks(parse_lines(text))


def parse_expression(text):
    cur = Cursor(b09_tokens(text))
    e = ExprParser(cur).parse()
    if not cur.at_end():
        raise SyntaxErr(f"trailing tokens in expression: {cur.peekv()!r}")
    return e
