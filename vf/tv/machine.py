"""Symbolic small-step executor shared by the Color BASIC and BASIC09 front ends (E3).

Values: ('n', numeric z3 term) ('s', z3 String) ('b', z3 Bool).  Numeric sort is Real (no bitwise operator in the
program) or a signed 16-bit vector (numeric AND/OR/NOT present; inputs assumed within -6..6 so nothing overflows).
Functions that both dialects have under one name, `^`, string relations < > and everything the tool re-routes to a
runtime procedure are uninterpreted functions shared by both sides (DESIGN §3 E3).
"""
import collections
from fractions import Fraction

import z3

from vf import smt
from vf.tv import cbfront
from vf.tv.lex import SyntaxErr

STEP_BOUND = 60


class TypeErr(Exception):
    pass


class RunErr(Exception):
    """run-time failure of the interpreted program (becomes an 'error' event)"""


class Sem:
    """term constructors for one numeric mode"""

    def __init__(self, mode):
        self.mode = mode
        self.sort = z3.RealSort() if mode == "real" else z3.BitVecSort(16)
        self.fns = {}
        self.vars = {}
        self.range_assumptions = []

    def const(self, name, kind):
        key = (name, kind)
        if key not in self.vars:
            if kind == "n":
                v = z3.Const(name, self.sort)
                if self.mode == "bv":
                    self.range_assumptions.append(z3.And(v >= -6, v <= 6))
            elif kind == "s":
                v = z3.Const(name, z3.StringSort())
            else:
                v = z3.Const(name, z3.BoolSort())
            self.vars[key] = v
        return self.vars[key]

    def num(self, v):
        if self.mode == "real":
            if v != v or v in (float("inf"), float("-inf")):
                return z3.Const(f"lit_{v}", self.sort)
            fr = Fraction(repr(float(v)))  # the decimal value the literal spells (shortest round-trip), not its binary expansion
            return z3.RealVal(f"{fr.numerator}/{fr.denominator}") if fr.denominator != 1 else z3.RealVal(fr.numerator)
        if v == int(v) and -32768 <= v <= 32767:
            return z3.BitVecVal(int(v), 16)
        return z3.Const(f"lit_{v!r}", self.sort)

    def fn(self, name, arg_sorts, res_sort):
        key = (name, tuple(str(s) for s in arg_sorts), str(res_sort))
        if key not in self.fns:
            self.fns[key] = z3.Function(name.replace("$", "_S"), *arg_sorts, res_sort)
        return self.fns[key]

    def sort_of(self, kind):
        return {"n": self.sort, "s": z3.StringSort(), "b": z3.BoolSort()}[kind]

    def apply(self, name, args, res_kind):
        f = self.fn(name, [a.sort() for a in args], self.sort_of(res_kind))
        return f(*args) if args else f()

    def binop(self, op, a, b):
        if op == "+":
            return a + b
        if op == "-":
            return a - b
        if op == "*":
            return a * b
        if op == "/":
            if self.mode == "real":
                return a / b
            return self.apply("DIV", [a, b], "n")
        if op == "^":
            return self.apply("POW", [a, b], "n")
        raise ValueError(op)

    def rel(self, op, a, b):
        if z3.is_string(a):
            if op == "=":
                return a == b
            if op == "<>":
                return a != b
            lt = lambda x, y: self.apply("STRLT", [x, y], "b")  # noqa: E731
            return {"<": lt(a, b), ">": lt(b, a), "<=": z3.Not(lt(b, a)), ">=": z3.Not(lt(a, b))}[op]
        return {"=": a == b, "<>": a != b, "<": a < b, ">": a > b, "<=": a <= b, ">=": a >= b}[op]

    def truth(self, flag):
        """Color BASIC truth value of a Bool: -1 / 0"""
        return z3.If(flag, self.num(-1.0), self.num(0.0))

    int_conversion = None  # "trunc" / "round": how BASIC09 turns a REAL operand of LAND into an INTEGER (contracts only)

    def land(self, a, b):
        if self.mode == "bv":
            return a & b
        if self.int_conversion in ("trunc", "round"):
            half = z3.RealVal("1/2") if self.int_conversion == "round" else z3.RealVal(0)
            # a mask 2^k - 1 (the only use in the library) is a remainder: keeps the query in integer arithmetic
            for mask, other in ((a, b), (b, a)):
                ms = z3.simplify(mask)
                if z3.is_rational_value(ms) and ms.denominator_as_long() == 1:
                    mv = ms.numerator_as_long()
                    if mv > 0 and (mv & (mv + 1)) == 0:
                        return z3.ToReal(z3.ToInt(other + half) % (mv + 1))
            ia, ib = z3.ToInt(a + half), z3.ToInt(b + half)
            return z3.ToReal(z3.BV2Int(z3.Int2BV(ia, 16) & z3.Int2BV(ib, 16)))
        return self.apply("BITAND", [a, b], "n")

    def lor(self, a, b):
        if self.mode == "bv":
            return a | b
        return self.apply("BITOR", [a, b], "n")

    def lnot(self, a):
        if self.mode == "bv":
            return ~a
        return self.apply("BITNOT", [a], "n")


# Color BASIC function -> (result kind, argument kinds)
CB_SIG = {
    "ABS": "n:n", "ATN": "n:n", "COS": "n:n", "EXP": "n:n", "FIX": "n:n", "INT": "n:n", "LOG": "n:n", "PEEK": "n:n",
    "RND": "n:n", "SGN": "n:n", "SIN": "n:n", "SQR": "n:n", "TAN": "n:n", "LEN": "n:s", "ASC": "n:s", "VAL": "n:s",
    "BUTTON": "n:n", "JOYSTK": "n:n", "POINT": "n:nn", "INSTR": "n:nss", "CHR$": "s:n", "STR$": "s:n", "HEX$": "s:n",
    "LEFT$": "s:sn", "RIGHT$": "s:sn", "MID$": "s:snn", "STRING$": "s:ns", "TAB": "s:n", "INKEY$": "s:", "VARPTR": "n:*",
}
DEVICE_FUNCS = {"INKEY$", "BUTTON", "JOYSTK", "POINT"}  # results depend on the outside world: indexed by call number
# BASIC09 built-ins that the tool deliberately does NOT use for the Color BASIC function of the same name
B09_DIFFERENT = {"INT", "VAL", "STR$"}


class State:
    __slots__ = ("pc", "store", "arrays", "forstack", "gostack", "dataptr", "trace", "cond", "devcount", "steps",
                 "inputs", "defined", "status", "seen", "zero_trip", "onerr", "pending")

    def clone(self):
        s = State()
        s.pc = self.pc
        s.store = dict(self.store)
        s.arrays = dict(self.arrays)
        s.forstack = list(self.forstack)
        s.gostack = list(self.gostack)
        s.dataptr = self.dataptr
        s.trace = list(self.trace)
        s.cond = list(self.cond)
        s.devcount = self.devcount
        s.steps = self.steps
        s.inputs = self.inputs
        s.defined = set(self.defined)
        s.status = self.status
        s.seen = dict(self.seen)
        s.zero_trip = self.zero_trip
        s.onerr = self.onerr
        s.pending = list(self.pending)
        return s


class Program:
    """linear instruction list with labels, produced by lower()"""

    def __init__(self, dialect):
        self.dialect = dialect
        self.ins = []
        self.labels = {}
        self.data = []
        self.decls = {}  # B09: canonical name -> (dims, type, strlen)
        self.declared_order = []
        self.problems = []  # loader findings: (kind, detail)

    def emit(self, *ins):
        self.ins.append(ins)
        return len(self.ins) - 1


def lower(stmts_or_lines, dialect):
    """dialect 'cb': list of (linenum, stmts); 'b09': nested statement list with ('label', n) markers"""
    p = Program(dialect)
    fixups = []

    def emit_block(stmts, line_end_label):
        for st in stmts:
            k = st[0]
            if k == "label":
                if st[1] in p.labels:
                    p.problems.append(("duplicate-label", st[1]))
                p.labels[st[1]] = len(p.ins)
                p.emit("label", st[1])
            elif k == "if":
                j = p.emit("cjmp", st[1], None)
                emit_block(st[2], line_end_label)
                if st[3] is not None:
                    j2 = p.emit("jmp", None)
                    p.ins[j] = ("cjmp", st[1], len(p.ins))
                    emit_block(st[3], line_end_label)
                    p.ins[j2] = ("jmp", len(p.ins))
                else:
                    if dialect == "cb":
                        fixups.append((j, line_end_label))
                    else:
                        p.ins[j] = ("cjmp", st[1], len(p.ins))
            elif k == "ifgoto":
                j = p.emit("cjmp", st[1], None)
                p.emit("goto", st[2])
                p.ins[j] = ("cjmp", st[1], len(p.ins))
            elif k == "loop":
                top = len(p.ins)
                exits = []
                for inner in st[1]:
                    if inner[0] == "exitif":
                        j = p.emit("cjmp", inner[1], None)
                        emit_block(inner[2], line_end_label)
                        exits.append(p.emit("jmp", None))
                        p.ins[j] = ("cjmp", inner[1], len(p.ins))
                    else:
                        emit_block([inner], line_end_label)
                p.emit("jmp", top)
                for e in exits:
                    p.ins[e] = ("jmp", len(p.ins))
            elif k == "while":
                top = len(p.ins)
                j = p.emit("cjmp", st[1], None)
                emit_block(st[2], line_end_label)
                p.emit("jmp", top)
                p.ins[j] = ("cjmp", st[1], len(p.ins))
            elif k == "repeat":
                top = len(p.ins)
                emit_block(st[1], line_end_label)
                p.emit("cjmp", st[2], top)
            elif k == "exitif":
                p.problems.append(("syntax", "EXITIF outside LOOP"))
            elif k == "data":
                p.data.extend(st[1])
                p.emit("nop", "data")
            elif k in ("dim", "param"):
                if dialect == "b09":
                    for name, dims, tname, slen in st[1]:
                        key = name.upper()
                        key = "arr_" + key[4:] if key.startswith("ARR_") else key
                        if key in p.decls:
                            p.problems.append(("duplicate-decl", key))
                        p.decls[key] = (dims, tname, slen)
                        p.declared_order.append((key, len(p.ins)))
                p.emit("dim", st[1])
            elif k == "line":
                p.emit("newline")
            elif k == "rem" or k == "type" or k == "base" or k == "os":
                p.emit("nop", k)
            else:
                p.emit(*st)

    if dialect == "cb":
        for num, stmts in stmts_or_lines:
            if num in p.labels:
                p.problems.append(("duplicate-label", num))
            p.labels[num] = len(p.ins)
            p.emit("label", num)
            marker = ("eol", num)
            emit_block(stmts, marker)
            end_pc = len(p.ins)
            for j, m in fixups:
                if m == marker:
                    p.ins[j] = ("cjmp", p.ins[j][1], end_pc)
            fixups[:] = [f for f in fixups if f[1] != marker]
            # the THEN/ELSE arms of an IF extend to the end of the line: after them control continues with the next line
    else:
        emit_block(stmts_or_lines, None)
    p.emit("end",)
    return p


class Machine:
    def __init__(self, prog, sem, *, init_mode="symbolic", lib=None, refmap=None, record_calls=True, interp_strings=False, for_semantics=None):
        self.val_may_fail = False  # contracts: BASIC09's VAL raises an error for text that spells no number (ON ERROR GOTO honoured)
        self.interp_strings = interp_strings  # LEN / MID$ / LEFT$ / RIGHT$ / FIX get their meaning (C20) instead of staying uninterpreted
        self.for_semantics = for_semantics  # None: zero-trip loops end the path as outside; 'pretest' / 'bodyonce': run that reading
        self.p = prog
        self.sem = sem
        self.dialect = prog.dialect
        self.init_mode = init_mode
        self.lib = lib
        self.refmap = refmap
        self.stats = collections.Counter()
        # FOR matching (b09 zero-trip handling needs the matching NEXT)
        self.match_next = {}
        stack = []
        for i, ins in enumerate(prog.ins):
            if ins[0] == "for":
                stack.append(i)
            elif ins[0] == "next" and stack:
                for _ in (ins[1] or [None]):
                    if stack:
                        self.match_next[stack.pop()] = i

    # ------------------------------------------------------------- expression evaluation
    def kind_of_name(self, name):
        d = self.p.decls.get(name.upper()) or self.p.decls.get(name)
        if d is not None and d[1] in ("string", "real", "integer", "byte", "boolean"):
            return {"string": "s", "boolean": "b"}.get(d[1], "n")
        return "s" if name.endswith("$") else "n"

    def read_var(self, st, name):
        key = name.upper()
        if key in st.store:
            return st.store[key]
        kind = self.kind_of_name(name)
        if self.dialect == "b09" and self.init_mode == "zero" and key not in st.defined and not key.startswith(("PLAY.", "DISPLAY.", "ERRNUM")):
            st.trace.append(("uninitialised-read", key))
        if self.dialect == "b09" and key.startswith("TMP_") and key not in st.defined:
            st.trace.append(("tmp-read-before-write", key))
        if self.init_mode == "symbolic":
            v = (kind, self.sem.const("init_" + key, kind))
        else:
            v = (kind, self.sem.num(0.0) if kind == "n" else z3.StringVal(""))
        st.store[key] = v
        return v

    def array(self, st, name):
        key = name.upper()
        if key not in st.arrays:
            kind = self.kind_of_name(name)
            elem = self.sem.sort_of(kind)
            if self.init_mode == "symbolic":
                arr = z3.Const("init_" + key, z3.ArraySort(z3.StringSort(), elem))
            elif self.dialect == "b09":
                # storage of a BASIC09 array is whatever was in memory: a fresh unknown value per array
                arr = z3.K(z3.StringSort(), self.sem.const("undef_" + key, kind))
            else:
                arr = z3.K(z3.StringSort(), self.sem.num(0.0) if kind == "n" else z3.StringVal(""))
            st.arrays[key] = arr
        return st.arrays[key]

    def index_key(self, idx_terms):
        """array cells are addressed by the tuple of index terms, flattened through an injective uninterpreted pairing"""
        f = self.sem.fn("IDX%d" % len(idx_terms), [t.sort() for t in idx_terms], z3.StringSort())
        return f(*idx_terms)

    def check_bounds(self, st, name, idx_terms):
        key = name.upper()
        dims = self.bounds.get(key) if hasattr(self, "bounds") else None
        return dims

    def ev(self, st, e):
        k = e[0]
        sem = self.sem
        if k == "num":
            return ("n", sem.num(e[1]))
        if k == "str":
            return ("s", z3.StringVal(e[1]))
        if k == "bool":
            return ("b", z3.BoolVal(e[1]))
        if k == "par":
            return self.ev(st, e[1])
        if k == "var":
            return self.read_var(st, e[1])
        if k == "idx":
            idx = [self.num(st, x) for x in e[2]]
            self.bounds_event(st, e[1], idx)
            arr = self.array(st, e[1])
            return (self.kind_of_name(e[1]), z3.Select(arr, self.index_key(idx)))
        if k == "un":
            v = self.num(st, e[2])
            return ("n", -v if e[1] == "-" else v)
        if k == "bin":
            a = self.ev(st, e[2])
            b = self.ev(st, e[3])
            if e[1] == "+" and a[0] == "s" and b[0] == "s":
                return ("s", z3.Concat(a[1], b[1]))
            return ("n", sem.binop(e[1], self.as_num(a), self.as_num(b)))
        if k == "rel":
            a = self.ev(st, e[2])
            b = self.ev(st, e[3])
            if (a[0] == "s") != (b[0] == "s"):
                raise TypeErr("relation between a string and a number")
            if a[0] == "s":
                flag = sem.rel(e[1], a[1], b[1])
            else:
                flag = sem.rel(e[1], self.as_num(a), self.as_num(b))
            return ("n", sem.truth(flag)) if self.dialect == "cb" else ("b", flag)
        if k == "and":
            return ("n", sem.land(self.num(st, e[1]), self.num(st, e[2])))
        if k == "or":
            return ("n", sem.lor(self.num(st, e[1]), self.num(st, e[2])))
        if k == "not":
            return ("n", sem.lnot(self.num(st, e[1])))
        if k == "band":
            return ("b", z3.And(self.boolean(st, e[1]), self.boolean(st, e[2])))
        if k == "bor":
            return ("b", z3.Or(self.boolean(st, e[1]), self.boolean(st, e[2])))
        if k == "bxor":
            return ("b", z3.Xor(self.boolean(st, e[1]), self.boolean(st, e[2])))
        if k == "bnot":
            return ("b", z3.Not(self.boolean(st, e[1])))
        if k == "call":
            return self.call(st, e[1], e[2])
        raise ValueError(f"unknown expression node {k}")

    def as_num(self, v):
        if v[0] != "n":
            raise TypeErr(f"numeric operand expected, found {'string' if v[0] == 's' else 'boolean'}")
        return v[1]

    def num(self, st, e):
        return self.as_num(self.ev(st, e))

    def boolean(self, st, e):
        v = self.ev(st, e)
        if v[0] != "b":
            raise TypeErr("boolean operand expected, found " + ("string" if v[0] == "s" else "number"))
        return v[1]

    def string(self, st, e):
        v = self.ev(st, e)
        if v[0] != "s":
            raise TypeErr("string operand expected")
        return v[1]

    def condition(self, st, e):
        v = self.ev(st, e)
        if self.dialect == "cb":
            if v[0] == "s":
                raise TypeErr("string used as a condition")
            return v[1] != self.sem.num(0.0)
        if v[0] != "b":
            raise TypeErr("numeric-condition" if v[0] == "n" else "string-condition")
        return v[1]

    def call(self, st, name, args):
        sem = self.sem
        if name == "FLOAT":
            return ("n", self.num(st, args[0]))
        if name == "PI":
            return ("n", sem.apply("PI", [], "n"))
        if name == "ADDR" or name == "VARPTR":
            a = args[0]
            ident = a[1] if a[0] in ("var", "idx") else repr(a)
            extra = [self.num(st, x) for x in a[2]] if a[0] == "idx" else []
            return ("n", sem.apply("ADDR_" + ident.upper().replace("$", "_S"), extra, "n"))
        if self.interp_strings and name in ("LEN", "MID$", "LEFT$", "RIGHT$", "FIX", "INT", "CHR$", "ASC"):
            return self.interpreted(st, name, args)
        sig = CB_SIG.get(name)
        if sig is None:
            vals = [self.ev(st, a) for a in args]
            return ("n", sem.apply("B09_" + name, [v[1] for v in vals], "n"))
        res, argk = sig.split(":")
        if len(argk) != len(args):
            raise TypeErr(f"{name} called with {len(args)} arguments")
        vals = []
        for a, kk in zip(args, argk):
            v = self.ev(st, a)
            if v[0] != kk:
                raise TypeErr(f"{name}: argument of the wrong type")
            vals.append(v[1])
        fname = name
        if self.dialect == "b09" and name in B09_DIFFERENT:
            fname = "B09_" + name
        if self.dialect == "b09" and name == "VAL" and self.val_may_fail:
            fails = z3.Function("VAL_FAILS", z3.StringSort(), z3.BoolSort())
            st.pending.append(fails(vals[0]))
        if self.dialect == "cb" and name in cbfront.CONVERTIBLE:
            return (res, self.convertible(st, name, vals, res))
        return (res, sem.apply(fname, vals, res))

    def interpreted(self, st, name, args):
        """BASIC09 string functions on z3 sequences (real mode); positions are 1-based"""
        toint = lambda t: z3.ToInt(t)  # noqa: E731  floor; arguments are assumed non-negative where it matters
        toreal = lambda t: z3.ToReal(t)  # noqa: E731
        if name == "LEN":
            return ("n", toreal(z3.Length(self.string(st, args[0]))))
        if name == "FIX":
            return ("n", toreal(toint(self.num(st, args[0]))))
        if name == "INT":
            # BASIC09's INT drops the fraction (toward zero).  floor() by integer witnesses on the path condition: z3 decides
            # such queries at once, while ToInt() terms send it into an unbounded search
            # one witness k = floor(x): the value is k for x >= 0 or x integral, k + 1 otherwise (two witnesses, for x and
            # -x, leave the solvers unable to relate them: measured unknown after 60 s in z3 4.8 / 5.1 and cvc5)
            x = self.num(st, args[0])
            can_pos, can_neg = self.feasible(st, x >= 0)
            if not can_pos:
                return ("n", -toreal(floor_witness(st.cond, -x)))
            k = toreal(floor_witness(st.cond, x))
            if not can_neg:
                return ("n", k)
            return ("n", z3.If(z3.Or(x >= 0, x == k), k, k + 1))
        if name == "CHR$":
            return ("s", z3.StrFromCode(toint(self.num(st, args[0]))))
        if name == "ASC":
            return ("n", toreal(z3.StrToCode(z3.SubString(self.string(st, args[0]), 0, 1))))
        sv = self.string(st, args[0])
        n = z3.Length(sv)
        if name == "MID$":
            i = toint(self.num(st, args[1]))
            k = toint(self.num(st, args[2]))
            if i.sort() != z3.IntSort():
                raise TypeErr("MID$ index")
            # MID$(s, i, k): k characters from position i (i < 1 is a run-time error in BASIC09; callers keep i >= 1)
            return ("s", z3.SubString(sv, i - 1, z3.If(k < 0, z3.IntVal(0), k)))
        if name == "LEFT$":
            k = toint(self.num(st, args[1]))
            return ("s", z3.SubString(sv, 0, z3.If(k < 0, z3.IntVal(0), k)))
        if name == "RIGHT$":
            k = toint(self.num(st, args[1]))
            k = z3.If(k > n, n, z3.If(k < 0, z3.IntVal(0), k))
            return ("s", z3.SubString(sv, n - k, k))
        raise ValueError(name)

    def convertible(self, st, name, vals, res):
        """a function the tool re-routes to a procedure: record the evaluation event, return the contract's value"""
        st.trace.append(("call", name, tuple(vals)))
        if name in DEVICE_FUNCS:
            st.devcount += 1
            return self.sem.apply(f"{name}#{st.devcount}", list(vals), res)
        return self.sem.apply(name, list(vals), res)

    # ------------------------------------------------------------- statements
    def bounds_event(self, st, name, idx):
        pass  # array-extent checks are done by the C03 harness through explicit obligations

    def assign(self, st, lv, val):
        kind = self.kind_of_name(lv[1])
        if val[0] != kind:
            raise TypeErr(f"{'string' if val[0] == 's' else 'boolean' if val[0] == 'b' else 'numeric'} value assigned to "
                          f"{'string' if kind == 's' else 'numeric'} variable")
        if lv[0] == "var":
            st.store[lv[1].upper()] = val
            st.defined.add(lv[1].upper())
        else:
            idx = [self.num(st, x) for x in lv[2]]
            self.bounds_event(st, lv[1], idx)
            arr = self.array(st, lv[1])
            st.arrays[lv[1].upper()] = z3.Store(arr, self.index_key(idx), val[1])

    def feasible(self, st, cond):
        c = z3.simplify(cond)
        if z3.is_true(c):
            return True, False
        if z3.is_false(c):
            return False, True
        base = st.cond + self.sem.range_assumptions
        self.stats["branch_queries"] += 2
        r1, _ = smt.check(base + [c], 5000)
        r2, _ = smt.check(base + [z3.Not(c)], 5000)
        return r1 != "unsat", r2 != "unsat"

    def run(self, st0, step_bound=STEP_BOUND):
        """explore all paths from st0; returns list of final states (status: end/stop/error/bound/loop)"""
        leaves = []
        work = [st0]
        while work:
            st = work.pop()
            while True:
                if st.status == "error":
                    leaves.append(st)
                    break
                if st.steps >= step_bound:
                    st.status = "bound"
                    leaves.append(st)
                    break
                if st.pc >= len(self.p.ins):
                    st.status = "end"
                    st.trace.append(("end",))
                    leaves.append(st)
                    break
                ins = self.p.ins[st.pc]
                st.steps += 1
                try:
                    nxt = self.step(st, ins)
                except TypeErr as e:
                    st.status = "type-error"
                    st.trace.append(("type-error", str(e)))
                    leaves.append(st)
                    break
                except RunErr as e:
                    st.status = "error"
                    st.trace.append(("error", str(e)))
                    leaves.append(st)
                    break
                if nxt is None:
                    leaves.append(st)
                    break
                if isinstance(nxt, list):
                    work.extend(nxt[1:])
                    st = nxt[0]
                if len(leaves) + len(work) > 64:
                    raise RuntimeError("path explosion")
        return leaves

    def jump_label(self, st, n):
        if n not in self.p.labels:
            raise RunErr(f"undefined line {n}")
        st.pc = self.p.labels[n]

    def step(self, st, ins):
        """execute one instruction; returns True to continue, None when the path ended, or a list of successor states"""
        k = ins[0]
        sem = self.sem
        if k == "newline":
            # temporaries are per statement group: one physical line of the emitted text
            st.defined = {d for d in st.defined if not d.startswith("TMP_")}
            st.pc += 1
            st.steps -= 1
            return True
        if k in ("label", "nop", "dim", "tron", "troff"):
            if k == "dim":
                for d in ins[1]:
                    st.defined.add(("arr:" + d[0]).upper())
            st.pc += 1
            return True
        if k == "assign":
            lv = ins[1]
            if lv[0] == "idx" and self.dialect == "cb":
                # Color BASIC's LET locates the target (evaluating its subscripts) before it evaluates the value
                idx = [self.num(st, x) for x in lv[2]]
                val = self.ev(st, ins[2])
                kind = self.kind_of_name(lv[1])
                if val[0] != kind:
                    raise TypeErr("value of the wrong type assigned to an array element")
                arr = self.array(st, lv[1])
                st.arrays[lv[1].upper()] = z3.Store(arr, self.index_key(idx), val[1])
            else:
                val = self.ev(st, ins[2])
                if st.pending:
                    # the evaluation may have raised a run-time error: that path does not assign; it goes to the ON ERROR
                    # handler if one is set and ends with the error otherwise
                    f = z3.Or(*st.pending) if len(st.pending) > 1 else st.pending[0]
                    st.pending = []
                    s2 = st.clone()
                    s2.cond.append(f)
                    st.cond.append(z3.Not(f))
                    self.assign(st, lv, val)
                    st.pc += 1
                    if s2.onerr is not None:
                        self.jump_label(s2, s2.onerr)
                    else:
                        s2.status = "error"
                        s2.trace.append(("error", "run-time error in an expression"))
                    return [st, s2]
                self.assign(st, lv, val)
            st.pc += 1
            return True
        if k == "print":
            if ins[1] is not None:
                self.device(st, "AT", {"p": ins[1]})
            items = []
            for it in ins[2]:
                if it[0] == "sep":
                    items.append(("sep", it[1]))
                else:
                    v = self.ev(st, it[1])
                    if v[0] == "n":
                        if self.dialect == "b09":
                            raise TypeErr("numeric PRINT item (the tool routes numbers through the formatter)")
                        v = ("s", self.convertible(st, "STR$", [v[1]], "s"))
                    elif v[0] == "b":
                        raise TypeErr("boolean PRINT item")
                    items.append(("item", v[1]))
            if not (ins[3] and not items):
                st.trace.append(("print", tuple(items)))
            st.pc += 1
            return True
        if k == "cjmp":
            c = self.condition(st, ins[1])
            can_t, can_f = self.feasible(st, c)
            if can_t and can_f:
                other = st.clone()
                st.cond.append(c)
                st.pc += 1
                other.cond.append(z3.Not(c))
                other.pc = ins[2]
                self.stats["forks"] += 1
                return [st, other]
            if can_t:
                st.pc += 1
            else:
                st.pc = ins[2]
            return True
        if k == "jmp":
            if ins[1] <= st.pc:
                sig = (st.pc, tuple(sorted((k2, v[1].sexpr()) for k2, v in st.store.items())), len(st.trace))
                if sig in st.seen:
                    st.status = "loop"
                    st.trace.append(("nontermination",))
                    return None
                st.seen[sig] = True
            st.pc = ins[1]
            return True
        if k == "goto":
            self.jump_label(st, ins[1])
            return True
        if k == "gosub":
            st.gostack.append((st.pc + 1, len(st.forstack)))
            self.jump_label(st, ins[1])
            return True
        if k == "return":
            if not st.gostack:
                raise RunErr("RETURN without GOSUB")
            pc, depth = st.gostack.pop()
            del st.forstack[depth:]
            st.pc = pc
            return True
        if k == "on":
            sel = self.num(st, ins[1])
            succ = []
            rest = []
            for i, n in enumerate(ins[3]):
                c = sel == sem.num(float(i + 1))
                rest.append(z3.Not(c))
                can_t, _ = self.feasible(st, z3.And(*([c] + rest[:-1])))
                if can_t:
                    s2 = st.clone()
                    s2.cond.append(c)
                    if ins[2] == "gosub":
                        s2.gostack.append((st.pc + 1, len(st.forstack)))
                    try:
                        self.jump_label(s2, n)
                    except RunErr as e:
                        s2.status = "error"
                        s2.trace.append(("error", str(e)))
                        s2.pc = len(self.p.ins) + 1
                    succ.append(s2)
            can_none, _ = self.feasible(st, z3.And(*rest))
            if can_none:
                s2 = st.clone()
                s2.cond.extend(rest)
                s2.trace.append(("on-out-of-range",))
                s2.pc += 1
                succ.append(s2)
            self.stats["forks"] += max(0, len(succ) - 1)
            if not succ:
                raise RunErr("ON selector infeasible")
            return succ
        if k == "for":
            var = ins[1]
            start = self.ev(st, ins[2])
            limit = self.num(st, ins[3])
            step = self.num(st, ins[4]) if ins[4] is not None else sem.num(1.0)
            self.assign(st, var, start)
            if not var[1].upper().startswith("TMP_"):
                st.trace.append(("for", limit, step))
            body = st.pc + 1
            if self.dialect == "b09" and self.for_semantics == "pretest":
                v = self.as_num(self.read_var(st, var[1]) if var[0] == "var" else self.ev(st, var))
                beyond = z3.If(step >= sem.num(0.0), v > limit, v < limit)
                can_t, can_f = self.feasible(st, beyond)
                skip_pc = self.match_next.get(st.pc)
                if skip_pc is None:
                    raise RunErr("FOR without NEXT")
                if can_t and can_f:
                    other = st.clone()
                    other.cond.append(beyond)
                    other.pc = skip_pc + 1
                    st.cond.append(z3.Not(beyond))
                    st.forstack.append((var, limit, step, body))
                    st.pc = body
                    self.stats["forks"] += 1
                    return [st, other]
                if can_t:
                    st.pc = skip_pc + 1
                    return True
                st.forstack.append((var, limit, step, body))
                st.pc = body
                return True
            if self.dialect == "b09" and self.for_semantics is None:
                v = self.as_num(self.read_var(st, var[1]) if var[0] == "var" else self.ev(st, var))
                beyond = z3.If(step >= sem.num(0.0), v > limit, v < limit)
                can_t, can_f = self.feasible(st, beyond)
                if can_t:
                    # zero-trip loop: BASIC09 and Color BASIC differ (or may); outside the claim
                    st.zero_trip = True
                    if not can_f:
                        st.status = "zero-trip"
                        st.trace.append(("zero-trip",))
                        return None
                    st.cond.append(z3.Not(beyond))
            st.forstack.append((var, limit, step, body))
            st.pc = body
            return True
        if k == "next":
            vars_ = ins[1] or [None]
            for var in vars_:
                if var is None:
                    if not st.forstack:
                        raise RunErr("NEXT without FOR")
                else:
                    while st.forstack and st.forstack[-1][0] != var:
                        if self.dialect == "b09":
                            raise RunErr("NEXT does not match the innermost FOR")
                        st.forstack.pop()
                    if not st.forstack:
                        raise RunErr("NEXT without FOR")
                fvar, limit, step, body = st.forstack[-1]
                cur = self.as_num(self.ev(st, fvar))
                nv = cur + step
                self.assign(st, fvar, ("n", nv))
                done = z3.If(step >= sem.num(0.0), nv > limit, nv < limit)
                can_t, can_f = self.feasible(st, done)
                if can_t and can_f:
                    other = st.clone()
                    other.cond.append(z3.Not(done))
                    other.pc = body
                    st.cond.append(done)
                    st.forstack.pop()
                    # remaining variables of this NEXT are handled when the exiting path continues
                    rest = vars_[vars_.index(var) + 1:]
                    if rest:
                        st.pc = st.pc  # stay on this instruction with a reduced list
                        self.p.ins.append(("next", rest))
                        self.p.ins.append(("jmp", st.pc + 1))
                        st.pc = len(self.p.ins) - 2
                    else:
                        st.pc += 1
                    self.stats["forks"] += 1
                    return [st, other]
                if can_f:
                    st.pc = body
                    return True
                st.forstack.pop()
            st.pc += 1
            return True
        if k in ("end", "stop"):
            st.trace.append((k,))
            st.status = k
            return None
        if k == "error":
            st.trace.append(("error", "ERROR statement"))
            st.status = "error"
            return None
        if k == "restore":
            st.dataptr = 0
            st.pc += 1
            return True
        if k == "read":
            for lv in ins[1]:
                if st.dataptr >= len(self.p.data):
                    raise RunErr("out of DATA")
                item = self.p.data[st.dataptr]
                st.dataptr += 1
                self.assign(st, lv, self.data_value(item, self.kind_of_name(lv[1])))
            st.pc += 1
            return True
        if k == "input":
            prompt = ins[2] if ins[2] is not None else ""
            if self.dialect == "cb":
                # Color BASIC prints "? " after the prompt of INPUT, nothing after that of LINE INPUT
                prompt = prompt + ("" if ins[1] else "? ")
                self.device(st, "INPUT_PREFIX", {})
            targets = []
            for lv in ins[3]:
                targets.append((lv[1].upper(), tuple(self.num(st, x) for x in lv[2]) if lv[0] == "idx" else ()))
            st.trace.append(("input", prompt, tuple(targets)))
            if self.dialect == "cb":
                self.device(st, "INPUT_SUFFIX", {})
            for lv in ins[3]:
                st.inputs += 1
                kind = self.kind_of_name(lv[1])
                self.assign(st, lv, (kind, sem.const(f"input#{st.inputs}_{kind}", kind)))
            st.pc += 1
            return True
        if k == "poke":
            if self.dialect == "cb" and ins[1][0] == "num" and ins[1][1] in (65496.0, 65497.0):
                # the two speed pokes select the octave flag of the sound emulation (README): no memory is written
                self.num(st, ins[2])
                st.store["PLAY.OCTO"] = ("n", sem.num(0.0 if ins[1][1] == 65496.0 else 1.0))
                st.defined.add("PLAY.OCTO")
                st.pc += 1
                return True
            st.trace.append(("poke", self.num(st, ins[1]), self.num(st, ins[2])))
            st.pc += 1
            return True
        if k == "dev":
            self.device(st, ins[1], ins[2])
            st.pc += 1
            return True
        if k == "run":
            self.run_call(st, ins[1], ins[2])
            st.pc += 1
            return True
        if k in ("onerr", "onerror"):
            st.trace.append(("on-error", ins[-1]))
            st.onerr = ins[-1]
            st.pc += 1
            return True
        raise ValueError(f"unknown instruction {ins!r}")

    def data_value(self, item, kind):
        sem = self.sem
        if self.dialect == "cb":
            q, text = item
            if kind == "s":
                return ("s", z3.StringVal(text))
            t = text.strip()
            if t == "":
                return ("n", sem.num(0.0))
            try:
                if t.upper().startswith("&H"):
                    return ("n", sem.num(float(int(t[2:], 16))))
                return ("n", sem.num(float(t.replace(" ", ""))))
            except ValueError:
                raise RunErr("numeric READ of a non-numeric DATA item")
        if item[0] == "num":
            if kind != "n":
                raise TypeErr("READ of a numeric DATA item into a string variable")
            return ("n", sem.num(item[1]))
        if kind != "s":
            raise TypeErr("READ of a string DATA item into a numeric variable")
        return ("s", z3.StringVal(item[1]))

    # device statements / RUN calls are compared through the reference map (vf/tv/refmap.py)
    def device(self, st, name, ops):
        self.refmap.cb_device(self, st, name, ops)

    def run_call(self, st, name, args):
        self.refmap.b09_run(self, st, name, args)


_FLOOR_N = [0]


def floor_witness(cond, x):
    """Int k with k <= x < k + 1 appended to `cond`; returns k.  The witness is named after the term, so that two floors of
    the same term are the same constant (no solver work to show them equal)"""
    import hashlib

    _FLOOR_N[0] += 1
    k = z3.Int("floor!" + hashlib.sha1(x.sexpr().encode()).hexdigest()[:12])
    cond.append(z3.ToReal(k) <= x)
    cond.append(x < z3.ToReal(k) + 1)
    return k


def initial_state():
    st = State()
    st.pc = 0
    st.store = {}
    st.arrays = {}
    st.forstack = []
    st.gostack = []
    st.dataptr = 0
    st.trace = []
    st.cond = []
    st.devcount = 0
    st.steps = 0
    st.inputs = 0
    st.defined = set()
    st.status = None
    st.seen = {}
    st.zero_trip = False
    st.onerr = None
    st.pending = []
    return st
