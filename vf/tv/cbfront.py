"""Reference front end for Color BASIC (independent of the tool's grammar): text -> IR.

Expression precedence follows the Color BASIC ROM's operator table: ^ (7F) > unary sign (7D) > * / (7B) > + - (79) >
relational (64) > NOT (5A) > AND (50) > OR (46); binary operators of equal precedence group to the left.

IR expressions (tuples):
  ('num', float) ('str', text) ('var', key) ('idx', key, [e..]) ('un', '-'|'+', e) ('bin', op, a, b)
  ('rel', op, a, b) ('and', a, b) ('or', a, b) ('not', e) ('call', NAME, [e..]) ('par', e)
Variable keys are the canonical identifiers a correct translation must use: first two characters, '$' suffix for
strings, 'arr_' prefix for arrays (compared case-insensitively on the BASIC09 side).
"""
import re

from vf.tv.lex import Cursor, RefGap, cb_tokens

PREC = {"^": 0x7F, "*": 0x7B, "/": 0x7B, "+": 0x79, "-": 0x79, "AND": 0x50, "OR": 0x46}
REL_PREC, NOT_PREC, UNARY_PREC = 0x64, 0x5A, 0x7D
RELOPS = {"=": "=", "<": "<", ">": ">", "<=": "<=", ">=": ">=", "<>": "<>", "=<": "<=", "=>": ">=", "><": "<>"}

NUM_FUNCS = {"ABS": 1, "ATN": 1, "COS": 1, "EXP": 1, "FIX": 1, "INT": 1, "LOG": 1, "PEEK": 1, "RND": 1, "SGN": 1,
             "SIN": 1, "SQR": 1, "TAN": 1, "LEN": 1, "ASC": 1, "VAL": 1, "BUTTON": 1, "JOYSTK": 1, "POINT": 2,
             "INSTR": 3}
STR_FUNCS = {"CHR$": 1, "STR$": 1, "HEX$": 1, "LEFT$": 2, "RIGHT$": 2, "MID$": 3, "STRING$": 2, "TAB": 1}
CONVERTIBLE = {"INT", "VAL", "STR$", "HEX$", "INSTR", "STRING$", "INKEY$", "BUTTON", "JOYSTK", "POINT"}
STATEMENT_WORDS = {
    "IF", "THEN", "ELSE", "FOR", "TO", "STEP", "NEXT", "GOTO", "GOSUB", "RETURN", "ON", "END", "STOP", "PRINT", "LET",
    "DIM", "DATA", "READ", "RESTORE", "INPUT", "LINE", "REM", "POKE", "SOUND", "CLS", "AND", "OR", "NOT", "CLEAR",
    "TRON", "TROFF", "PLAY", "SET", "RESET", "LOCATE", "ATTR", "WIDTH", "PALETTE", "RGB", "CMP", "HSCREEN", "HCLS",
    "HCOLOR", "HCIRCLE", "HLINE", "HSET", "HRESET", "HPAINT", "HPRINT", "HDRAW", "HBUFF", "HGET", "HPUT", "PSET",
    "PRESET", "ERR", "BRK", "VARPTR", "INKEY$",
}


def var_key(name, array=False):
    is_str = name.endswith("$")
    base = name[:-1] if is_str else name
    key = base[:2] + ("$" if is_str else "")
    return ("arr_" + key) if array else key


def is_str_expr(e):
    k = e[0]
    if k == "str":
        return True
    if k in ("var", "idx"):
        return e[1].endswith("$")
    if k == "call":
        return e[1] in STR_FUNCS and e[1] != "TAB" or e[1] == "INKEY$"
    if k == "bin":
        return e[1] == "+" and is_str_expr(e[2])
    if k == "par":
        return is_str_expr(e[1])
    return False


class ExprParser:
    def __init__(self, cur):
        self.c = cur

    def parse(self, minprec=0):
        c = self.c
        kind, v = c.peek()
        if v in ("-", "+") and kind == "op":
            c.next()
            left = ("un", v, self.parse(UNARY_PREC))
        elif v == "NOT":
            c.next()
            left = ("not", self.parse(NOT_PREC))
        else:
            left = self.atom()
        while True:
            kind, v = c.peek()
            if kind == "op" and v in RELOPS or (kind == "op" and v in ("<", ">", "=")):
                prec, isrel = REL_PREC, True
            elif v in PREC and (kind == "op" or v in ("AND", "OR")):
                prec, isrel = PREC[v], False
            else:
                break
            if prec <= minprec:
                break
            c.next()
            if isrel:
                # Color BASIC builds compound relations from consecutive < = > characters
                op = v
                k2, v2 = c.peek()
                while k2 == "op" and v2 in ("<", ">", "=") and op + v2 in RELOPS:
                    op += v2
                    c.next()
                    k2, v2 = c.peek()
                right = self.parse(prec)
                left = ("rel", RELOPS[op], left, right)
            else:
                right = self.parse(prec)
                if v == "AND":
                    left = ("and", left, right)
                elif v == "OR":
                    left = ("or", left, right)
                else:
                    left = ("bin", v, left, right)
        return left

    def args(self):
        c = self.c
        c.expect("(", RefGap)
        out = [self.parse()]
        while c.accept(","):
            out.append(self.parse())
        c.expect(")", RefGap)
        return out

    def atom(self):
        c = self.c
        kind, v = c.next()
        if kind is None:
            raise RefGap("unexpected end of expression")
        if kind == "num":
            return ("num", float(v))
        if kind == "hex":
            return ("num", float(int(v[2:], 16)))
        if kind == "str":
            return ("str", v[1:-1])
        if kind == "op" and v == "(":
            e = self.parse()
            c.expect(")", RefGap)
            return ("par", e)
        if kind == "id":
            if v == "INKEY$":
                return ("call", "INKEY$", [])
            if v in NUM_FUNCS or v in STR_FUNCS:
                a = self.args()
                want = NUM_FUNCS.get(v, STR_FUNCS.get(v))
                if v == "MID$" and len(a) == 2:
                    raise RefGap("two-argument MID$ is outside the tool's grammar")
                if len(a) != want:
                    raise RefGap(f"{v} with {len(a)} arguments")
                return ("call", v, a)
            if v == "VARPTR":
                a = self.args()
                return ("call", "VARPTR", a)
            if v == "ERNO":
                return ("var", "erno")
            if v in STATEMENT_WORDS:
                raise RefGap(f"keyword {v} where an operand is expected")
            if c.peekv() == "(":
                return ("idx", var_key(v, True), self.args())
            return ("var", var_key(v))
        raise RefGap(f"unexpected token {v!r}")


# ---------------------------------------------------------------- statements

LINE_RE = re.compile(r"\s*(\d+)\s?(.*)$", re.S)


def line_tokens(text):
    """tokenise one line; REM/' comments and DATA payloads become single tokens"""
    out = []
    pos = 0
    n = len(text)
    stmt_start = True
    while pos < n:
        while pos < n and text[pos] == " ":
            pos += 1
        if pos >= n:
            break
        if stmt_start:
            if text.startswith("REM", pos):
                out.append(("rem", text[pos + 3:]))
                return out
            if text[pos] == "'":
                out.append(("rem", text[pos + 1:]))
                return out
            if text.startswith("DATA", pos):
                j = pos + 4
                inq = False
                while j < n and (inq or text[j] != ":"):
                    if text[j] == '"':
                        inq = not inq
                    j += 1
                out.append(("data", text[pos + 4:j]))
                pos = j
                stmt_start = False
                continue
        toks = cb_tokens_one(text, pos)
        kind, v, pos = toks
        out.append((kind, v))
        stmt_start = (kind == "op" and v == ":") or (kind == "id" and v in ("THEN", "ELSE"))
    return out


def cb_tokens_one(text, pos):
    from vf.tv.lex import CB_TOKEN, SyntaxErr

    m = CB_TOKEN.match(text, pos)
    if not m or m.end() == pos:
        raise RefGap(f"cannot tokenise source at {text[pos:pos + 20]!r}")
    kind = m.lastgroup
    return kind, m.group(kind), m.end()


def split_data(payload):
    """DATA items per Color BASIC: comma separated; quoted strings; unquoted items lose leading blanks"""
    items = []
    i = 0
    n = len(payload)
    while True:
        while i < n and payload[i] == " ":
            i += 1
        if i < n and payload[i] == '"':
            j = payload.find('"', i + 1)
            if j < 0:
                j = n
            items.append(("q", payload[i + 1:j]))
            i = j + 1
            while i < n and payload[i] != ",":
                i += 1
        else:
            j = i
            while j < n and payload[j] != ",":
                j += 1
            items.append(("u", payload[i:j]))
            i = j
        if i < n and payload[i] == ",":
            i += 1
            continue
        break
    return items


DEVICE_FORMS = {}


class StmtParser:
    def __init__(self, toks):
        self.c = Cursor(toks)
        self.e = ExprParser(self.c)

    def expr(self):
        return self.e.parse()

    def lvalue(self):
        c = self.c
        kind, v = c.next()
        if kind != "id" or v in STATEMENT_WORDS or v in NUM_FUNCS or v in STR_FUNCS:
            raise RefGap(f"variable expected, found {v!r}")
        if c.peekv() == "(":
            return ("idx", var_key(v, True), self.e.args())
        return ("var", var_key(v))

    def statements(self, stop_at_else):
        """statement list up to end of line (or an ELSE belonging to an enclosing IF)"""
        c = self.c
        out = []
        while not c.at_end():
            if c.peekv() == "ELSE" and stop_at_else:
                break
            if c.accept(":"):
                continue
            st = self.statement()
            if st is not None:
                out.append(st)
            if c.at_end():
                break
            if c.peekv() == "ELSE":
                if stop_at_else:
                    break
                raise RefGap("ELSE without IF")
            if not c.accept(":"):
                raise RefGap(f"junk after statement: {c.peekv()!r}")
        return out

    def linenum(self):
        kind, v = self.c.next()
        if kind != "num" or not v.isdigit():
            raise RefGap(f"line number expected, found {v!r}")
        return int(v)

    def statement(self):
        c = self.c
        kind, v = c.peek()
        if kind == "rem":
            c.next()
            return ("rem", v)
        if kind == "data":
            c.next()
            return ("data", split_data(v))
        if kind == "op" and v == "?":
            c.next()
            return self.print_stmt()
        if kind != "id":
            raise RefGap(f"statement expected, found {v!r}")
        if v == "PRINT":
            c.next()
            return self.print_stmt()
        if v == "IF":
            c.next()
            cond = self.expr()
            if not c.accept("THEN"):
                if c.peekv() == "GOTO":
                    raise RefGap("IF..GOTO form")
                raise RefGap("THEN expected")
            if c.peek()[0] == "num":
                then = [("goto", self.linenum())]
            else:
                then = self.statements(True)
            els = None
            if c.accept("ELSE"):
                if c.peek()[0] == "num":
                    els = [("goto", self.linenum())]
                else:
                    els = self.statements(True)
            return ("if", cond, then, els)
        if v == "FOR":
            c.next()
            var = self.lvalue()
            c.expect("=", RefGap)
            start = self.expr()
            c.expect("TO", RefGap)
            limit = self.expr()
            step = self.expr() if c.accept("STEP") else None
            return ("for", var, start, limit, step)
        if v == "NEXT":
            c.next()
            vs = []
            if c.peek()[0] == "id" and c.peekv() not in STATEMENT_WORDS:
                vs.append(self.lvalue())
                while c.accept(","):
                    vs.append(self.lvalue())
            return ("next", vs)
        if v in ("GOTO", "GOSUB"):
            c.next()
            return (v.lower(), self.linenum())
        if v == "ON":
            c.next()
            if c.peekv() in ("ERR", "BRK"):
                which = c.next()[1]
                c.expect("GOTO", RefGap)
                return ("onerr", which, self.linenum())
            sel = self.expr()
            kind2 = c.next()[1]
            if kind2 not in ("GOTO", "GOSUB"):
                raise RefGap("ON without GOTO/GOSUB")
            ns = [self.linenum()]
            while c.accept(","):
                ns.append(self.linenum())
            return ("on", sel, kind2.lower(), ns)
        if v in ("RETURN", "END", "STOP", "RESTORE", "TRON", "TROFF"):
            c.next()
            return (v.lower(),)
        if v == "CLEAR":
            c.next()
            while not c.at_end() and c.peekv() not in (":", "ELSE"):
                c.next()
            return ("rem", "CLEAR")
        if v == "DIM":
            c.next()
            decls = []
            while True:
                k2, name = c.next()
                if k2 != "id":
                    raise RefGap("DIM name expected")
                if c.accept("("):
                    bounds = []
                    while True:
                        kb, vb = c.next()
                        if kb == "num" and vb.isdigit():
                            bounds.append(int(vb))
                        elif kb == "hex":
                            bounds.append(int(vb[2:], 16))
                        else:
                            raise RefGap("non-literal DIM bound")
                        if not c.accept(","):
                            break
                    c.expect(")", RefGap)
                    decls.append((var_key(name, True), bounds))
                else:
                    decls.append((var_key(name), None))
                if not c.accept(","):
                    break
            return ("dim", decls)
        if v == "READ":
            c.next()
            lvs = [self.lvalue()]
            while c.accept(","):
                lvs.append(self.lvalue())
            return ("read", lvs)
        if v in ("INPUT", "LINE"):
            c.next()
            line = v == "LINE"
            if line:
                c.expect("INPUT", RefGap)
            prompt = None
            if c.peek()[0] == "str":
                prompt = c.next()[1][1:-1]
                c.expect(";", RefGap)
            lvs = [self.lvalue()]
            while c.accept(","):
                lvs.append(self.lvalue())
            return ("input", line, prompt, lvs)
        if v == "LET":
            c.next()
            return self.assignment()
        if v == "POKE":
            c.next()
            a = self.expr()
            c.expect(",", RefGap)
            b = self.expr()
            return ("poke", a, b)
        if v in DEVICE_PARSERS:
            c.next()
            return DEVICE_PARSERS[v](self)
        if v in STATEMENT_WORDS or v in NUM_FUNCS or v in STR_FUNCS:
            raise RefGap(f"statement {v} is outside the reference fragment")
        return self.assignment()

    def assignment(self):
        c = self.c
        lv = self.lvalue()
        c.expect("=", RefGap)
        # partial string literal at end of line: "abc  (no closing quote) is handled by the tokenizer as an error -> gap
        return ("assign", lv, self.expr())

    def print_stmt(self):
        c = self.c
        at = None
        if c.accept("@"):
            at = self.expr()
            if not c.accept(","):
                return ("print", at, [], True)
        items = []
        while not c.at_end() and c.peekv() not in (":", "ELSE"):
            if c.peekv() in (";", ",") and c.peek()[0] == "op":
                items.append(("sep", c.next()[1]))
            else:
                items.append(("e", self.expr()))
        return ("print", at, items, False)

    # ---- device statements: each returns ('dev', NAME, {operand: expr | ('word', w) | None})
    def coords(self):
        c = self.c
        c.expect("(", RefGap)
        x = self.expr()
        c.expect(",", RefGap)
        y = self.expr()
        c.expect(")", RefGap)
        return x, y


def _dev(name, **ops):
    return ("dev", name, ops)


def p_sound(p):
    f = p.expr()
    p.c.expect(",", RefGap)
    d = p.expr()
    return _dev("SOUND", f=f, d=d)


def p_cls(p):
    c = p.c
    if c.at_end() or c.peekv() in (":", "ELSE"):
        return _dev("CLS", c=None)
    return _dev("CLS", c=p.expr())


def p_opt1(name, key):
    def f(p):
        c = p.c
        if c.at_end() or c.peekv() in (":", "ELSE"):
            return _dev(name, **{key: None})
        return _dev(name, **{key: p.expr()})

    return f


def p_two(name, k1, k2):
    def f(p):
        a = p.expr()
        p.c.expect(",", RefGap)
        b = p.expr()
        return _dev(name, **{k1: a, k2: b})

    return f


def p_one(name, k1):
    def f(p):
        return _dev(name, **{k1: p.expr()})

    return f


def p_attr(p):
    c = p.c
    a = p.expr()
    c.expect(",", RefGap)
    b = p.expr()
    opts = []
    while c.accept(","):
        k, v = c.next()
        if v not in ("B", "U"):
            raise RefGap("ATTR option")
        opts.append(v)
    return _dev("ATTR", c1=a, c2=b, B=("word", "B" in opts), U=("word", "U" in opts))


def p_palette(p):
    c = p.c
    if c.peekv() in ("RGB", "CMP"):
        return _dev("PALETTE_" + c.next()[1])
    a = p.expr()
    c.expect(",", RefGap)
    b = p.expr()
    return _dev("PALETTE", r=a, c=b)


def p_hcolor(p):
    c = p.c
    f = p.expr()
    b = p.expr() if c.accept(",") else None
    return _dev("HCOLOR", f=f, b=b)


def p_hcircle(p):
    c = p.c
    x, y = p.coords()
    c.expect(",", RefGap)
    r = p.expr()
    col = hw = s = e = None
    n = 0
    if c.accept(","):
        n = 1
        if c.peekv() != "," and not c.at_end() and c.peekv() not in (":", "ELSE"):
            col = p.expr()
        if c.accept(","):
            n = 2
            hw = p.expr()
            if c.accept(","):
                n = 4
                s = p.expr()
                c.expect(",", RefGap)
                e = p.expr()
    if n == 4:
        return _dev("HARC", x=x, y=y, r=r, c=col, hw=hw, s=s, e=e)
    return _dev("HCIRCLE", x=x, y=y, r=r, c=col, hw=hw)


def p_hline(p):
    c = p.c
    src = None
    if c.peekv() == "(":
        src = p.coords()
    c.expect("-", RefGap)
    dst = p.coords()
    c.expect(",", RefGap)
    k, mode = c.next()
    if mode not in ("PSET", "PRESET"):
        raise RefGap("HLINE mode")
    t = "L"
    if c.accept(","):
        k, t = c.next()
        if t not in ("B", "BF"):
            raise RefGap("HLINE option")
    return _dev("HLINE", rel=("word", src is None), x0=src[0] if src else None, y0=src[1] if src else None,
                x1=dst[0], y1=dst[1], m=("word", mode), t=("word", t))


def p_hset(p):
    c = p.c
    c.expect("(", RefGap)
    x = p.expr()
    c.expect(",", RefGap)
    y = p.expr()
    col = None
    if c.accept(","):
        col = p.expr()
    c.expect(")", RefGap)
    if col is None:
        return _dev("HSET", x=x, y=y)
    return _dev("HSET3", x=x, y=y, c=col)


def p_hreset(p):
    x, y = p.coords()
    return _dev("HRESET", x=x, y=y)


def p_hpaint(p):
    c = p.c
    x, y = p.coords()
    col = b = None
    if c.accept(","):
        col = p.expr()
        if c.accept(","):
            b = p.expr()
    return _dev("HPAINT", x=x, y=y, c=col, b=b)


def p_hprint(p):
    x, y = p.coords()
    p.c.expect(",", RefGap)
    return _dev("HPRINT", x=x, y=y, e=p.expr())


def p_hget(p):
    c = p.c
    x0, y0 = p.coords()
    c.expect("-", RefGap)
    x1, y1 = p.coords()
    c.expect(",", RefGap)
    return _dev("HGET", x0=x0, y0=y0, x1=x1, y1=y1, b=p.expr())


def p_hput(p):
    c = p.c
    x0, y0 = p.coords()
    c.expect("-", RefGap)
    x1, y1 = p.coords()
    c.expect(",", RefGap)
    b = p.expr()
    c.expect(",", RefGap)
    k, a = c.next()
    if a not in ("AND", "NOT", "OR", "PRESET", "PSET", "XOR"):
        raise RefGap("HPUT action")
    return _dev("HPUT", x0=x0, y0=y0, x1=x1, y1=y1, b=b, a=("word", a))


def p_set(p):
    c = p.c
    c.expect("(", RefGap)
    x = p.expr()
    c.expect(",", RefGap)
    y = p.expr()
    c.expect(",", RefGap)
    col = p.expr()
    c.expect(")", RefGap)
    return _dev("SET", x=x, y=y, c=col)


def p_reset(p):
    x, y = p.coords()
    return _dev("RESET", x=x, y=y)


DEVICE_PARSERS = {
    "SOUND": p_sound,
    "CLS": p_cls,
    "LOCATE": p_two("LOCATE", "x", "y"),
    "ATTR": p_attr,
    "WIDTH": p_one("WIDTH", "n"),
    "PALETTE": p_palette,
    "RGB": lambda p: _dev("PALETTE_RGB"),
    "CMP": lambda p: _dev("PALETTE_CMP"),
    "HSCREEN": p_opt1("HSCREEN", "n"),
    "HCLS": p_opt1("HCLS", "c"),
    "HCOLOR": p_hcolor,
    "HCIRCLE": p_hcircle,
    "HLINE": p_hline,
    "HSET": p_hset,
    "HRESET": p_hreset,
    "HPAINT": p_hpaint,
    "HPRINT": p_hprint,
    "HDRAW": p_one("HDRAW", "s"),
    "PLAY": p_one("PLAY", "s"),
    "HBUFF": p_two("HBUFF", "b", "s"),
    "HGET": p_hget,
    "HPUT": p_hput,
    "SET": p_set,
    "RESET": p_reset,
}


def parse_program(text):
    """-> list of (linenum, [statements]) in textual order"""
    lines = []
    for raw in re.split(r"[\r\n]+", text):
        if raw.strip() == "" or raw.strip() == "\0":
            continue
        m = LINE_RE.match(raw)
        if not m:
            raise RefGap(f"line without number: {raw!r}")
        toks = line_tokens(m.group(2))
        lines.append((int(m.group(1)), StmtParser(toks).statements(False)))
    return lines


def parse_expression(text):
    cur = Cursor(cb_tokens(text))
    e = ExprParser(cur).parse()
    if not cur.at_end():
        raise RefGap(f"trailing tokens in expression: {cur.peekv()!r}")
    return e
