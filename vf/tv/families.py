"""Deterministic, exhaustive-within-bound program families generated from the *reference* grammar (not the tool's).
VERIF_SEED never changes a family."""
import itertools

NUMVARS = ["A", "B", "C", "D", "E", "F", "G", "H"]
STRVARS = ["S$", "T$"]

HPUT_ACTIONS = ["AND", "NOT", "OR", "PRESET", "PSET", "XOR"]


def device_forms():
    """(name, template) - {n} numeric operand slots, {s} string operand slots"""
    f = []
    f += [("CLS0", "CLS"), ("CLS1", "CLS {n}")]
    f += [("AT", "PRINT @ {n} , {s}"), ("AT0", "PRINT @ {n}"), ("AT2", "PRINT @ {n} , {s} ; {n}")]
    f += [("LOCATE", "LOCATE {n} , {n}")]
    for tag, opt in (("", ""), ("B", " , B"), ("U", " , U"), ("BU", " , B , U"), ("UB", " , U , B")):
        f.append(("ATTR" + tag, "ATTR {n} , {n}" + opt))
    f += [("WIDTH", "WIDTH {n}"), ("PALETTE", "PALETTE {n} , {n}"), ("PALRGB", "PALETTE RGB"), ("PALCMP", "PALETTE CMP"),
          ("RGB", "RGB"), ("CMP", "CMP")]
    f += [("HSCREEN0", "HSCREEN"), ("HSCREEN1", "HSCREEN {n}"), ("HCLS0", "HCLS"), ("HCLS1", "HCLS {n}"),
          ("HCOLOR1", "HCOLOR {n}"), ("HCOLOR2", "HCOLOR {n} , {n}")]
    hc = "HCIRCLE ( {n} , {n} ) , {n}"
    f += [("HCIRCLE", hc), ("HCIRCLEc", hc + " , {n}"), ("HCIRCLEch", hc + " , {n} , {n}"), ("HCIRCLEh", hc + " , , {n}"),
          ("HARC", hc + " , {n} , {n} , {n} , {n}"), ("HARCnc", hc + " , , {n} , {n} , {n}")]
    for mode in ("PSET", "PRESET"):
        for tag, opt in (("", ""), ("B", " , B"), ("BF", " , BF")):
            f.append((f"HLINE{mode}{tag}", "HLINE ( {n} , {n} ) - ( {n} , {n} ) , " + mode + opt))
            f.append((f"HLINEREL{mode}{tag}", "HLINE - ( {n} , {n} ) , " + mode + opt))
    f += [("HSET", "HSET ( {n} , {n} )"), ("HSET3", "HSET ( {n} , {n} , {n} )"), ("HRESET", "HRESET ( {n} , {n} )")]
    f += [("HPAINT0", "HPAINT ( {n} , {n} )"), ("HPAINT1", "HPAINT ( {n} , {n} ) , {n}"), ("HPAINT2", "HPAINT ( {n} , {n} ) , {n} , {n}")]
    f += [("HPRINTs", "HPRINT ( {n} , {n} ) , {s}"), ("HPRINTn", "HPRINT ( {n} , {n} ) , {n}")]
    f += [("HDRAW", "HDRAW {s}"), ("PLAY", "PLAY {s}"), ("HBUFF", "HBUFF {n} , {n}")]
    f += [("HGET", "HGET ( {n} , {n} ) - ( {n} , {n} ) , {n}")]
    for a in HPUT_ACTIONS:
        f.append(("HPUT" + a, "HPUT ( {n} , {n} ) - ( {n} , {n} ) , {n} , " + a))
    f += [("SET", "SET ( {n} , {n} , {n} )"), ("RESET", "RESET ( {n} , {n} )"), ("SOUND", "SOUND {n} , {n}")]
    f += [("POKE", "POKE {n} , {n}"), ("POKE65496", "POKE 65496 , {n}"), ("POKE65497", "POKE 65497 , {n}"),
          ("POKEFFD8", "POKE &HFFD8 , {n}"), ("POKEFFD9", "POKE &HFFD9 , {n}"), ("POKE65495", "POKE 65495 , {n}"),
          ("POKE65498", "POKE 65498 , {n}")]
    f += [("BUTTON", "Z = BUTTON ( {n} )"), ("JOYSTK", "Z = JOYSTK ( {n} )"), ("POINT", "Z = POINT ( {n} , {n} )"),
          ("INKEY", "Z$ = INKEY$"), ("BUTTONe", "Z = BUTTON ( {n} ) + 1"), ("POINTe", "Z = 2 * POINT ( {n} , {n} )")]
    # the same device function with the same operand text more than once in a statement: every occurrence is a reading
    # of the device of its own (the key pressed, the stick position at that moment), in the position it was written
    f += [("INKEYx2", "Z$ = INKEY$ + INKEY$"), ("INKEYPRINTx2", "PRINT INKEY$ ; INKEY$"), ("BUTTONx2", "Z = BUTTON ( 0 ) + BUTTON ( 0 )"),
          ("JOYSTKx2", "Z = JOYSTK ( A ) * JOYSTK ( A )"), ("POINTx2", "HSET ( POINT ( A , B ) , POINT ( A , B ) , 1 )"),
          ("JOYSTKx4", "HLINE ( JOYSTK ( 0 ) , JOYSTK ( 1 ) ) - ( JOYSTK ( 0 ) , JOYSTK ( 1 ) ) , PSET"),
          ("BUTTONSOUNDx2", "SOUND BUTTON ( 1 ) + 1 , BUTTON ( 1 ) + 1"), ("INKEYATx2", "PRINT @ 5 , INKEY$ ; INKEY$ ;")]
    return f


def fill(template, nums, strs):
    out = []
    ni = si = 0
    i = 0
    while i < len(template):
        if template.startswith("{n}", i):
            out.append(nums[ni])
            ni += 1
            i += 3
        elif template.startswith("{s}", i):
            out.append(strs[si])
            si += 1
            i += 3
        else:
            out.append(template[i])
            i += 1
    return "".join(out)


def slots(template):
    return template.count("{n}"), template.count("{s}")


def operand_variants(template, deep):
    """yield (tag, statement text): all-variables, all-literals, one operand replaced by an expression / hoisted fn"""
    nn, ns = slots(template)
    base_n = NUMVARS[:nn]
    base_s = STRVARS[:ns]
    yield "vars", fill(template, base_n, base_s)
    yield "lits", fill(template, [str(i + 1) for i in range(nn)], ['"L%d"' % i for i in range(ns)])
    for k in range(nn):
        for tag, e in (("expr", "{v} + 1"), ("hoist", "INT ( {v} )"), ("neg", "- {v}"), ("arr", "Q ( {v} )")) + ((("hex", "&H1F"), ("paren", "( {v} * 2 )"), ("hoist2", "1 + VAL ( S$ )")) if deep else ()):
            nums = list(base_n)
            nums[k] = e.format(v=base_n[k])
            yield f"{tag}{k}", fill(template, nums, base_s)
    for k in range(ns):
        for tag, e in (("cat", '{v} + "X"'), ("shoist", "STR$ ( A )"), ("sarr", "R$ ( 1 )")) + ((("inkey", "INKEY$"), ("left", "LEFT$ ( {v} , 2 )")) if deep else ()):
            strs = list(base_s)
            strs[k] = e.format(v=base_s[k])
            yield f"{tag}s{k}", fill(template, base_n, strs)


def device_programs(deep=False):
    """-> list of (form name, variant tag, source)"""
    out = []
    for name, tpl in device_forms():
        for tag, stmt in operand_variants(tpl, deep):
            out.append((name, tag, "10 " + stmt))
            if tag in ("vars", "lits"):
                # the same statement followed by other text on the line (blank after its last token)
                out.append((name, tag + "+seq", "10 " + stmt + " : Y = 1"))
                out.append((name, tag + "+ifarm", "10 IF X = 1 THEN " + stmt + " ELSE Y = 2"))
                out.append((name, tag + "+elsearm", "10 IF X = 1 THEN Y = 2 ELSE " + stmt))
                out.append((name, tag + "+trail", "10 " + stmt + " "))
            if tag == "lits":
                # the same statement in a program whose DATA line spells the same constants beside an empty item (the tool
                # then rewrites the DATA items in place): operands are not DATA items
                out.append((name, "lits+dataenv", "10 " + stmt + "\n90 DATA 1 , , 2 , 3 , 4 , 5 , 6 , 7"))
    return out


def statement_coverage():
    """one or more programs per non-device statement form of the grammar"""
    progs = [
        "10 A = 1", "10 LET A = 1", "10 A$ = \"X\"", "10 LET A$ = \"X\"", "10 A ( 1 ) = 2", "10 LET A ( 1 , 2 ) = 3",
        "10 A$ ( 1 ) = \"Y\"", "10 A = B : C = D : E = F", "10 : A = 1", "10 A = 1 :", "10 A = 1 : : B = 2",
        "10 PRINT", "10 PRINT A", "10 PRINT A$", "10 PRINT A ; B", "10 PRINT A , B", "10 PRINT A B", "10 PRINT A$ B$ ;",
        "10 PRINT ; A", "10 PRINT , A", "10 PRINT A ; ; B", "10 PRINT \"X\" ; A ; \"Y\"", "10 ? A", "10 PRINT TAB ( 3 ) ; A$",
        "10 PRINT A$ ;", "10 PRINT A$ ,", "10 PRINT \"A\" \"B\"", "10 PRINT A + 1 ; B * 2",
        "10 IF A = 1 THEN 20\n20 END", "10 IF A = 1 THEN B = 2", "10 IF A = 1 THEN B = 2 : C = 3",
        "10 IF A = 1 THEN 20 ELSE 30\n20 END\n30 END", "10 IF A = 1 THEN B = 2 ELSE B = 3",
        "10 IF A = 1 THEN B = 2 : C = 3 ELSE B = 4 : C = 5", "10 IF A = 1 THEN 20 ELSE B = 3\n20 END",
        "10 IF A = 1 THEN B = 2 ELSE 30\n30 END", "10 IF A = 1 THEN B = 1 ELSE IF A = 2 THEN B = 2 ELSE B = 3",
        "10 IF A = 1 THEN B = 1 ELSE IF A = 2 THEN B = 2 ELSE IF A = 3 THEN B = 3 ELSE B = 4",
        "10 IF A = 1 THEN 20 ELSE IF A = 2 THEN 30 ELSE 40\n20 END\n30 END\n40 END",
        "10 IF A = 1 THEN IF B = 2 THEN C = 3", "10 IF A$ = \"X\" THEN B = 1", "10 IF A = 1 AND B = 2 THEN C = 3",
        "10 IF A = 1 OR B = 2 THEN C = 3", "10 IF NOT A = 1 THEN C = 3", "10 IF ( A = 1 ) THEN C = 3", "10 IF A THEN C = 3",
        "10 IF A = 1 THEN PRINT \"X\" : GOTO 10", "10 IF A = 1 THEN GOSUB 20 ELSE GOSUB 30\n20 RETURN\n30 RETURN",
        "10 FOR I = 1 TO 3 : NEXT I", "10 FOR I = 1 TO 3 : NEXT", "10 FOR I = 1 TO 9 STEP 2 : NEXT I",
        "10 FOR I = 3 TO 1 STEP - 1 : NEXT I", "10 FOR I = 1 TO 2 : FOR J = 1 TO 2 : NEXT J , I",
        "10 FOR I = 1 TO 2 : FOR J = 1 TO 2 : NEXT : NEXT", "10 FOR I = 1 TO 2\n20 PRINT I\n30 NEXT I",
        "10 FOR I = A TO B STEP C : NEXT I",
        "10 GOTO 10", "10 GOSUB 20\n20 RETURN", "10 ON A GOTO 10 , 20\n20 END", "10 ON A GOSUB 20 , 20\n20 RETURN",
        "10 ON ERR GOTO 20\n20 END", "10 ON BRK GOTO 20\n20 END", "10 ON ERR GOTO 20 : ON BRK GOTO 30\n20 END\n30 END",
        "10 END", "10 STOP", "10 RETURN", "10 RESTORE", "10 TRON", "10 TROFF", "10 CLEAR", "10 CLEAR 200",
        "10 DIM A ( 5 )", "10 DIM A ( 5 , 6 )", "10 DIM A ( 2 , 3 , 4 )", "10 DIM A$ ( 5 )", "10 DIM A ( &H10 )",
        "10 DIM A ( 5 ) , B ( 6 ) , C$ ( 7 )", "10 DIM A", "10 DIM A$", "10 DIM A , B$ , C ( 3 )",
        "10 DATA 1 , 2 , 3", "10 DATA \"A\" , B C , 3", "10 DATA 1 , , 3", "10 DATA ,", "10 DATA &HFF , 2", "10 DATA - 1 , + 2 , 1E3",
        "10 READ A", "10 READ A , B$ , C ( 1 ) , D$ ( 2 )\n20 DATA 1 , X , 2 , Y", "10 READ A , B\n20 DATA 1 ,",
        "10 INPUT A", "10 INPUT A , B$", "10 INPUT \"PROMPT\" ; A", "10 INPUT \"PROMPT\" ; A , B ( 1 )", "10 LINE INPUT A$",
        "10 LINE INPUT \"PROMPT\" ; A$", "10 REM HELLO WORLD", "10 ' HELLO", "10 A = 1 : REM TAIL", "10 A = 1 ' TAIL",
        "10 REM", "10 A$ = \"UNCLOSED", "10 A$ ( 1 ) = \"UNCLOSED", "10 A = VARPTR ( B )", "10 A = VARPTR ( B$ )",
        "10 A = VARPTR ( B ( 1 ) )", "10 A = ERNO", "10 A = PEEK ( B ) + RND ( 3 )", "10 A = SQR ( B ) : C = FIX ( D )",
        "10 A = LEN ( B$ ) + ASC ( C$ ) + VAL ( D$ )", "10 A$ = CHR$ ( B ) + STR$ ( C ) + HEX$ ( D )",
        "10 A$ = LEFT$ ( B$ , 1 ) + RIGHT$ ( B$ , 2 ) + MID$ ( B$ , 1 , 2 )", "10 A$ = STRING$ ( 3 , B$ )",
        "10 A = INSTR ( 1 , B$ , C$ )", "10 A = &HFF + &H8000 + &HFFFFFF", "10 A = 1.5E3 + .5 - 1E-3",
        "10 A = ( B + C ) * ( D - E ) / F ^ G", "10 A = B < C", "10 A = - B",
        # alternatives of the real grammar that nothing above exercises (found by bin/grammar_coverage)
        "10 A = + B", "10 A = ATN ( B ) + COS ( B ) + EXP ( B ) + LOG ( B )", "10 A = SGN ( B ) + SIN ( B ) + TAN ( B )",
        '10 ? @ 5 , "X"', "10 ? @ 5", '10 LET A$ ( 1 ) = "Y"', "10 DIM A$ ( 1 , 2 )", "10 DIM A$ ( 1 , 2 , 3 )",
        '10 LET A$ ( 1 ) = "UNCLOSED', '10 LET A$ = "UNCLOSED', "10 A = B =< C", "10 A = B => C", '10 IF A$ =< "M" THEN 10',
        # NEXT with variable lists inside further loops, closed by name or by a bare NEXT
        "10 FOR I = 1 TO 2 : FOR J = 1 TO 2 : FOR K = 1 TO 2 : NEXT K , J : NEXT",
        "10 FOR I = 1 TO 2 : FOR J = 1 TO 2 : FOR K = 1 TO 2 : NEXT K , J , I",
        "10 FOR I = 1 TO 2 : FOR J = 1 TO 2 : FOR K = 1 TO 2 : NEXT : NEXT J , I",
        "10 FOR G = 1 TO 2 : FOR H = 1 TO 2 : FOR I = 1 TO 2 : FOR J = 1 TO 2 : NEXT J , I : NEXT : NEXT",
        "10 FOR I = 1 TO 2\n20 FOR J = 1 TO 2\n30 NEXT J , I",
        # repeated names in one DIM, DIM of scalars beside arrays
        "10 DIM A ( &H0 )", "10 DIM A ( 0 )", "10 A = &H0", "10 POKE &HFF9A , &H00", "10 DATA &H0 , &H00",
        "10 DIM A$ , B , A$", "10 DIM A , A", '10 DIM A$ , B$ ( 2 ) : A$ = "X" : B$ ( 1 ) = A$',
        # assignments whose whole right-hand side becomes a procedure call: with and without LET, scalar and element targets
    ] + [f"10 {let}{tgt} = {fn}" for let in ("", "LET ") for tgt, fn in (("X", "INT ( Y )"), ("X", "VAL ( A$ )"), ("X", "INSTR ( 1 , A$ , B$ )"), ("X", "BUTTON ( 0 )"),
                                                                       ("X", "JOYSTK ( 0 )"), ("X", "POINT ( 1 , 2 )"), ("A$", "INKEY$"), ("A$", "STR$ ( X )"), ("A$", "HEX$ ( X )"),
                                                                       ("A$", "STRING$ ( 3 , B$ )"), ("A ( 2 )", "INT ( Y )"), ("A ( INT ( X ) )", "INT ( Y )"), ("A$ ( 1 )", "STR$ ( X )"),
                                                                       ("X", "INT ( Y ) + 1"), ("A$", 'STR$ ( X ) + "!"'))] + [
        # a converted function whose operand is a converted function, as the whole right-hand side
        "10 X = INT ( VAL ( A$ ) )", "10 A$ = STR$ ( INT ( X ) )", "10 P = POINT ( INT ( X ) , INT ( Y ) )", "10 I = INSTR ( 1 , A$ , STR$ ( X ) )",
        "10 J = INT ( JOYSTK ( 0 ) / 8 )", "10 A$ = STRING$ ( INT ( X ) , STR$ ( Y ) )", "10 A ( 1 ) = INT ( VAL ( A$ ) )", "10 A$ = HEX$ ( INT ( X ) )",
        # two-operand MID$ (Color BASIC: to the end of the string)
        "10 A$ = MID$ ( B$ , 2 )", '10 IF MID$ ( A$ , 2 ) = "X" THEN 10', "10 PRINT MID$ ( A$ , N )",
        # keyword pairs written without the blank (crunched listings)
        "10 PALETTERGB", "10 PALETTECMP", "10 PALETTE  RGB", "10 IF A=1 THEN PALETTECMP ELSE PALETTERGB",
        # lines without a statement
        "10 :", "10 : :", "10 GOTO 20\n20 :", "10 GOTO 20\n20", "10 A = 1\n20\n30 B = 2",
    ]
    return progs


PRINT_ITEMS = ["A", "- A", "A$", '"X"', "INT ( A )", "TAB ( 3 )"]
PRINT_SEPS = [";", ",", ""]


def print_lists(maxitems=3):
    """every arrangement of <= maxitems items with ; , or juxtaposition between them, optional leading/trailing separator"""
    out = []
    for n in range(1, maxitems + 1):
        for items in itertools.product(PRINT_ITEMS, repeat=n):
            for seps in itertools.product(PRINT_SEPS, repeat=n - 1):
                for lead in ("", ";", ","):
                    for trail in ("", ";", ","):
                        parts = [lead] if lead else []
                        for i, it in enumerate(items):
                            parts.append(it)
                            if i < n - 1 and seps[i]:
                                parts.append(seps[i])
                        if trail:
                            parts.append(trail)
                        out.append(" ".join(parts))
    return out


IF_ARM_CONTEXTS = [
    "10 IF Y = 1 THEN {s}",
    "10 IF Y = 1 THEN {s} ELSE Z = 2",
    "10 IF Y = 1 THEN Z = 1 ELSE {s}",
    "10 IF Y = 1 THEN {s} ELSE IF Y = 2 THEN Z = 2",
    "10 IF Y = 1 THEN Z = 1 ELSE IF Y = 2 THEN {s}",
    "10 IF Y = 1 THEN Z = 1 ELSE IF Y = 2 THEN Z = 2 ELSE {s}",
    "10 IF Y = 1 THEN {s} ELSE IF Y = 2 THEN Z = 2 ELSE Z = 3",
    "10 IF Y = 1 THEN Z = 1 ELSE IF Y = 2 THEN Z = 2 ELSE IF Y = 3 THEN {s} ELSE Z = 4",
    "10 IF Y = 1 THEN IF X = 1 THEN {s}",
    "10 IF Y = 1 THEN W = 1 : {s}",
    "10 IF Y = 1 THEN Z = 1 ELSE W = 1 : {s}",
    "10 FOR I = 1 TO 2 : {s} : NEXT I",
    "10 {s} : {s}",
    "10 REM X\n20 {s}",
    "10 GOTO 20\n20 {s}",
]
