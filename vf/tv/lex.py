"""Tokenisers for the two dialects (independent of the tool's grammar)."""
import re


class SyntaxErr(Exception):
    """the text is not a well-formed program of the dialect (C07 for the BASIC09 side)"""


class RefGap(Exception):
    """the *reference* parser does not cover this source construct: the program is outside the family, not a finding"""


CB_TOKEN = re.compile(
    r"""\s*(?:
      (?P<num>(?:\d+\.?\d*|\.\d+)(?:E[+-]?\d+)?)
    | (?P<hex>&H[0-9A-F]+)
    | (?P<str>"[^"\n\r]*")
    | (?P<id>[A-Z][A-Z0-9]*\$?)
    | (?P<op><=|>=|<>|=<|=>|[-+*/^()=<>,;:@?'])
    )""",
    re.X,
)

B09_TOKEN = re.compile(
    r"""[ \t]*(?:
      (?P<num>(?:\d+\.?\d*|\.\d+)(?:[eE][+-]?\d+)?)
    | (?P<hex>\$[0-9A-Fa-f]+)
    | (?P<str>"(?:[^"\n\r]|"")*")
    | (?P<id>[A-Za-z_][A-Za-z_0-9]*\$?(?:\.[A-Za-z_][A-Za-z_0-9]*)*)
    | (?P<op>:=|<=|>=|<>|><|=<|=>|\*\*|[-+*/^()=<>,;:\#\[\]])
    )""",
    re.X,
)


def tokens(text, rx, what):
    out = []
    pos = 0
    n = len(text)
    while pos < n:
        if text[pos] in " \t":
            pos += 1
            continue
        m = rx.match(text, pos)
        if not m or m.end() == pos:
            raise SyntaxErr(f"{what}: cannot tokenise at {text[pos:pos + 20]!r}")
        kind = m.lastgroup
        out.append((kind, m.group(kind)))
        pos = m.end()
    return out


def cb_tokens(text):
    return tokens(text, CB_TOKEN, "color basic")


def b09_tokens(text):
    return tokens(text, B09_TOKEN, "basic09")


class Cursor:
    def __init__(self, toks):
        self.t = toks
        self.i = 0

    def peek(self, k=0):
        j = self.i + k
        return self.t[j] if j < len(self.t) else (None, None)

    def peekv(self, k=0):
        return self.peek(k)[1]

    def next(self):
        tok = self.peek()
        self.i += 1
        return tok

    def at_end(self):
        return self.i >= len(self.t)

    def accept(self, value, ci=False):
        v = self.peekv()
        if v is not None and (v == value or (ci and v.upper() == value)):
            self.i += 1
            return True
        return False

    def expect(self, value, err, ci=False):
        if not self.accept(value, ci):
            raise err(f"expected {value!r}, found {self.peekv()!r}")
