"""Turn a disagreement between two expression trees into a small, stable description (the `regroup` signatures of
DESIGN §4.1): which prefix operator's operand gained or lost which operator kind."""

KIND = {"^": "pow", "*": "mul", "/": "mul", "+": "add", "-": "add"}
RANK = ["pow", "mul", "add", "rel", "and", "or"]
B9MAP = {"band": "and", "bor": "or", "bnot": "not", "bxor": "xor"}
CONVERTIBLE = {"INT", "VAL", "STR$", "HEX$", "INSTR", "STRING$", "INKEY$", "BUTTON", "JOYSTK", "POINT"}
import re as _re
TMP = _re.compile(r"^TMP_\d+\$?$")


def strip(t):
    if not isinstance(t, tuple):
        return t
    if t[0] == "par":
        return strip(t[1])
    if t[0] in ("num", "var", "str", "bool"):
        return t
    return tuple(strip(x) if isinstance(x, tuple) else ([strip(y) for y in x] if isinstance(x, list) else x) for x in t)


def canon(t):
    t = strip(t)
    if not isinstance(t, tuple):
        return t
    if t[0] in B9MAP:
        t = (B9MAP[t[0]],) + t[1:]
    if t[0] == "var":
        if TMP.match(t[1].upper()):
            return ("var", "<hoisted>")
        return ("var", t[1].upper())
    if t[0] == "idx":
        return ("idx", t[1].upper(), tuple(canon(x) for x in t[2]))
    if t[0] == "call":
        if t[1] == "FLOAT" and len(t[2]) == 1:
            return canon(t[2][0])
        if t[1] in CONVERTIBLE:
            return ("var", "<hoisted>")
        return ("call", t[1], tuple(canon(x) for x in t[2]))
    return tuple(canon(x) if isinstance(x, tuple) else x for x in t)


def skel(t, d=2):
    if not isinstance(t, tuple) or d == 0 or t[0] in ("num", "var", "str", "bool", "idx"):
        return "_"
    k = t[0]
    if k in ("bin", "rel"):
        return f"{t[1]}({skel(t[2], d - 1)},{skel(t[3], d - 1)})"
    if k == "un":
        return f"u{t[1]}({skel(t[2], d - 1)})"
    if k == "call":
        return f"{t[1]}(" + ",".join(skel(a, d - 1) for a in t[2]) + ")"
    return f"{k}(" + ",".join(skel(a, d - 1) for a in t[1:] if isinstance(a, tuple)) + ")"


def first_diff(a, b):
    if a == b:
        return None
    if isinstance(a, tuple) and isinstance(b, tuple) and a and b and a[0] == b[0] and len(a) == len(b):
        same_head = all((not isinstance(x, tuple)) and x == y or isinstance(x, tuple) for x, y in zip(a[1:], b[1:]))
        if same_head and a[0] not in ("num", "var", "str"):
            for x, y in zip(a[1:], b[1:]):
                if isinstance(x, tuple):
                    d = first_diff(x, y)
                    if d:
                        return d
    return (skel(a), skel(b))


def inorder(t, out):
    k = t[0]
    if k in ("num", "var", "str", "bool"):
        out.append(str(t[1]))
    elif k == "idx":
        out.append(t[1] + "(")
        for a in t[2]:
            inorder(a, out)
        out.append(")")
    elif k == "un":
        out.append("u" + t[1])
        inorder(t[2], out)
    elif k == "not":
        out.append("not")
        inorder(t[1], out)
    elif k in ("bin", "rel"):
        inorder(t[2], out)
        out.append(t[1])
        inorder(t[3], out)
    elif k in ("and", "or", "xor"):
        inorder(t[1], out)
        out.append(k)
        inorder(t[2], out)
    elif k == "call":
        out.append(t[1] + "(")
        for a in t[2]:
            inorder(a, out)
        out.append(")")
    else:
        raise ValueError(k)
    return out


def mask(t):
    """replace the operands of nested prefix operators by a placeholder (their own regrouping is reported separately)"""
    if not isinstance(t, tuple) or not t or not isinstance(t[0], str):
        return t
    if t[0] == "un":
        return ("un", t[1], ("var", "<p>"))
    if t[0] == "not":
        return ("not", ("var", "<p>"))
    return tuple(mask(x) if isinstance(x, tuple) and x and isinstance(x[0], str) else (tuple(mask(y) for y in x) if isinstance(x, tuple) else x) for x in t)


def root_kind(t):
    if not isinstance(t, tuple):
        return "leaf"
    if t[0] == "bin":
        return KIND[t[1]]
    if t[0] == "rel":
        return "rel"
    if t[0] in ("and", "or", "xor"):
        return t[0]
    if t[0] == "un":
        return "u" + t[1]
    if t[0] == "not":
        return "not"
    return "leaf"


def size(t):
    if not isinstance(t, tuple):
        return 0
    if t[0] in ("num", "var", "str", "bool"):
        return 1
    return sum(size(x) for x in t[1:] if isinstance(x, tuple)) + sum(size(y) for x in t[1:] if isinstance(x, (list, tuple)) and not (x and isinstance(x[0], str)) for y in x if isinstance(y, tuple))


def prefixes(t, out):
    """in-order list of (prefix operator, operand subtree)"""
    if not isinstance(t, tuple):
        return out
    if t[0] == "un":
        out.append(("u" + t[1], t[2]))
        prefixes(t[2], out)
        return out
    if t[0] == "not":
        out.append(("not", t[1]))
        prefixes(t[1], out)
        return out
    for x in t[1:]:
        if isinstance(x, tuple):
            if x and isinstance(x[0], str):
                prefixes(x, out)
            else:
                for y in x:
                    prefixes(y, out)
    return out


def explain(cbt, b9t):
    """-> sorted list of signature strings ([] when the trees are the same operator tree)"""
    a, b = canon(cbt), canon(b9t)
    # the `<> 0` wrapper the tool adds to bare numeric conditions is not a regrouping
    if isinstance(b, tuple) and b[0] == "rel" and b[1] == "<>" and b[3] == ("num", 0.0) and not (a[0] == "rel" and a[1] == "<>"):
        b = b[2]
    if a == b:
        return []
    try:
        ia, ib = inorder(a, []), inorder(b, [])
    except ValueError:
        return ["changed:" + "/".join(first_diff(a, b))]
    if ia != ib:
        return ["changed:" + "/".join(first_diff(a, b))]
    pa, pb = prefixes(a, []), prefixes(b, [])
    sig = set()
    if len(pa) == len(pb):
        for (opn, ta), (_, tb) in zip(pa, pb):
            if ta != tb and mask(ta) != mask(tb):
                o = opn.replace("u+", "u-")
                if size(tb) > size(ta):
                    sig.add(f"regroup:{o} gains {root_kind(tb)}")
                elif size(ta) > size(tb):
                    sig.add(f"regroup:{o} loses {root_kind(ta)}")
    if not sig:
        return ["regroup:" + "/".join(first_diff(a, b))]
    return sorted(sig)
