"""Harnesses and declarative reference decoders for the image tools (used by C16-C19 through E1 pysym)."""
import time
import importlib
import sys as _sys

import z3

from vf import pysym, smt
from vf.pysym import Bytes, Failure, Fmt, HarnessGap, Interp, Intrinsic, Path, Sink, SList, Stream, Sym, Unwind, bv, is_sym, rng, term


# ----------------------------------------------------------------------------- environment stubs
class NullFile:
    def write(self, *a):
        return None

    def flush(self):
        return None


STDOUT_WRITES = []  # what the current path sent to standard output other than through its output stream


class StdoutFile:
    def write(self, x, *a):
        STDOUT_WRITES.append(repr(x)[:80])
        return None

    def flush(self):
        return None

    @property
    def buffer(self):
        return self


def i_print(I, *a, file=None, **kw):
    """print(): text for sys.stdout unless file= names another stream"""
    if file is None or isinstance(file, StdoutFile):
        STDOUT_WRITES.append("print(" + ", ".join(repr(x)[:40] for x in a) + ")")
    return None


class FakeSys:
    stderr = NullFile()
    stdout = StdoutFile()
    version_info = _sys.version_info
    argv = ["tool"]

    @staticmethod
    def exit(code=0):
        raise Failure("exit", str(code))


class FakePath:
    def __init__(self, registry):
        self.registry = registry

    def getsize(self, name):
        return self.registry[name].length

    def __getattr__(self, k):
        import os

        return getattr(os.path, k)


class FakeOs:
    SEEK_SET, SEEK_CUR, SEEK_END = 0, 1, 2

    def __init__(self, registry):
        self.path = FakePath(registry)
        self.removed = []

    def remove(self, name):
        self.removed.append(name)


def cells(n, prefix):
    cs = [Sym(z3.BitVec(f"{prefix}{i}", pysym.W), 0, 255) for i in range(n)]
    return cs, [z3.ULE(c.t, 255) for c in cs]


def load(modname):
    return importlib.import_module("coco." + modname)


CASE_CPU_BUDGET_S = 240
PENDING_GAPS = []  # budget overruns of the current case: the paths completed so far are still checked, the rest is a gap


def explore(make_run, premises, unwind=8, max_paths=600):
    """make_run() -> (callable(path) -> value, sink or None).  Returns list of dicts per path."""
    results = []
    stack = [[]]
    t0 = time.process_time()
    while stack:
        if time.process_time() - t0 > CASE_CPU_BUDGET_S:
            if not results:
                raise HarnessGap(f"case exceeds its CPU budget of {CASE_CPU_BUDGET_S} s before its first path completes")
            PENDING_GAPS.append(f"case exceeds its CPU budget of {CASE_CPU_BUDGET_S} s after {len(results)} paths ({len(stack)} open branches not explored)")
            break
        dec = stack.pop()
        path = Path(dec, premises)
        run, sink, extra = make_run()
        del STDOUT_WRITES[:]
        try:
            val = run(path)
            status, detail = "ok", ""
        except Failure as f:
            val, status, detail = None, "fail", f.kind + ": " + f.detail
        except Unwind as u:
            val, status, detail = None, "unwind", str(u)
        results.append({"pc": list(path.pc), "status": status, "detail": detail, "value": val, "out": sink.flat() if sink is not None else None, "extra": extra, "decisions": len(path.dec), "stdout": list(STDOUT_WRITES)})
        stack.extend(path.siblings(len(dec)))
        if len(results) > max_paths:
            raise HarnessGap("path explosion")
    return results


def run_function(mod, fname, build_args, premises, unwind=8, extra_intrinsics=None, max_paths=600, while_unwind=400):
    node, src = pysym.func_ast(getattr(mod, fname))

    def make_run():
        args, sink, registry, extra = build_args()
        intr = dict(pysym.BASE_INTRINSICS)
        intr["sys"] = FakeSys
        intr["print"] = Intrinsic(i_print)
        fos = FakeOs(registry)
        intr["os"] = fos
        extra = dict(extra or {})
        extra["os"] = fos
        if extra_intrinsics:
            intr.update(extra_intrinsics)

        def run(path):
            I = Interp(path, mod.__dict__, intr, while_unwind, unwind)
            env = [dict(args)]
            try:
                I.block(node.body, env)
            except pysym._Return as r:
                return r.v
            return None

        return run, sink, extra

    return explore(make_run, premises, unwind, max_paths), src


# ----------------------------------------------------------------------------- reference pieces
def bit(c, i):
    return z3.LShR(term(c), bv(i)) & bv(1)


def rgb6(c):
    """CoCo 3 six-bit colour code -> (r, g, b) terms"""
    return [(bit(c, 5) * 2 + bit(c, 2)) * 85, (bit(c, 4) * 2 + bit(c, 1)) * 85, (bit(c, 3) * 2 + bit(c, 0)) * 85]


def sel(cs, idx):
    """cs[idx] as a term (idx term assumed within range)"""
    e = term(cs[-1])
    for k in reversed(range(len(cs) - 1)):
        e = z3.If(idx == k, term(cs[k]), e)
    return e


def header(text):
    return list(text.encode("latin1"))


def out_terms(out):
    """flatten a sink: ints / Sym -> terms; Fmt stays as is"""
    res = []
    for c in out:
        if isinstance(c, Fmt):
            res.append(c)
        else:
            res.append(term(c))
    return res


def compare_cells(pc, got, want, stats, what, timeout_ms=30000, group=12):
    """obligations got[i] == want[i] under pc, `group` cells per query (a failing group is re-split to name the first
    differing cell).  -> (n_identity, n_unsat, first counterexample (index, model) | None, n_unknown)"""
    ident = uns = unk = 0
    bad = None
    todo = []
    for i, (a, b) in enumerate(zip(got, want)):
        if isinstance(a, Fmt) or isinstance(b, Fmt) or b is None:
            continue
        stats.bump("obligations")
        if isinstance(b, int):
            b = bv(b)
        if a.eq(b):
            ident += 1
            stats.bump("identity")
            continue
        todo.append((i, a, b))
    for k in range(0, len(todo), group):
        chunk = todo[k:k + group]
        v, m = smt.check(list(pc) + [z3.Or(*[a != b for _, a, b in chunk])], timeout_ms, want_model=True, stats=stats)
        if v == "unsat":
            uns += len(chunk)
            stats.bump("unsat", len(chunk))
        elif v == "sat":
            stats.bump("sat")
            if bad is None:
                for i, a, b in chunk:
                    if not z3.is_true(z3.simplify(m.eval(a, model_completion=True) == m.eval(b, model_completion=True))):
                        bad = (i, m)
                        break
        else:
            unk += len(chunk)
            stats.bump("unknown", len(chunk))
    return ident, uns, bad, unk


def model_bytes(m, cs):
    return bytes(m.eval(c.t, model_completion=True).as_long() & 0xFF for c in cs)
