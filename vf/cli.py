"""Entry point: python -m vf.cli C07 --tier quick | replay <file>"""
import argparse
import importlib
import json
import os
import sys
import traceback

from vf.core import EXIT_HARNESS, HarnessError


def main(argv=None):
    argv = list(sys.argv[1:] if argv is None else argv)
    if argv and argv[0] == "replay":
        with open(argv[1]) as f:
            rec = json.load(f)
        mod = importlib.import_module(f"vf.props.{rec['property'].lower()}")
        ok = mod.replay(rec)
        print("REPRODUCED" if ok else "NOT-REPRODUCED", rec["property"], rec.get("signature"))
        return 0 if ok else 2
    ap = argparse.ArgumentParser()
    ap.add_argument("prop")
    ap.add_argument("--tier", default=os.environ.get("VERIF_TIER", "quick"), choices=["quick", "thorough"])
    ap.add_argument("--dump-signatures", action="store_true", help="development aid: print every violation signature")
    args = ap.parse_args(argv)
    pid = args.prop.upper()
    os.environ["VERIF_TIER_EFFECTIVE"] = args.tier
    if args.tier == "thorough":
        os.environ.setdefault("VERIF_CROSSCHECK", "1")
    try:
        mod = importlib.import_module(f"vf.props.{pid.lower()}")
        ctx = mod.run(args.tier)
        if args.dump_signatures:
            for sig, what in list(ctx.known_hit.items()) + [(s, w) for s, w, _ in ctx.new_violations]:
                print("SIG\t" + json.dumps(sig) + "\t" + what)
        return ctx.finish()
    except HarnessError as e:
        print(f"HARNESS-ERROR: property={pid} {e}")
        traceback.print_exc()
        return EXIT_HARNESS
    except Exception as e:  # noqa: BLE001 - anything unexpected in the machinery is a harness error, never a violation
        print(f"HARNESS-ERROR: property={pid} unexpected {type(e).__name__}: {e}")
        traceback.print_exc()
        return EXIT_HARNESS


if __name__ == "__main__":
    sys.exit(main())
