"""Source of MANIFEST.json (python -m vf.manifest_table writes it).  One entry per property."""
import json
import os

ROOT = os.path.dirname(os.path.dirname(os.path.abspath(__file__)))

TV = "translation_validation"
MC = "model_checking"
OT = "other"

CHECKS = {
    "C01": dict(
        engine="tv+rxsmt+symproxy",
        category=TV,
        technique="translation validation with SMT (z3): real convert() output and the source are executed by two independent symbolic machines; z3 decides equality of all observable terms for all variable values; regex->z3 literal lemmas; HexLiteral run on a symbolic int",
        text="For every expression shape of the reference Color BASIC grammar up to the size bound, in ten statement contexts, the text emitted by the real convert() is parsed under BASIC09's precedence/typing and executed symbolically next to the source under Color BASIC's; z3 decides for all variable values (reals, or 16-bit ints in -6..6 when bitwise operators occur) that every observable (final stores, PRINT items, FOR operands, ON selection, branch taken, runtime-call arguments) is the same; sat models are confirmed by evaluation and replayed. Literal spellings and the hex threshold are decided as regex/integer queries over the real regexes and the real HexLiteral code.",
        note="Bound: <=2 binary operators x 10 contexts and <=3 in assignments (quick); <=3 x 10 contexts and 4 in assignments with two prefixed operands (thorough); one parenthesis level; literals |s|<=7/9. ^, integer division and built-ins shared by both dialects are uninterpreted (same symbol both sides); float rounding, overflow and zero-trip FOR loops are outside. Trusted: the two reference parsers in vf/tv (Color BASIC ROM precedence table, BASIC09 manual precedence), z3.",
        design="DESIGN.md §3 E3/E2/E5, §5 C01",
    ),
    "C02": dict(
        engine="tv",
        category=TV,
        technique="translation validation with SMT (z3): both symbolic machines run every path of source and emitted program over symbolic inputs; z3 decides path feasibility and equality of traces and final stores; findings reduced to minimal template lists",
        text="Programs are assembled exhaustively from control-flow line templates (all IF forms incl. ELSE IF chains and nested IFs, FOR/NEXT with STEP, bare NEXT, NEXT lists, GOTO, GOSUB/RETURN, ON..GOTO/GOSUB, END, STOP) in sequences of up to three template lines before a fixed tail, for the four combinations of filter_unused_linenum x initialize_vars. The source runs on the Color BASIC machine, the real convert() output on the BASIC09 machine, inputs come from a symbolic INPUT script; every path pair must give the same PRINT-tag sequence, END/STOP and final stores (z3 decides), and the emitted program must stop when the source stops (repeated-state detection).",
        note="Bound: <=3 template lines (all pairs of 50 templates and all triples of a 13-template core in quick; triples of a 28-template core in thorough), 80 steps per path, literal loop bounds with >=1 trip (zero-trip FOR loops, ON selectors out of range are reported as such, not compared). Trusted: the two reference front ends and the machine (vf/tv), z3.",
        design="DESIGN.md §5 C02",
    ),
    "C03": dict(
        engine="tv+symproxy",
        category=TV,
        technique="translation validation with SMT (both symbolic machines over real convert() output, z3 decides event/store equality; BASIC09 storage starts undefined when pre-initialisation is requested) + real DIM emission executed on a symbolic bound",
        text="PRINT lists (every arrangement of <=2/3 items from six item kinds with ; , juxtaposition, leading and trailing separators, with and without @), INPUT / LINE INPUT forms, DATA/READ/RESTORE arrangements over eight item kinds (quoted, unquoted, int, real, signed, exponent, hex, empty) spread over one or two DATA lines, array store/load with symbolic subscripts in 1-3 dimensions, nested string functions: z3 decides that both machines produce the same events (items, separators, prompts, targets) and stores. The declared extent and the fill-loop bound of DIM are decided for EVERY bound 0..32766 (decimal and hex) by running the real BasicDimStatement on a z3 integer. With initialize_vars=True the BASIC09 machine starts from undefined storage and every read of a variable/element nothing initialised is reported.",
        note="ecb_read_filter / number formatter follow their contracts (C20 checks the former against the library text). Outside: numeric DATA read into string variables, non-integer subscripts, out-of-range function arguments, float formatting. Programs that crash the tool are counted and left to C15.",
        design="DESIGN.md §5 C03",
    ),
    "C04": dict(
        engine="tv+symproxy",
        category=TV,
        technique="translation validation with SMT (z3): arguments of every emitted RUN bound to the real ecb.b09 param lists and compared per parameter name with a reference map over symbolic operands; BasicPoke executed on a symbolic address",
        text="Every device statement form x optional-operand pattern x operand shape is converted by the real tool; the BASIC09 machine executes the output, binds each RUN's arguments by position to the parameter names parsed from the real ecb.b09 and z3 decides, for all operand values, equality with the operand (or documented default) the reference map assigns to that parameter name. The two speed-poke addresses are decided for every literal address by running the real BasicPoke code on a symbolic integer; the HBUFF prologue is checked in both directions.",
        note="Bound: one device statement per program (plus the same statement followed by other text / inside IF arms), operand shapes listed in the evidence. The reference map (vf/tv/refmap.py) is trusted data written from the Color BASIC manuals; what the procedures do with their operands is outside. Trusted: z3, the BASIC09 reader.",
        design="DESIGN.md §5 C04",
    ),
    "C05": dict(
        engine="tv",
        category=TV,
        technique="translation validation with SMT (z3): evaluation events (function, argument terms) of both symbolic machines compared in order; device results are fresh symbols per call index; temporaries checked for read-before-write per emitted line",
        text="Every convertible function (INT VAL STR$ HEX$ INSTR STRING$ INKEY$ BUTTON JOYSTK POINT) alone, nested in each built-in / in each other (depth 2) and in ordered pairs, in ~40 statement slots including subscripts on both sides of an assignment, all IF forms and arms, FOR operands, PRINT/PRINT@ items, ON selector, device operands, jump-targeted lines and loop bodies: the Color BASIC machine records the reference evaluation order (left to right, innermost first, target subscripts before the value), the BASIC09 machine the RUN calls of the real convert() output; equal sequences with equal argument terms and equal final stores are decided by z3 (device functions return a fresh symbol per call number, so order shows in values). A temporary read on a line that did not assign it is reported.",
        note="Bound: nesting depth 2, one statement per program (plus second-statement / jump-target / loop contexts). The procedure contract (output := function(inputs)) is assumed; the known ecb_joystk arity mismatch is executed by evident intent so that order stays observable (the mismatch itself is C14's).",
        design="DESIGN.md §5 C05",
    ),
    "C06": dict(
        engine="tv+symproxy",
        category=TV,
        technique="translation validation with SMT over reference-graph programs (both symbolic machines, z3 decides path feasibility / equality); label-set and refusal rules; LineNumberCheckerVisitor and the emitted 32700 dispatcher executed on symbolic numbers",
        text="Sixteen jump-bearing statement forms (GOTO, THEN/ELSE line, nested and ELSE IF arms, ON lists, after other statements) plus GOSUB forms, with every assignment of their target slots to {self, next, forward, backward, line 0, missing}: conversion must be refused iff a target is missing; otherwise, for filter on/off x suffix on/off, the label set must be exactly the referenced lines (filter) or everything but an unreferenced line 0, statements must be unchanged by filtering, and both machines must print the tag of the line each jump names on every path. The >32699 refusal is decided for every line number by running the real checker on a z3 integer; the 32700 dispatcher is executed with a symbolic error number (break -> BRK target, everything else -> ERR target).",
        note="Bound: one jump-bearing statement per program, five lines. Handler semantics for single-handler programs as stated in the evidence assumptions.",
        design="DESIGN.md §5 C06",
    ),
    "C07": dict(
        engine="tv+rxsmt",
        category=TV,
        technique="independent BASIC09 reader over real convert() output (structural, per program) + SMT (z3 regex/string queries over the real grammar regexes) for content closure and reserved identifiers",
        text="Every output of the statement-coverage, device, expression-in-context, IF-arm and PRINT-list families and of the 21 bundled examples, under three option sets, must load in an independent reader of BASIC09's statement grammar (complete statements, balanced blocks, all operands present). z3 decides for every content string of the real str_literal / partial_str_lit / data_str_literal / comment_text regexes that the emitted line stays one closed physical line, and for every name the real var regex accepts that its two-character identifier is not a reserved word.",
        note="The structural part is decided per program without a solver (stated in the evidence); the solver part bounds contents to 6 and names to 4 characters. BASIC09 grammar subset = what the tool emits; reserved-word list deliberately short (DO ON PI + statement keywords). Type correctness of mixed boolean/numeric expressions is outside (by the property).",
        design="DESIGN.md §5 C07",
    ),
    "C10": dict(
        engine="symproxy+tv",
        category=TV,
        technique="real convert() pipeline executed with z3-backed sizes (symbolic default string size and configured size, ==-comparing shadow dict); emitted declarations read back by the loader; z3 decides capacity = requested size for all sizes 1..32766",
        text="For 45 programs that put strings and arrays in every syntactic position (assignment, only inside function arguments, READ/INPUT targets, implicit and DIMmed arrays in 1-3 dimensions, several DIM statements, temporaries of every origin, IF arms) x initialize_vars, the real pipeline runs once per feasible path with the default size s and the configured size c as z3 integers; for every string identifier in the output z3 decides that its declared capacity equals the requested one (c if DIMmed and configured, else s; no explicit size = 32) for ALL s, c in 1..32766. Arrays must be declared once, before first use, with bound+1 (11) elements per dimension; nothing may be declared twice. StringConfigs' size validation is decided the same way.",
        note="Programs are a fixed list (positions), sizes are fully symbolic. Assumes BASIC09's default string capacity is 32.",
        design="DESIGN.md §5 C10",
    ),
    "C11": dict(
        engine="tv",
        category=TV,
        technique="pairs of real convert() outputs that differ in one option: text equality modulo exactly the documented difference + BASIC09<->BASIC09 equivalence for all inputs decided by z3 over the symbolic machine; CLI flag mapping enumerated with a recording stub",
        text="For every program of the statement-coverage / device families (plus programs with labels, handlers, DATA, control characters) and each of six single-option changes (label filtering, pre-initialisation, width flag, dependency output, default string size, suffix) the two outputs must be equal after removing exactly what the option documents (labels / prologue assignments and fill loops / the _ecb_start flag / header and bundled procedures / STRING[n] sizes and DIM x$ lines); for the behavioural options the two outputs are also executed from the same symbolic state and z3 decides they behave identically. decb_to_b09.start is run with convert_file replaced by a recorder for all flag combinations and seven file-name shapes; CR line ends and the procedure header are checked end to end.",
        note="The CLI part enumerates (no symbolic content); argparse and real pipes are outside. The text rules are regular-expression definitions of 'prologue assignment' and 'fill loop' lines in vf/props/c11.py.",
        design="DESIGN.md §5 C11",
    ),
    "C12": dict(
        engine="ndset",
        category=MC,
        technique="set iteration order made an explicit choice (shadow set class installed in the tool's modules), schedules explored exhaustively per choice point with z3-checked coverage of the choice tree; findings replayed under real PYTHONHASHSEED values; history independence compared in-process and against fresh processes",
        text="Programs with one to three implicit arrays, several strings / scalars / DIM sizes / line references / temporaries / runtime dependencies are converted while every iteration over a Python set in visitors, compiler, elements and procbank is a choice point: all n! orders for sets of <= 3 elements (sorted / reversed / rotations above), one deviation from the default order at a time (two in thorough); z3 confirms that every alternative of every reached choice point was explored. All schedules must give byte-identical output; differing ones are replayed in subprocesses with real hash seeds. The same programs are converted repeatedly, in reverse order and in fresh processes to show independence of history.",
        note="CPython's hash function is modelled as an arbitrary order, not encoded (stated); simultaneous deviations bounded (1 quick / 2 thorough). Decoder determinism is implied by C16/C17 within their bounds.",
        design="DESIGN.md §3 E6, §5 C12",
    ),
    "C13": dict(
        engine="tv+rxsmt",
        category=TV,
        technique="bundle linker; the set of procedures that must be present is the least fixpoint of the RUN relation computed by z3's Fixedpoint (datalog) engine over independently parsed edges; z3 regex queries over the real procbank regexes",
        text="For one program per runtime-using statement/function, pairs of them, programs with several hoisted calls on one line and programs whose strings / DATA / comments contain RUN, PROCEDURE, the size placeholder or control characters, x default string size 32/40: the real bundle is split by an independent reader; present procedures must equal the z3-computed reachable set, once each, alphabetical, program last; every RUN must resolve in the bundle or to an OS-9 module; every STRING<<>> must carry the requested size; the program part must equal the output without dependencies. z3 proves over the real INVOKED_PROCEDURE_NAMES / STR_STORAGE_TAG regexes that no match can start inside a string literal of a quote-balanced line (length <= 24).",
        note="RUN edges are read by vf/tv/lib.py and vf/props/c13.py (statement level, outside strings and comments) - the trusted reference for 'reachable'.",
        design="DESIGN.md §5 C13",
    ),
    "C14": dict(
        engine="tv",
        category=TV,
        technique="linking against the real ecb.b09 param lists; the type class of each argument expression is decided by z3 (typing rules and declarations as constraints over an enumeration sort); record layouts compared field for field",
        text="Every RUN statement in the real convert() output of the device / statement / IF-arm families (prologue included) and every RUN between library procedures is bound to the callee's param list parsed from the real ecb.b09: argument count must match and z3 must find the argument expression typable with the parameter's class (string / numeric / boolean / record type). The prologue's display_t and play_t are compared field for field with every library declaration.",
        note="This is a linking decision supported by a solver (type inference as constraint solving), not a deep semantic proof; REAL vs INTEGER width is not distinguished. Families bound which call shapes are seen.",
        design="DESIGN.md §5 C14",
    ),
    "C15": dict(
        engine="rxsmt",
        category=OT,
        technique="SMT (z3 regex/string queries over the real token and procedure-name regexes, models replayed) + crash/hang monitor enumerating single-token edits, extreme literals, option and file-name extremes under a watchdog",
        text="z3 decides over the real int_literal / linenum / int_hex_literal / PROCNAME_REGEX / PROCEDURE_START_PREFIX regexes that every accepted token reaches its conversion and that every procedure name passing PROCNAME_REGEX.match yields a header the bank re-finds (models are replayed through convert()). The monitor calls the real convert() on every single-token deletion, duplication and swap of ~330 family programs (x two option sets in thorough), ~70 extreme inputs, option extremes and 14 CLI file names, each under a 5 s watchdog; any exception other than the documented refusals is reported, identified by exception class and the two innermost functions of the tool.",
        note="The monitor is an enumeration, not a solver decision (labelled `other`); 'all strings' beyond single-token edits of family programs is outside; hang detection is a 5 s watchdog.",
        design="DESIGN.md §5 C15",
    ),
    "C08": dict(
        engine="gapsym+rxsmt",
        category=MC,
        technique="the real parsimonious grammar and visitor executed on text with symbolic layout choice points (lazy forking only where a match result depends on the choice), z3-checked partition of the layout space, outcomes taken from the unpatched convert(), one-choice-at-a-time concrete sweep for visitor-level text dependence; z3 regex lemmas over the real content terminals",
        text="~360 skeletons (one per statement form and device statement, also followed by other text and inside IF arms, multi-line programs, literals with inner blanks) are parsed once over ALL their layouts: 0-2 blanks at every token boundary (>= 1 between alphanumeric tokens, 0 allowed between a number and a keyword), PRINT or ?, LF / CR / CRLF / blank-line line ends, optional final line end and trailing NUL. Three parsimonious primitives are patched; sequences, ordered choice, look-ahead, the packrat cache and every visit_* are the real code. z3 proves that the explored paths partition the layout space (up to 10^12 layouts per skeleton); every path's representative layout and every alternative of every choice point the parse did not depend on (one at a time) go through the unpatched convert() and must give the same bytes. z3 decides over the real comment_text / str_literal / partial_str_lit / data_str_literal regexes that none can match across CR or LF.",
        note="Blank runs up to 2; tabs, blanks inside content and simultaneous visitor-level effects of two gaps are outside. gapsym is cross-checked against brute force on three skeletons at every run; a disagreement with the real parser is a harness error, never a violation.",
        design="DESIGN.md §3 E4, §5 C08",
    ),
    "C09": dict(
        engine="rxsmt+symproxy",
        category=OT,
        technique="SMT (z3 strings/regex): real var/str_var regexes translated to z3 regexes; real name-visitor code executed on symbolic-string proxies; 3 unsat queries + replay",
        text="z3 decides, for all pairs of names within the length bound that the real var/str_var regexes accept and all four kinds, that the identifier term built by the real visitor code (run on a symbolic string) is equal exactly when Color BASIC identifies the variables, and never equals a generated identifier; sat models are replayed through convert(). A concrete sweep of grammar positions shows every position goes through those visitors.",
        note="Bound: names <= 4 chars quick / 6 thorough. Assumes BASIC09 identifier comparison is case-insensitive, ASCII reading of regex classes, record field names are a separate namespace. The set of generated identifiers is lexed from real output of one program that uses every generator. Trusted: z3, rxsmt translation (self-checked against re.fullmatch on models).",
        design="DESIGN.md §3 E2/E5, §5 C09",
    ),
    "C16": dict(
        engine="pysym",
        category=MC,
        technique="AST-level symbolic execution of the real decoder source over z3 32-bit vectors with interval tracking (vf/pysym.py), per-path comparison with declarative reference decoders, sat models replayed on the real function",
        text='For HRS (several widths/heights/skips), PIX, MAX/ART in all nine pixel modes (standard and Newsroom headers), uncompressed MGE with RGB and composite palettes, raw CM3 lines in one- and two-page files with and without pattern block, and uncompressed VEF of the three types, the real decoder source is executed symbolically on a stream of symbolic bytes; for every path z3 proves, sample by sample, that what was written equals the declarative reference (palette entry -> six-bit colour formula, both nibbles / all bit pairs / all bits of every byte) for ALL palette and pixel byte values. The 64-entry VEF palette is proved equal to the colour formula for all 64 codes.',
        note="Bounds: small symbolic streams (sizes in the case names), run lengths unrolled to 3 plus the boundary values 0/127/128/129/255 with the count pinned; fixed-size formats (MGE, RAT, CM3, VEF) are executed on prefixes - the loop bodies are uniform - and, for C19, on concrete truncation sweeps of one well-formed file through the real decoder. Stubs: latin-1 identity of iotostr/strtoio/pack, short reads at end of file, ord('') raises, sys.exit / exceptions = failure reported, png.Writer records its arguments, PIL resize is a no-op. Trusted: reference decoders in vf/decsuite.py (CoCo 3 six-bit colour formula, nibble / bit-pair layouts, MAX mode tables and YIQ formula in scaled integers, pinned copy of the MGE composite table), z3.",
        design="DESIGN.md §3 E1, §5 C16",
    ),
    "C17": dict(
        engine="pysym",
        category=MC,
        technique="AST-level symbolic execution of the real decoder source over z3 32-bit vectors with interval tracking (vf/pysym.py), per-path comparison with declarative reference decoders, sat models replayed on the real function",
        text='Run-length MGE, escape-coded RAT, CM3 lines coded against the previous byte and the line above (six concrete control-bit patterns incl. copy-left at column 0 after a line with different first/last bytes, data bytes symbolic), veftopng.unsquash and a squashed VEF: the real decoder and a reference decoder are both executed symbolically (control bytes symbolic, forking on the same stream); on every path z3 proves equal pixels for all byte values. Run counts pinned to 0/127/128/129/255 are unrolled completely.',
        note="Bounds: small symbolic streams (sizes in the case names), run lengths unrolled to 3 plus the boundary values 0/127/128/129/255 with the count pinned; fixed-size formats (MGE, RAT, CM3, VEF) are executed on prefixes - the loop bodies are uniform - and, for C19, on concrete truncation sweeps of one well-formed file through the real decoder. Stubs: latin-1 identity of iotostr/strtoio/pack, short reads at end of file, ord('') raises, sys.exit / exceptions = failure reported, png.Writer records its arguments, PIL resize is a no-op. Trusted: reference decoders in vf/decsuite.py (CoCo 3 six-bit colour formula, nibble / bit-pair layouts, MAX mode tables and YIQ formula in scaled integers, pinned copy of the MGE composite table), z3.",
        design="DESIGN.md §3 E1, §5 C17",
    ),
    "C18": dict(
        engine="pysym",
        category=MC,
        technique="AST-level symbolic execution of the real decoder source over z3 32-bit vectors with interval tracking (vf/pysym.py), per-path comparison with declarative reference decoders, sat models replayed on the real function",
        text='For every width 1..8 (12) x height 1..2 x skip 0..2 of HRS, every file size 0..8 (18) of PIX and MAX with option / header-derived / Newsroom geometry (symbolic header bytes): on every successful path z3 decides that the announced size is the one the options or header dictate and that exactly width*height(*3) samples were written, under the premise that the file holds all announced rows; skipping N bytes is compared with decoding the tail.',
        note="Bounds: small symbolic streams (sizes in the case names), run lengths unrolled to 3 plus the boundary values 0/127/128/129/255 with the count pinned; fixed-size formats (MGE, RAT, CM3, VEF) are executed on prefixes - the loop bodies are uniform - and, for C19, on concrete truncation sweeps of one well-formed file through the real decoder. Stubs: latin-1 identity of iotostr/strtoio/pack, short reads at end of file, ord('') raises, sys.exit / exceptions = failure reported, png.Writer records its arguments, PIL resize is a no-op. Trusted: reference decoders in vf/decsuite.py (CoCo 3 six-bit colour formula, nibble / bit-pair layouts, MAX mode tables and YIQ formula in scaled integers, pinned copy of the MGE composite table), z3.",
        design="DESIGN.md §3 E1, §5 C18",
    ),
    "C19": dict(
        engine="pysym",
        category=MC,
        technique="AST-level symbolic execution of the real decoder source over z3 32-bit vectors with interval tracking (vf/pysym.py), per-path comparison with declarative reference decoders, sat models replayed on the real function",
        text='Every stream length 0..20 of an HRS file, 0..7 of MAX files (symbolic header bytes, with and without -i, given or derived rows, Newsroom), short MGE / RAT / CM3 / VEF streams with symbolic header and control bytes: every path must end in a reported failure or in a complete image - z3 decides, per successful path, that the sample count equals the announced size (and that a bad first MAX header byte is not accepted). Concrete truncation sweeps of one well-formed MGE, RAT, CM3 and VEF file (every length near each structural boundary, overshooting runs, literal groups overrunning their record) run through the real decoders.',
        note="Bounds: small symbolic streams (sizes in the case names), run lengths unrolled to 3 plus the boundary values 0/127/128/129/255 with the count pinned; fixed-size formats (MGE, RAT, CM3, VEF) are executed on prefixes - the loop bodies are uniform - and, for C19, on concrete truncation sweeps of one well-formed file through the real decoder. Stubs: latin-1 identity of iotostr/strtoio/pack, short reads at end of file, ord('') raises, sys.exit / exceptions = failure reported, png.Writer records its arguments, PIL resize is a no-op. Trusted: reference decoders in vf/decsuite.py (CoCo 3 six-bit colour formula, nibble / bit-pair layouts, MAX mode tables and YIQ formula in scaled integers, pinned copy of the MGE composite table), z3.",
        design="DESIGN.md §3 E1, §5 C19",
    ),
    "C20": dict(
        engine="b09m",
        category=MC,
        technique="symbolic execution of the real ecb.b09 procedure text by the BASIC09 machine over z3 strings/reals (interpreted LEN / MID$ / FIX, by-reference output parameters with arbitrary previous value), loops unrolled by path forking plus an inductive loop step, both readings of a zero-trip FOR; z3 decides result = Color BASIC definition on every path",
        text="ecb_instr, ecb_string and ecb_read_filter are read from the real library at run time and executed symbolically: subject/pattern/argument strings of length <= 3 (4 thorough) over two letters, every start index, repeat counts up to 4 (7) by unrolling and -2..256 for the argument check plus one arbitrary loop iteration (inductive step), arbitrary previous value of the output parameter. For each path z3 decides that the output parameter holds the first match position at or after the start (0 if none) / the first character repeated count times (error exactly for count < 0 or an empty string) / 0 for the empty item and VAL(item) otherwise. A verdict that differs between the two zero-trip FOR readings is reported as inconclusive, never as pass or violation.",
        note="No BASIC09 interpreter exists offline: semantics of the interpreted fragment are the trusted base (vf/tv/machine.py), counterexamples are confirmed by model evaluation only. The induction over loop iterations for large counts is a paper argument on top of the solver-checked step and bounds.",
        design="DESIGN.md §5 C20",
    ),
}

NOT_BUILT = {}

NOT_APPLICABLE = {}


# obligations added after the seeded rounds (DESIGN.md §9.3 / §9.7); appended to the level text
ADDENDA = {
    "C01": "Also: reversed relational spellings =< =>, parenthesised groups that start with a prefix operator, literal magnitudes 1E-7..1E38.",
    "C02": "Also: numeric conditions in IF / ELSE IF heads (a BASIC09 type error counts), NEXT lists inside further loops closed by bare NEXT, nested IFs with OR / AND conditions, statements after ON..GOTO / GOSUB / GOTO on the same line, and loop bounds taken from the input (trip counts 1..3, or 1..5 with STEP 2, each a z3-feasible path; zero-trip loops excluded by a guard). Step bound 140.",
    "C03": "Also: the INSTR / STRING$ / read-filter contracts assumed by the machines are discharged inside this check by interpreting the library text (C20's obligations, `contract:` signatures); with -s 80 every string the program touches, temporaries included, must be declared STRING[80].",
    "C06": "Also: the 32700 dispatcher for handler targets {0, 30, 40} in both orders; the > 32699 rule through the whole pipeline for programs with and without jumps under all option sets.",
    "C07": "Also: eleven more expression contexts (FOR limit / STEP, PRINT@, HSET, LOCATE, second statement, HCIRCLE colour, subscript, TAB, ON GOSUB) and NEXT-list programs.",
    "C08": "Also: whitespace-only lines before, between and after program lines.",
    "C09": "Also: when the visitors cannot run on a symbolic string the identifier function is tabulated over all names of length <= 3 over {A,B,1,9} and the same queries range over the table; one name used in all four kinds in every order (DIMmed or not) gives four identifiers and every array is declared; generated identifiers are never initialised as user variables.",
    "C10": "Also: names repeated inside one DIM statement.",
    "C11": "Also: filtering never makes a label appear; no identifier is declared twice under -s; convert_file on in-memory files equals convert() with LF->CR for content with FF/VT/FS/GS/RS/NEL/U+2028/U+2029; output after other conversions in the same process equals the output of a fresh process.",
    "C12": "Also: history family with HBUFF programs, DIMmed names reused by later programs under -s 40, bundles with and without an explicit procedure name.",
    "C13": "Also: procedure-name variants (blanks, dots, +, $, digits, dashes, runtime names): the header is the name or `program` and the bundle is complete; string literals / DATA items containing `(*`, `REM`, `'`, `*)` beside a RUN.",
    "C15": "Also: token substitution over every literal-only ordered choice of the real grammar; NEXT lists in wrong / repeated order; config files of every YAML shape through convert_file(-c); second-order edits in the thorough tier; the watchdog counts CPU time and a hang is replayed before it is reported.",
    "C16": "Also: MAX height taken from the length field with `a well-formed header is not refused` (replayed); PPM header = size dictated by the picture type; CM3 types 0x00/0x01/0x80/0x81; VEF final dimensions after the aspect-ratio resize.",
    "C17": "Also: two-page CM3 pictures whose second page refers to the last line of the first; `missing-samples` when complete records of the input are not decoded.",
    "C18": "Also: CM3 / MGE / VEF cases (header and prefix samples), MAX length-field heights, file-versus-pipe equivalence with a stream model without seek / tell.",
    "C19": "Also: MGE first header byte on every path that writes samples (z3 on the path condition, replayed); termination - a while loop beyond the unwinding bound is replayed on the real decoder in a child process under a time limit.",
    "C20": "Also: the empty pattern (start inside the subject); the transpiler's half of the DATA filter - numeric DATA items (fixed magnitudes + spellings drawn by z3 from the real num_literal regex) keep their value when rewritten as strings. Thorough: strings <= 6, counts <= 12.",
}


ADDENDA4 = {
    "C01": "The INT and HEX$ contracts are discharged on the text of the runtime library (ecb_int = floor, every hex digit, no leading zeros; vf/props/contracts.py).",
    "C02": "Round 4: ELSE IF chains whose arms are line numbers after a statement THEN part; lone THEN GOSUB / THEN GOTO.",
    "C03": "The STR$ contract (result ends with the last digit) is discharged on the library text too.",
    "C04": "Also: the program's display_t / play_t declarations agree field for field with the library's (record fields read by name).",
    "C05": "Also: contexts where the target is an operand of the call, and READ targets while an empty DATA item is present.",
    "C06": "Also: label rules with the standard prefix on; missing targets above 32699 from every jump-bearing statement kind.",
    "C07": "Also: hex literals of value zero; bundle round trip (statements after `procedure prog` = output without dependencies, parsable) for literals with control characters and comment markers.",
    "C08": "Also: 22 kinds of last token directly followed by the final line end / blank line / trailing NUL.",
    "C09": "Also: reserved words inside or at the end of names; string capacity per kind under -s 40; z3 name-language query (the whole spelling as one solver variable: decided in both directions for numeric and string names).",
    "C10": "Also: DIM statements whose string sizes interleave; concrete-size fallback when the integer proxy cannot be followed.",
    "C11": "Also: with filtering on every jump target of the output is still a label.",
    "C12": "Also: decoder history - two well-formed pictures per format decoded in one process equal their fresh-process decodes.",
    "C15": "Also: overflowing / denormal / 20-digit literals substituted at every numeric token.",
    "C16": "Also: announced MAX / Newsroom size = what the header bytes dictate on every ok path (replayed); decoder history for HRS / PIX / MAX / MGE.",
    "C17": "Also: CM3 second-stream length bytes larger than needed; decoder history for RAT / CM3.",
    "C18": "Also: the decoders' command lines hand -w / -r / -s / pixel-mode / -i / -newsroom to convert() as documented (recording stub, all flag combinations), invalid values are refused, MAX removes the output after a failed conversion unless -i.",
    "C19": "Also: success implies width * rows / 8 = length field for widths that are not multiples of 8.",
    "C20": "Also: filter call sites over several DATA statements (empty item in the first / middle / last statement, after the READ, with hex items).",
}


ADDENDA5 = {
    "C01": "Round 5: the same statement next to a DATA line spelling the same constants and twice in one program; ecb_int also with argument and result in one variable (by-reference call A = INT(A)).",
    "C02": "Round 5: STEP expressions with a sign / parentheses over an input variable; every relation with statements, an empty THEN part or an empty ELSE part.",
    "C03": "Round 5: every prompt of up to two characters over {letter, ?, blank, colon}; array elements assigned directly from converted functions; helper contracts also with result and argument in one variable.",
    "C04": "Round 5: the same device function with the same operand text several times in one statement; ecb_button / ecb_point give the same result when the result variable is also an operand (by-reference call), device readings arbitrary.",
    "C05": "Round 5: POKE value operands (speed-poke addresses included), PRINT items that start with a sign or NOT.",
    "C06": "Round 5: lines without a statement as targets and as lines passed over.",
    "C07": "Round 5: LET / no LET x every convertible function as the whole right-hand side; lines without a statement.",
    "C08": "Round 5: comment content - z3 lemma that comment_text matches every CR/LF/NUL-free text completely, and emitted comment = source text for a product of blank runs and visible characters.",
    "C09": "Round 5: scalar DIMs with sizes configured per kind; every reserved word is a variable in all accepted positions or in none.",
    "C10": "Round 5: the whole bundle under a symbolic default size - every DIM / PARAM string declaration of program and library procedures carries it.",
    "C11": "Round 5: each option rule also from bases with another option changed; -s N reaches convert_file as N for every N in 1..32767 (start() on a z3-backed integer, argparse's str->int step outside).",
    "C12": "Round 5: configuration objects changed between conversions and configuration files re-read (other directory, edited) equal a fresh process.",
    "C13": "Round 5: bundles without the standard prologue and / or suffix.",
    "C15": "Round 5: every operand token replaced by a function the tool hoists in front of the statement.",
    "C16": "Round 5: two-page raw CM3 with and without the pattern block.",
    "C17": "Round 5: run-length MGE pair in the history family; pysym models dicts, default arguments, min/max.",
    "C18": "Round 5: convert() sends nothing to standard output on any path (print / sys.stdout modelled, replayed with stdout captured); CM3 with padding after the picture.",
    "C19": "Round 5: 640-wide VEF through a modelled and validated Pillow contract (truncated PNG -> OSError).",
    "C20": "Round 5: both helpers also with the result variable passed as an argument (by reference); STRING$ / INSTR call sites for every spelling of the count / start index.",
}


ADDENDA6 = {
    "C01": "Round 6: VAL contract on ecb_val (0 for text that is no number, for every previous content of the by-reference result; run-time error + ON ERROR GOTO modelled).",
    "C02": "Round 6: jumps back to line 0; ON lists naming a line several times.",
    "C03": "Round 6: unquoted DATA items with punctuation; VAL contract.",
    "C04": "Round 6: literal operands beside a DATA line spelling the same constants.",
    "C05": "Round 6: multi-operand convertible functions whose operands are calls; every operand of the ellipse / arc forms.",
    "C06": "Round 6: with dependencies on, the program part keeps every line and label.",
    "C07": "Round 6: every bundled runtime procedure parses and its blocks balance.",
    "C08": "Round 6: string-literal content in twelve statement positions; concrete enumeration of layouts when convert() processes the text outside the parser primitives.",
    "C09": "Round 6: loop variables under NEXT lists and bare NEXTs.",
    "C10": "Round 6: string capacities agree across calls between bundled procedures.",
    "C11": "Round 6: sizes 1..32766 only change the number; z3 lemma: every stem over [A-Za-z0-9_-] up to 64 characters is kept as the procedure name.",
    "C12": "Round 6: convert() never writes into the caller's configuration object.",
    "C13": "Round 6: RUN inside a literal that is followed by further literals.",
    "C15": "Round 6: extreme inputs through convert_file as well.",
    "C16": "Round 6: pipe equivalence for HRS / MAX.",
    "C18": "Round 6: complete full-size pictures (two per format, real files) have exactly w x h samples.",
    "C19": "Round 6: squashed VEF cut near its end; -s longer than the input terminates.",
}


ADDENDA7 = {
    "C01": "Round 7: INSTR / STRING$ contracts discharged here too; values read back from array elements assigned from converted functions.",
    "C02": "Round 7: statement lists that start with an empty statement.",
    "C03": "Round 7: string capacity after other conversions in the same process.",
    "C04": "Round 7: representation of every RUN argument (REAL / INTEGER / declared type / literal length) against the parameter's declared type and STRING[n] (BASIC09 passes storage without conversion).",
    "C05": "Round 7: READ into several elements of one array whose subscripts are calls, with an empty DATA item.",
    "C07": "Round 7: every procedure of the emitted bundle (sizes 32 / 40 / 16) parses and lowers, no size marker left; two-operand MID$.",
    "C09": "Round 7: unterminated literal assigned to an element goes where the terminated spelling goes.",
    "C10": "Round 7: DIM later in the text than the first reference; configuration file re-read for every conversion.",
    "C11": "Round 7: refused programs stay refused with the same error under every option; configured sizes are untouched by -s.",
    "C12": "Round 7: command-line history (start() called repeatedly); unconditional hash-seed sweep for five program x option pairs.",
    "C13": "Round 7: size 16.",
    "C14": "Round 7: RUN with an empty argument position.",
    "C15": "Round 7: file names without an extension.",
    "C16": "Round 7: a complete VEF of each supported type is accepted (guard against vacuous prefix cases).",
    "C17": "Round 7: squashed VEF of types 0 / 1 / 3 with a record filling a whole half scan line (record loop fully unwound).",
    "C18": "Round 7: the same squashed cases; complete RAT pictures with run packets at block edges.",
    "C19": "Round 7: damaged VEF header must not end with exit status 0.",
}


ADDENDA8 = {
    "C01": "Round 8: string values keep their length under -s 80 (capacity of every string the expression passes through).",
    "C03": "Round 8: hex DATA items around &H8000; FOR variables read before their loop under pre-initialisation.",
    "C04": "Round 8: program-facing runtime procedures never assign an operand parameter (by-reference calls); device string operands keep their length under -s.",
    "C07": "Round 8: an item before every PRINT separator.",
    "C10": "Round 8: names that occur only in a PRINT item starting with a sign or NOT.",
    "C11": "Round 8: filtering with dependencies on changes labels only; no string declaration left at 32 under -s 40.",
    "C15": "Round 8: the command line on listings with non-ASCII text (fresh UTF-8 interpreter).",
    "C18": "Round 8: HRS wider than 320; decoder history with a smaller second picture.",
    "C19": "Round 8: corrupted CM3 control bytes in a complete compressed picture.",
}


ADDENDA9 = {
    "C05": "Round 9: conditions chaining three terms with AND / OR; signed STEP expressions in the quick tier.",
    "C09": "Round 9: no identifier declared twice when a scalar is DIMmed under -s.",
    "C13": "Round 9: VAL together with the placeholder procedures; backslash inside literal arguments of runtime calls.",
    "C14": "Round 9: keyword pairs written without the blank.",
    "C16": "Round 9: PIX pictures whose side is not a power of two; PIX header = side from the file length.",
}


def build():
    for pid, add in ADDENDA4.items():
        if add not in CHECKS[pid]["text"]:
            CHECKS[pid]["text"] = CHECKS[pid]["text"].rstrip() + " " + add
    for pid, add in ADDENDA.items():
        if add not in CHECKS[pid]["text"]:
            CHECKS[pid]["text"] = CHECKS[pid]["text"].rstrip() + " " + add
    for pid, add in ADDENDA5.items():
        if add not in CHECKS[pid]["text"]:
            CHECKS[pid]["text"] = CHECKS[pid]["text"].rstrip() + " " + add
    for pid, add in ADDENDA6.items():
        if add not in CHECKS[pid]["text"]:
            CHECKS[pid]["text"] = CHECKS[pid]["text"].rstrip() + " " + add
    for pid, add in ADDENDA7.items():
        if add not in CHECKS[pid]["text"]:
            CHECKS[pid]["text"] = CHECKS[pid]["text"].rstrip() + " " + add
    for pid, add in ADDENDA8.items():
        if add not in CHECKS[pid]["text"]:
            CHECKS[pid]["text"] = CHECKS[pid]["text"].rstrip() + " " + add
    for pid, add in ADDENDA9.items():
        if add not in CHECKS[pid]["text"]:
            CHECKS[pid]["text"] = CHECKS[pid]["text"].rstrip() + " " + add
    checks = []
    for pid in sorted(CHECKS):
        c = CHECKS[pid]
        checks.append(
            {
                "property_id": pid,
                "quick_cmd": f"./bin/check {pid} --tier quick",
                "thorough_cmd": f"./bin/check {pid} --tier thorough",
                "evidence_file": f"/verif/evidence/{pid}.json",
                "replay_cmd_template": "./bin/check replay {path}",
                "engine": c["engine"],
                "level_claimed": {"category": c["category"], "text": c["text"], "design_ref": c["design"]},
                "level_note": c["note"],
                "technique": c["technique"],
            }
        )
    na = []
    with open(os.path.join(ROOT, "properties.jsonl")) as f:
        all_ids = [json.loads(line)["id"] for line in f if line.strip()]
    for pid in all_ids:
        if pid in CHECKS:
            continue
        reason = NOT_APPLICABLE.get(pid) or NOT_BUILT.get(pid) or "check not built yet in this revision of /verif (planned, see DESIGN.md §5); nothing is claimed for it"
        na.append({"property_id": pid, "reason": reason})
    engines = {}
    for pid, c in CHECKS.items():
        for e in c["engine"].split("+"):
            engines.setdefault(e, []).append(pid)
    kinds = {
        "rxsmt": "Python regex -> z3 regex translation (vf/rxsmt.py)",
        "symproxy": "real Python code run on z3-backed int/str proxies with forking (vf/symproxy.py)",
        "tv": "symbolic Color BASIC machine vs symbolic BASIC09 machine over real convert() output (vf/tv/)",
        "pysym": "AST-level symbolic execution of the decoders over z3 bit-vectors (vf/pysym.py)",
        "gapsym": "real parsimonious grammar on text with symbolic layout choice points (vf/gapsym.py)",
        "ndset": "set iteration order as a solver-tracked choice (vf/ndset.py)",
        "b09m": "symbolic BASIC09 interpreter over the real ecb.b09 text (vf/tv/)",
    }
    man = {
        "version": 1,
        "setup_cmd": "./bin/setup",
        "hooks": {
            "guard": "COCO_TOOLS_VERIF",
            "enable": "none needed: stubs are installed by the harness by assignment into imported module globals at run time; /repo carries no hook commits",
            "baseline_off_cmd": "cd /repo && /venv/bin/python -m pytest -ra -q -p no:cacheprovider --timeout=900",
            "source_commits": [],
            "add_only": True,
        },
        "engines": [
            {"name": e, "path": "vf/", "serves_properties": sorted(p), "kind_free_text": kinds.get(e, e)} for e, p in sorted(engines.items())
        ],
        "checks": checks,
        "notes": "Solver-based checking (z3) of the real code; see DESIGN.md. Exit 0 = held or only KNOWN-FINDING lines; 1 = VIOLATION; 3 = harness error (never with a VIOLATION line).",
        "not_applicable": na,
    }
    with open(os.path.join(ROOT, "MANIFEST.json"), "w") as f:
        json.dump(man, f, indent=1)
        f.write("\n")
    return man


if __name__ == "__main__":
    m = build()
    print("checks:", [c["property_id"] for c in m["checks"]], "n/a:", len(m["not_applicable"]))
