"""Common plumbing: check context, evidence, known findings, replay files, exit status."""
import collections
import hashlib
import json
import os
import sys
import time

ROOT = os.path.dirname(os.path.dirname(os.path.abspath(__file__)))
REPO = os.environ.get("VERIF_REPO", "/repo")
EXIT_OK, EXIT_VIOLATION, EXIT_HARNESS = 0, 1, 3


class HarnessError(Exception):
    """The machinery (not the code under test) is broken: encoding could not be regenerated, model did not replay..."""


def sha1(text):
    if isinstance(text, str):
        text = text.encode("utf-8", "surrogatepass")
    return hashlib.sha1(text).hexdigest()


def load_findings():
    path = os.path.join(ROOT, "known_findings.json")
    if not os.path.exists(path):
        return {"findings": [], "fixed": []}
    with open(path) as f:
        return json.load(f)


class Ctx:
    """One run of one property check."""

    def __init__(self, pid, tier, level, technique=""):
        self.pid = pid
        self.tier = tier
        self.level = level
        self.technique = technique
        self.seed = int(os.environ.get("VERIF_SEED", "0") or 0)
        self.t0 = time.time()
        self.stats = collections.Counter()
        self.bounds = {}
        self.samples = []
        self.assumptions = []
        self.encoded = []
        self.notes = []
        self.inconclusive = []
        self.solver_wall = 0.0
        self.distinct = set()
        self.gaps = []
        self.known_hit = collections.OrderedDict()
        self.new_violations = []
        self.explanation = ""
        self.extra = {}
        kf = load_findings()
        self.known = {}
        for ent in kf.get("findings", []):
            if ent.get("property") != pid:
                continue
            for sig in ent.get("signatures", []):
                self.known[sig] = ent
        self._seen_sig = set()

    # ---- bookkeeping
    def encode(self, name, source_text):
        self.encoded.append({"name": name, "source_sha1": sha1(source_text)})

    def sample(self, obj, limit=12):
        if len(self.samples) < limit:
            self.samples.append(obj)

    def assume(self, text):
        if text not in self.assumptions:
            self.assumptions.append(text)

    def note_inconclusive(self, what):
        self.stats["unknown"] += 1
        if len(self.inconclusive) < 40:
            self.inconclusive.append(what)

    def add_solver_stats(self, st):
        """merge a dict produced by smt.Stats.export()"""
        self.solver_wall += st.get("wall", 0.0)
        for k, v in st.get("counts", {}).items():
            self.stats[k] += v
        self.distinct.update(st.get("hashes", []))

    # ---- violations
    def violation(self, signature, what, replay):
        """A *replayed* counterexample.  signature decides known finding vs. new violation."""
        if signature in self._seen_sig:
            self.stats["violating_instances"] += 1
            return
        self._seen_sig.add(signature)
        self.stats["violating_instances"] += 1
        if signature in self.known:
            self.known_hit[signature] = what
            return
        rdir = os.environ.get("VERIF_REPLAY_DIR") or os.path.join(ROOT, "replays")
        os.makedirs(rdir, exist_ok=True)
        path = os.path.join(rdir, f"{self.pid}-{sha1(signature)[:10]}.json")
        rec = {"property": self.pid, "signature": signature, "what": what}
        rec.update(replay)
        with open(path, "w") as f:
            json.dump(rec, f, indent=1, default=str)
        self.new_violations.append((signature, what, path))

    def harness_gap(self, what):
        """something the engine could not do (unsupported construct, path explosion, symbolic run failed).  Fatal
        (exit 3) unless the same run also has replayed, unlisted violations - then the code under test has changed
        and the violations are what matters; the gap is listed as inconclusive."""
        self.gaps.append(what)

    # ---- end of run
    def finish(self):
        if self.gaps and not self.new_violations:
            raise HarnessError(self.gaps[0] + (f" (+{len(self.gaps) - 1} more)" if len(self.gaps) > 1 else ""))
        for g in self.gaps:
            self.note_inconclusive("not finished by the engine: " + g)
        for sig, what in self.known_hit.items():
            print(f"KNOWN-FINDING: property={self.pid} {sig} :: {what}")
        for sig, what, path in self.new_violations:
            print(f"VIOLATION property={self.pid} replay={path}")
            print(f"  signature: {sig}\n  what: {what}")
        for w in self.inconclusive[:20]:
            print(f"INCONCLUSIVE: property={self.pid} {w}")
        self.write_evidence()
        wall = time.time() - self.t0
        if self.stats.get("cross_agree") or self.stats.get("cross_disagree") or self.stats.get("cross_inconclusive"):
            print(f"[{self.pid} {self.tier}] second solver (z3 4.8.12 binary): agree={self.stats['cross_agree']} "
                  f"disagree={self.stats['cross_disagree']} inconclusive={self.stats['cross_inconclusive']}")
        if self.stats.get("cross_disagree"):
            raise HarnessError(f"{self.stats['cross_disagree']} sampled queries are decided differently by z3 4.8.12")
        print(
            f"[{self.pid} {self.tier}] obligations={self.stats['obligations']} "
            f"unsat={self.stats['unsat']} identity={self.stats['identity']} sat={self.stats['sat']} "
            f"unknown={self.stats['unknown']} known_findings={len(self.known_hit)} "
            f"violations={len(self.new_violations)} solver={self.solver_wall:.1f}s wall={wall:.1f}s"
        )
        return EXIT_VIOLATION if self.new_violations else EXIT_OK

    def write_evidence(self):
        cov = {
            "evaluations": int(self.stats["obligations"] or self.stats["programs"] or 0),
            "distinct_nontrivial": len(self.distinct),
            "rule": "one evaluation per proof obligation; non-trivial = reached the SMT solver (not discharged by "
            "term identity) and distinct by SHA-1 of the assertion text",
            "samples": self.samples or [{"note": "no samples recorded"}],
            "obligations": int(self.stats["obligations"]),
            "discharged_identity": int(self.stats["identity"]),
            "discharged_unsat": int(self.stats["unsat"]),
            "sat_models": int(self.stats["sat"]),
            "sat_known_finding_signatures": len(self.known_hit),
            "sat_new": len(self.new_violations),
            "unknown": int(self.stats["unknown"]),
            "inconclusive": self.inconclusive[:40],
            "functions_encoded": self.encoded,
            "bounds": self.bounds,
            "solver": dict(self.extra.pop("solver", {}), **({"second_solver": {"binary": "/usr/bin/z3 (4.8.12) on the SMT-LIB2 dump of every 16th query by hash", "agree": int(self.stats["cross_agree"]), "disagree": int(self.stats["cross_disagree"]), "inconclusive": int(self.stats["cross_inconclusive"])}} if os.environ.get("VERIF_CROSSCHECK") == "1" else {})),
            "solver_wall_s": round(self.solver_wall, 3),
            "technique": self.technique,
            "counters": {k: int(v) for k, v in sorted(self.stats.items())},
            "known_findings_reproduced": list(self.known_hit.keys()),
        }
        if self.level == "translation_validation":
            cov["programs"] = int(self.stats["programs"])
            cov["disagreements_checked"] = int(self.stats["disagreements_checked"])
        elif self.level == "model_checking":
            cov["states"] = int(self.stats["states"])
            cov["transitions"] = int(self.stats["transitions"])
            cov["traces_validated_against_impl"] = int(self.stats["traces_validated_against_impl"])
        cov["explanation"] = self.explanation
        cov.update(self.extra)
        ev = {
            "property_id": self.pid,
            "tier": self.tier,
            "seed": self.seed,
            "level": self.level,
            "coverage": cov,
            "assumptions": self.assumptions,
            "wall_s": round(time.time() - self.t0, 3),
            "violations": len(self.new_violations),
        }
        edir = os.environ.get("VERIF_EVIDENCE_DIR") or os.path.join(ROOT, "evidence")  # the override is used only by bin/mutmatrix
        os.makedirs(edir, exist_ok=True)
        path = os.path.join(edir, f"{self.pid}.json")
        tmp = path + ".tmp"
        with open(tmp, "w") as f:
            json.dump(ev, f, indent=1, default=str)
        os.replace(tmp, path)


class ContractCtx:
    """view of a Ctx that files violations under `contract:<signature>`: used when a translation-validation check
    discharges the procedure contracts it assumed by running another property's obligations on the library text"""

    def __init__(self, ctx, prefix="contract:"):
        object.__setattr__(self, "_ctx", ctx)
        object.__setattr__(self, "_prefix", prefix)

    def __getattr__(self, name):
        return getattr(self._ctx, name)

    def __setattr__(self, name, value):
        setattr(self._ctx, name, value)

    def violation(self, signature, what, replay):
        return self._ctx.violation(self._prefix + signature, "[procedure contract assumed by this check] " + what, replay)


def repo_source(rel):
    with open(os.path.join(REPO, rel), encoding="utf-8") as f:
        return f.read()


def eprint(*a):
    print(*a, file=sys.stderr)


def pmap(func, jobs, procs=None, chunksize=64):
    """run func over jobs in a fork pool (results in input order); falls back to serial for tiny inputs"""
    import multiprocessing as mp

    jobs = list(jobs)
    procs = procs or min(16, os.cpu_count() or 1)
    if len(jobs) < 2 * chunksize or procs <= 1:
        return [func(j) for j in jobs]
    ctx = mp.get_context("fork")
    with ctx.Pool(procs) as pool:
        return pool.map(func, jobs, chunksize=chunksize)
