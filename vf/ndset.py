"""E6: `set` replaced (in the globals of the modules under test) by a class whose iteration order is a harness-chosen
permutation.  Every iteration over a set with more than one element is a choice point; explore() runs the function
under every choice vector (all n! orders for n <= 3, a bounded family of orders above that) and z3 confirms that the
explored vectors cover the declared choice space."""
import itertools

import z3

from vf import smt

CUR = None
FULL_LIMIT = 3


class Schedule:
    def __init__(self, prefix):
        self.prefix = list(prefix)
        self.taken = []  # (choice, arity)

    def choose(self, arity):
        i = len(self.taken)
        c = self.prefix[i] if i < len(self.prefix) else 0
        self.taken.append((c, arity))
        return c


def orders(items):
    items = sorted(items, key=repr)
    n = len(items)
    if n <= FULL_LIMIT:
        return [list(p) for p in itertools.permutations(items)]
    outs = [items, items[::-1]]
    for r in range(1, n):
        outs.append(items[r:] + items[:r])
    return outs


class NDSet:
    """set look-alike with explicit, schedulable iteration order"""

    def __init__(self, it=()):
        self._d = {}
        for x in it:
            self._d[x] = True

    # --- order-dependent
    def __iter__(self):
        items = list(self._d)
        if len(items) <= 1 or CUR is None:
            return iter(sorted(items, key=repr))
        os_ = orders(items)
        k = CUR.choose(len(os_))
        return iter(os_[k])

    # --- order-independent
    def add(self, x):
        self._d[x] = True

    def update(self, *its):
        for it in its:
            for x in list(it._d) if isinstance(it, NDSet) else it:
                self._d[x] = True

    def discard(self, x):
        self._d.pop(x, None)

    def remove(self, x):
        del self._d[x]

    def copy(self):
        return NDSet(list(self._d))

    def __contains__(self, x):
        return x in self._d

    def __len__(self):
        return len(self._d)

    def __bool__(self):
        return bool(self._d)

    def _other(self, o):
        return list(o._d) if isinstance(o, NDSet) else list(o)

    def __sub__(self, o):
        oo = set(self._other(o))
        return NDSet([x for x in self._d if x not in oo])

    def __or__(self, o):
        return NDSet(list(self._d) + self._other(o))

    def __and__(self, o):
        oo = set(self._other(o))
        return NDSet([x for x in self._d if x in oo])

    def __eq__(self, o):
        return set(self._d) == set(self._other(o)) if isinstance(o, (NDSet, set, frozenset)) else NotImplemented

    def __le__(self, o):
        return set(self._d) <= set(self._other(o))

    __hash__ = None

    def __repr__(self):
        return "NDSet(" + repr(sorted(self._d, key=repr)) + ")"


def explore(fn, modules, max_runs=1500, depth=1):
    """run fn() under schedules that deviate from the default order at up to `depth` choice points (all alternatives of
    those points); returns (list of (choice vector with arities, outcome), coverage verdict)"""
    global CUR
    saved = [(m, m.__dict__.get("set")) for m in modules]
    for m in modules:
        m.set = NDSet
    results = []
    try:
        stack = [([], 0)]
        seen = set()
        while stack:
            prefix, devs = stack.pop()
            sched = Schedule(prefix)
            CUR = sched
            try:
                try:
                    out = ("ok", fn())
                except Exception as e:  # noqa: BLE001
                    out = ("exc", type(e).__name__ + ": " + str(e)[:80])
            finally:
                CUR = None
            vec = tuple(sched.taken)
            if vec in seen:
                continue
            seen.add(vec)
            results.append((vec, out))
            if devs < depth:
                for j in range(len(prefix), len(sched.taken)):
                    c, ar = sched.taken[j]
                    for alt in range(1, ar):
                        stack.append(([t[0] for t in sched.taken[:j]] + [alt], devs + 1))
            if len(results) > max_runs:
                raise RuntimeError("ndset: too many schedules")
    finally:
        for m, old in saved:
            if old is None:
                del m.__dict__["set"]
            else:
                m.set = old
    return results, coverage(results, depth)


def coverage(results, depth=1):
    """z3 book-keeping: every alternative at every choice point of every explored schedule with fewer than `depth`
    deviations from the default order must itself be the prefix of an explored schedule.  'unsat' = nothing uncovered."""
    maxlen = max((len(v) for v, _ in results), default=0)
    xs = [z3.Int(f"c{i}") for i in range(maxlen)]
    for j in range(maxlen):
        ws = [v for v, _ in results if len(v) > j and sum(1 for c, _ in v[:j] if c != 0) < depth and all(c == 0 for c, _ in v[j:])]
        allw = [v for v, _ in results if len(v) > j]
        if not ws:
            continue
        demanded = z3.Or(*[z3.And(*([xs[i] == w[i][0] for i in range(j)] + [xs[j] >= 0, xs[j] < w[j][1]])) for w in ws])
        covered = z3.Or(*[z3.And(*[xs[i] == w[i][0] for i in range(j + 1)]) for w in allw])
        v, _ = smt.check([demanded, z3.Not(covered)], 10000)
        if v != "unsat":
            return v
    return "unsat"
