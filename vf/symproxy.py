"""E5: run real Python code of the tool with z3-backed proxy values.

SInt wraps a z3 Int term, SStr a z3 String term.  Arithmetic/slicing builds terms; truth tests fork (depth-first
re-execution with a recorded decision prefix, one feasibility query per branch); formatting a proxy into text
returns a hole marker so the tool's output is a concrete template whose holes are z3 terms.
"""
import re

import z3

from vf import smt

HOLE_RE = re.compile("⟦(\\d+)⟧")


class Abort(BaseException):
    """path infeasible or bound exceeded"""


class Run:
    """state of one symbolic execution path"""

    def __init__(self, decisions, premises):
        self.decisions = list(decisions)
        self.i = 0
        self.pc = list(premises)
        self.holes = []

    def branch(self, cond):
        if self.i < len(self.decisions):
            v = self.decisions[self.i]
        else:
            # prefer the feasible side; record the decision so the sibling is scheduled
            r_true, _ = smt.check(self.pc + [cond], count=False)
            v = r_true != "unsat"
            self.decisions.append(v)
        self.i += 1
        self.pc.append(cond if v else z3.Not(cond))
        return v

    def hole(self, term):
        self.holes.append(term)
        return f"⟦{len(self.holes) - 1}⟧"


CUR = None


def _t(o):
    if isinstance(o, SInt):
        return o.t
    if isinstance(o, bool):
        return z3.IntVal(int(o))
    if isinstance(o, int):
        return z3.IntVal(o)
    raise TypeError(type(o))


class SBool:
    def __init__(self, t):
        self.t = t

    def __bool__(self):
        return CUR.branch(self.t)


class SInt:
    __hash__ = None

    def __init__(self, t):
        self.t = t

    def __add__(self, o):
        return SInt(self.t + _t(o))

    __radd__ = __add__

    def __sub__(self, o):
        return SInt(self.t - _t(o))

    def __rsub__(self, o):
        return SInt(_t(o) - self.t)

    def __mul__(self, o):
        return SInt(self.t * _t(o))

    __rmul__ = __mul__

    def __neg__(self):
        return SInt(-self.t)

    def _cmp(self, o, f, default):
        if isinstance(o, (int, SInt)) and not isinstance(o, bool) or isinstance(o, bool):
            return SBool(f(self.t, _t(o)))
        if isinstance(o, float) and o == int(o):
            return SBool(f(self.t, z3.IntVal(int(o))))
        return default

    def __lt__(self, o):
        return self._cmp(o, lambda a, b: a < b, NotImplemented)

    def __le__(self, o):
        return self._cmp(o, lambda a, b: a <= b, NotImplemented)

    def __gt__(self, o):
        return self._cmp(o, lambda a, b: a > b, NotImplemented)

    def __ge__(self, o):
        return self._cmp(o, lambda a, b: a >= b, NotImplemented)

    def __eq__(self, o):
        return self._cmp(o, lambda a, b: a == b, False)

    def __ne__(self, o):
        return self._cmp(o, lambda a, b: a != b, True)

    def __bool__(self):
        return CUR.branch(self.t != 0)

    def __index__(self):
        raise Abort("concrete index of symbolic int requested")

    def __format__(self, spec):
        return CUR.hole(("int", self.t, spec))

    def __str__(self):
        return CUR.hole(("int", self.t, ""))

    __repr__ = __str__


def sym_hex(x):
    """replacement for builtins.hex inside the module under test"""
    if isinstance(x, SInt):
        return "0x" + CUR.hole(("hex", x.t, ""))
    return hex(x)


def sym_int(x, base=10):
    """replacement for builtins.int: int("0x"+<hole>, 16) gives the term back"""
    if isinstance(x, str) and HOLE_RE.search(x):
        m = HOLE_RE.fullmatch(x[2:] if x.startswith("0x") else x)
        if m:
            kind, term, _ = CUR.holes[int(m.group(1))]
            if (kind == "hex" and base == 16) or (kind == "int" and base == 10):
                return SInt(term)
        raise Abort("int() of a template")
    if isinstance(x, SInt):
        return x
    return int(x, base) if isinstance(x, str) else int(x)


def explore(fn, premises=(), max_paths=200):
    """Run fn() under every feasible decision vector.  Yields (path_condition, outcome, holes) where outcome is
    ('ok', value) or ('exc', exception)."""
    global CUR
    results = []
    stack = [[]]
    while stack:
        dec = stack.pop()
        run = Run(dec, premises)
        CUR = run
        try:
            try:
                out = ("ok", fn())
            except Abort as a:
                out = ("abort", str(a))
            except Exception as e:  # noqa: BLE001
                out = ("exc", e)
        finally:
            CUR = None
        feas, _ = smt.check(run.pc, count=False)
        if feas == "sat":
            results.append((list(run.pc), out, list(run.holes)))
        elif feas == "unknown":
            results.append((list(run.pc), ("abort", "feasibility unknown"), list(run.holes)))
        for j in range(len(dec), len(run.decisions)):
            stack.append(run.decisions[:j] + [not run.decisions[j]])
        if len(results) > max_paths:
            raise RuntimeError("path explosion in symproxy.explore")
    return results


def split_template(text):
    """'DIM arr_A(⟦0⟧)' -> ['DIM arr_A(', 0, ')']"""
    out = []
    pos = 0
    for m in HOLE_RE.finditer(text):
        if m.start() > pos:
            out.append(text[pos : m.start()])
        out.append(int(m.group(1)))
        pos = m.end()
    if pos < len(text):
        out.append(text[pos:])
    return out


class SStr:
    """z3 String proxy: slicing with int/SInt bounds, concatenation, equality; formatting yields a hole."""

    __hash__ = None

    def __init__(self, t):
        self.t = t

    @staticmethod
    def _i(x, default):
        if x is None:
            return default
        if isinstance(x, SInt):
            return x.t
        return z3.IntVal(int(x))

    def __getitem__(self, key):
        n = z3.Length(self.t)
        if isinstance(key, slice):
            if key.step not in (None, 1):
                raise Abort("slice step")
            lo = self._i(key.start, z3.IntVal(0))
            hi = self._i(key.stop, n)
            # Python clamps; negative indices are not used by the code under test (asserted as a path premise)
            CUR.pc.append(z3.And(lo >= 0, hi >= 0))
            lo = z3.If(lo > n, n, lo)
            hi = z3.If(hi > n, n, hi)
            ln = z3.If(hi > lo, hi - lo, z3.IntVal(0))
            return SStr(z3.SubString(self.t, lo, ln))
        i = self._i(key, None)
        CUR.pc.append(z3.And(i >= 0, i < n))
        return SStr(z3.SubString(self.t, i, 1))

    def _s(self, o):
        if isinstance(o, SStr):
            return o.t
        if isinstance(o, str):
            return template_term(o, CUR.holes)
        raise TypeError(type(o))

    def __add__(self, o):
        return SStr(z3.Concat(self.t, self._s(o)))

    def __radd__(self, o):
        return SStr(z3.Concat(self._s(o), self.t))

    def __eq__(self, o):
        if isinstance(o, (str, SStr)):
            return SBool(self.t == self._s(o))
        return False

    def __ne__(self, o):
        if isinstance(o, (str, SStr)):
            return SBool(self.t != self._s(o))
        return True

    def endswith(self, suffix):
        return SBool(z3.SuffixOf(self._s(suffix), self.t))

    def startswith(self, prefix):
        return SBool(z3.PrefixOf(self._s(prefix), self.t))

    def replace(self, a, b):
        raise Abort("str.replace on a symbolic string is not encoded")

    def strip(self):
        raise Abort("str.strip on a symbolic string is not encoded")

    def __format__(self, spec):
        if spec:
            raise Abort("format spec on symbolic string")
        return CUR.hole(("str", self.t, ""))

    def __str__(self):
        return CUR.hole(("str", self.t, ""))

    __repr__ = __str__


def template_term(text, holes):
    """concrete text with hole markers -> z3 String term (only 'str' holes allowed)"""
    parts = []
    for p in split_template(text):
        if isinstance(p, int):
            kind, term, _ = holes[p]
            if kind != "str":
                raise Abort("non-string hole inside string template")
            parts.append(term)
        else:
            parts.append(z3.StringVal(p))
    if not parts:
        return z3.StringVal("")
    return parts[0] if len(parts) == 1 else z3.Concat(*parts)


def to_str_term(value, holes):
    if isinstance(value, SStr):
        return value.t
    if isinstance(value, str):
        return template_term(value, holes)
    raise TypeError(type(value))


class SymDict:
    """dict replacement whose key lookup compares with == (so symbolic keys fork on equality instead of hashing);
    installed in place of dict/defaultdict in a module under test (E5/E6 'shadow container')."""

    def __init__(self, default_factory=None):
        self._items = []
        self._default = default_factory

    def _find(self, key):
        for i, (k, _) in enumerate(self._items):
            if k is key:
                return i
        for i, (k, _) in enumerate(self._items):
            same = k == key
            if same if isinstance(same, bool) else bool(same):
                return i
        return -1

    def __getitem__(self, key):
        i = self._find(key)
        if i < 0:
            if self._default is None:
                raise KeyError(key)
            v = self._default()
            self._items.append((key, v))
            return v
        return self._items[i][1]

    def __setitem__(self, key, value):
        i = self._find(key)
        if i < 0:
            self._items.append((key, value))
        else:
            self._items[i] = (self._items[i][0], value)

    def __contains__(self, key):
        return self._find(key) >= 0

    def items(self):
        return list(self._items)

    def keys(self):
        return [k for k, _ in self._items]

    def values(self):
        return [v for _, v in self._items]

    def __iter__(self):
        return iter(self.keys())

    def __len__(self):
        return len(self._items)
