"""Calls of the real coco.b09.compiler.convert from /repo, with outcome classification (used by every compiler check)."""
import importlib

PLAIN = dict(add_standard_prefix=False, add_suffix=False, skip_procedure_headers=True)

DOCUMENTED = ("ParseError", "IncompleteParseError", "LineNumberTooLargeException", "ValidationError")


def compiler():
    return importlib.import_module("coco.b09.compiler")


def convert_plain(src, **kw):
    opts = dict(PLAIN)
    opts.update(kw)
    return compiler().convert(src, **opts)


def convert_full(src, **kw):
    return compiler().convert(src, **kw)


def exc_kind(e):
    """'refused' for the tool's documented refusals, else 'crash'"""
    name = type(e).__name__
    mod = type(e).__module__ or ""
    if name in ("ParseError", "IncompleteParseError", "LeftRecursionError") and mod.startswith("parsimonious"):
        return "refused"
    if name == "ParseError" and mod.startswith("coco.b09.compiler"):
        return "refused"
    if name == "LineNumberTooLargeException":
        return "refused"
    if name == "ValidationError" and mod.startswith("pydantic"):
        return "refused"
    return "crash"


def classify(src, plain=True, **kw):
    """('ok', text) | ('refused', exception class) | ('crash', exception class: message head)"""
    try:
        return ("ok", convert_plain(src, **kw) if plain else convert_full(src, **kw))
    except Exception as e:  # noqa: BLE001
        k = exc_kind(e)
        inner = e
        # parsimonious wraps visitor exceptions in VisitationError; report the original class
        if type(e).__name__ == "VisitationError" and getattr(e, "original_class", None) is not None:
            return ("crash", f"VisitationError({e.original_class.__name__})")
        return (k, type(inner).__name__)
