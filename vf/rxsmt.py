"""E2: translate a Python regular expression (as parsed by CPython's own re._parser) into a z3 regular expression.

lang(pattern) is the language of *candidate matches*: every string Python's re.match could return as group(0) for
some following text is in it.  It is exact for patterns without look-around; a negative look-ahead is evaluated
against the remainder of the match only (text beyond the match is treated as absent), which can only enlarge the
language, so `unsat` answers about "every match" stay sound and `sat` answers are replayed on the real code.
A trailing positive look-ahead `(?=R$)` is split off and returned separately by split_trailing_lookahead().
Anything the translator does not know raises Unsupported (a harness error), never an approximation.
"""
import re

try:
    import re._parser as sre_parse
    import re._constants as sre_c
except ImportError:  # pragma: no cover
    import sre_parse
    import sre_constants as sre_c
import z3


class Unsupported(Exception):
    pass


SS = z3.StringSort()
RS = z3.ReSort(SS)


def allchar():
    return z3.AllChar(RS)


def sigma_star():
    return z3.Full(RS)


def eps():
    return z3.Re("")


def empty():
    return z3.Empty(RS)


def union(rs):
    rs = list(rs)
    if not rs:
        return empty()
    return rs[0] if len(rs) == 1 else z3.Union(*rs)


def concat(rs):
    rs = [r for r in rs]
    if not rs:
        return eps()
    return rs[0] if len(rs) == 1 else z3.Concat(*rs)


def chars(cs):
    return union(z3.Re(c) for c in cs)


def _lit(code, icase):
    ch = chr(code)
    if icase and ch.lower() != ch.upper():
        return z3.Union(z3.Re(ch.lower()), z3.Re(ch.upper()))
    return z3.Re(ch)


def _category(cat):
    c = str(cat)
    if c.endswith("CATEGORY_DIGIT"):
        return z3.Range("0", "9")
    if c.endswith("CATEGORY_NOT_DIGIT"):
        return z3.Intersect(allchar(), z3.Complement(z3.Range("0", "9")))
    if c.endswith("CATEGORY_SPACE"):
        return chars(" \t\n\r\x0b\x0c")
    if c.endswith("CATEGORY_NOT_SPACE"):
        return z3.Intersect(allchar(), z3.Complement(chars(" \t\n\r\x0b\x0c")))
    if c.endswith("CATEGORY_WORD"):
        # ASCII reading of \w; the tool's inputs are ASCII/latin-1 program text (stated assumption)
        return z3.Union(z3.Range("0", "9"), z3.Range("a", "z"), z3.Range("A", "Z"), z3.Re("_"))
    if c.endswith("CATEGORY_NOT_WORD"):
        return z3.Intersect(
            allchar(), z3.Complement(z3.Union(z3.Range("0", "9"), z3.Range("a", "z"), z3.Range("A", "Z"), z3.Re("_")))
        )
    raise Unsupported(c)


def _charset(av, icase):
    neg = False
    rs = []
    for op, a in av:
        op = str(op)
        if op == "NEGATE":
            neg = True
        elif op == "LITERAL":
            rs.append(_lit(a, icase))
        elif op == "RANGE":
            lo, hi = chr(a[0]), chr(a[1])
            rs.append(z3.Range(lo, hi))
            if icase:
                if lo.isalpha() and hi.isalpha():
                    rs.append(z3.Range(lo.swapcase(), hi.swapcase()))
        elif op == "CATEGORY":
            rs.append(_category(a))
        else:
            raise Unsupported("charset " + op)
    u = union(rs)
    if neg:
        return z3.Intersect(allchar(), z3.Complement(u))
    return u


def _seq(items, icase, tail):
    """regex for items followed by tail (continuation style, so look-aheads can see the rest of the match)."""
    items = list(items)
    if not items:
        return tail
    (op, av), rest = items[0], items[1:]
    ops = str(op)
    if ops == "ASSERT_NOT":
        direction, sub = av
        if direction != 1:
            raise Unsupported("look-behind")
        cont = _seq(rest, icase, tail)
        bad = z3.Concat(_seq(sub, icase, eps()), sigma_star())
        return z3.Intersect(cont, z3.Complement(bad))
    if ops == "ASSERT":
        direction, sub = av
        if direction != 1:
            raise Unsupported("look-behind")
        cont = _seq(rest, icase, tail)
        sub_items = list(sub)
        if sub_items and str(sub_items[-1][0]) == "AT" and str(sub_items[-1][1]).endswith("AT_END"):
            good = _seq(sub_items[:-1], icase, eps())
        else:
            good = z3.Concat(_seq(sub_items, icase, eps()), sigma_star())
        return z3.Intersect(cont, good)
    if ops == "AT":
        a = str(av)
        if a.endswith("AT_END"):
            # `$`: nothing may follow inside the match; text beyond the match is outside this language
            return z3.Intersect(_seq(rest, icase, tail), eps())
        if a.endswith("AT_BEGINNING"):
            return _seq(rest, icase, tail)
        raise Unsupported(a)
    head = _one(op, av, icase)
    return z3.Concat(head, _seq(rest, icase, tail)) if rest or tail is not None else head


def _one(op, av, icase):
    ops = str(op)
    if ops == "LITERAL":
        return _lit(av, icase)
    if ops == "NOT_LITERAL":
        return z3.Intersect(allchar(), z3.Complement(_lit(av, icase)))
    if ops == "ANY":
        return z3.Intersect(allchar(), z3.Complement(z3.Re("\n")))
    if ops == "IN":
        return _charset(av, icase)
    if ops == "BRANCH":
        return union(_seq(b, icase, eps()) for b in av[1])
    if ops == "SUBPATTERN":
        return _seq(av[3], icase, eps())
    if ops in ("MAX_REPEAT", "MIN_REPEAT"):
        lo, hi, sub = av
        r = _seq(sub, icase, eps())
        if hi == sre_c.MAXREPEAT:
            return z3.Concat(z3.Loop(r, lo, lo), z3.Star(r)) if lo else z3.Star(r)
        if lo == 0 and hi == 1:
            return z3.Option(r)
        return z3.Loop(r, lo, hi)
    raise Unsupported(ops)


def _parse(pattern, flags=0):
    if hasattr(pattern, "pattern"):
        flags |= pattern.flags
        pattern = pattern.pattern
    tree = sre_parse.parse(pattern, flags)
    icase = bool(tree.state.flags & re.IGNORECASE)
    return list(tree), icase


def lang(pattern, flags=0):
    """z3 regex of candidate matches of `pattern` (see module docstring)."""
    items, icase = _parse(pattern, flags)
    return _seq(items, icase, eps())


def split_trailing_lookahead(pattern, flags=0):
    """pattern = BODY(?=AHEAD$)  ->  (lang(BODY), lang(AHEAD)) ; AHEAD constrains the text that follows the match."""
    items, icase = _parse(pattern, flags)
    if not items or str(items[-1][0]) != "ASSERT":
        raise Unsupported("no trailing look-ahead")
    direction, sub = items[-1][1]
    sub = list(sub)
    if direction != 1 or not sub or str(sub[-1][0]) != "AT":
        raise Unsupported("trailing look-ahead must end in $")
    return _seq(items[:-1], icase, eps()), _seq(sub[:-1], icase, eps())


def models(constraints, var, limit=8, timeout_ms=10000):
    """enumerate up to `limit` distinct string values of `var` satisfying constraints"""
    s = z3.Solver()
    s.set("timeout", timeout_ms)
    s.add(*constraints)
    out = []
    while len(out) < limit:
        r = str(s.check())
        if r != "sat":
            return out, r
        v = s.model().eval(var, model_completion=True).as_string()
        out.append(z3str(v))
        s.add(var != z3.StringVal(v))
    return out, "sat"


def z3str(v):
    """z3's as_string() escapes non-printables as \\u{..}; undo that."""
    return re.sub(r"\\u\{([0-9a-fA-F]+)\}", lambda m: chr(int(m.group(1), 16)), v)
