"""Thin z3 wrapper that counts queries, time and distinct assertion sets; picklable stats."""
import hashlib
import time

import z3


class Stats:
    def __init__(self):
        self.wall = 0.0
        self.counts = {}
        self.hashes = set()

    def bump(self, k, n=1):
        self.counts[k] = self.counts.get(k, 0) + n

    def export(self):
        return {"wall": self.wall, "counts": dict(self.counts), "hashes": list(self.hashes)}

    def merge(self, other):
        if isinstance(other, Stats):
            other = other.export()
        self.wall += other["wall"]
        for k, v in other["counts"].items():
            self.bump(k, v)
        self.hashes.update(other["hashes"])


STATS = Stats()


def reset_stats():
    global STATS
    STATS = Stats()
    return STATS


def check(assertions, timeout_ms=10000, want_model=False, stats=None, count=True):
    """Decide satisfiability of the conjunction.  Returns (verdict, model|None); verdict in sat/unsat/unknown."""
    st = stats or STATS
    s = z3.Solver()
    s.set("timeout", int(timeout_ms))
    for a in assertions:
        s.add(a)
    h = hashlib.sha1(s.sexpr().encode()).hexdigest()[:16]
    t = time.time()
    r = str(s.check())
    st.wall += time.time() - t
    if count:
        st.bump("solver_queries")
        st.hashes.add(h)
    if r == "sat":
        return "sat", (s.model() if want_model else None)
    if r == "unsat":
        return "unsat", None
    return "unknown", None


def prove(premises, goal, timeout_ms=10000, stats=None):
    """Obligation: premises => goal.  Returns (verdict, model): 'unsat' = proved, 'sat' = counterexample model."""
    st = stats or STATS
    st.bump("obligations")
    v, m = check(list(premises) + [z3.Not(goal)], timeout_ms, want_model=True, stats=st)
    st.bump(v)
    return v, m


def z3_version():
    return z3.get_version_string()
