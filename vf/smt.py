"""Thin z3 wrapper that counts queries, time and distinct assertion sets; picklable stats."""
import hashlib
import os
import subprocess
import tempfile
import time

import z3

# Second solver (thorough tier): a deterministic sample of the queries (by hash of the assertion text) is re-decided
# by the system z3 4.8.12 binary on the SMT-LIB2 dump.  Agreement / disagreement / inconclusive are counted; a
# disagreement of definite verdicts is a harness error (raised by Ctx.finish), never a violation.
CROSS_BIN = "/usr/bin/z3"
CROSS_EVERY = 16


class Stats:
    def __init__(self):
        self.wall = 0.0
        self.counts = {}
        self.hashes = set()
        self.crossed = set()

    def bump(self, k, n=1):
        self.counts[k] = self.counts.get(k, 0) + n

    def export(self):
        return {"wall": self.wall, "counts": dict(self.counts), "hashes": list(self.hashes)}

    def merge(self, other):
        if isinstance(other, Stats):
            other = other.export()
        self.wall += other["wall"]
        for k, v in other["counts"].items():
            self.bump(k, v)
        self.hashes.update(other["hashes"])


STATS = Stats()


def reset_stats():
    global STATS
    STATS = Stats()
    return STATS


def check(assertions, timeout_ms=10000, want_model=False, stats=None, count=True):
    """Decide satisfiability of the conjunction.  Returns (verdict, model|None); verdict in sat/unsat/unknown."""
    st = stats or STATS
    s = z3.Solver()
    s.set("timeout", int(timeout_ms))
    for a in assertions:
        s.add(a)
    h = hashlib.sha1(s.sexpr().encode()).hexdigest()[:16]
    t = time.time()
    r = str(s.check())
    st.wall += time.time() - t
    if count:
        st.bump("solver_queries")
        st.hashes.add(h)
    if count and r in ("sat", "unsat") and os.environ.get("VERIF_CROSSCHECK") == "1" and int(h, 16) % CROSS_EVERY == 0:
        _cross(s, r, h, st)
    if r == "sat":
        return "sat", (s.model() if want_model else None)
    if r == "unsat":
        return "unsat", None
    return "unknown", None


def _cross(solver, verdict, h, st):
    if h in st.crossed:
        return
    st.crossed.add(h)
    try:
        with tempfile.NamedTemporaryFile("w", suffix=".smt2", delete=False) as f:
            f.write(solver.to_smt2())
            path = f.name
        try:
            t = time.time()
            out = subprocess.run([CROSS_BIN, "-smt2", "-T:20", path], capture_output=True, text=True, timeout=40).stdout
            st.bump("cross_wall_ms", int((time.time() - t) * 1000))
        finally:
            os.unlink(path)
    except Exception:  # noqa: BLE001 - missing binary, time-out of the subprocess: inconclusive
        st.bump("cross_inconclusive")
        return
    first = out.strip().splitlines()[0].strip() if out.strip() else ""
    if "(error" in out or first not in ("sat", "unsat"):
        st.bump("cross_inconclusive")
    elif first == verdict:
        st.bump("cross_agree")
    else:
        st.bump("cross_disagree")


def prove(premises, goal, timeout_ms=10000, stats=None):
    """Obligation: premises => goal.  Returns (verdict, model): 'unsat' = proved, 'sat' = counterexample model."""
    st = stats or STATS
    st.bump("obligations")
    v, m = check(list(premises) + [z3.Not(goal)], timeout_ms, want_model=True, stats=st)
    st.bump(v)
    return v, m


def z3_version():
    return z3.get_version_string()
