"""Decoder cases shared by C16-C19: each case runs the real decoder source symbolically (pysym) on a small symbolic
stream and returns, per path, what was written next to what the declarative reference says should have been."""
import io
import itertools

import z3

from vf import decoders as D, pysym, smt
from vf.decoders import bit, bv, cells, header, rgb6, sel
from vf.pysym import Bytes, Failure, Fmt, HarnessGap, Path, Sink, SList, Stream, Sym, is_sym, term

# symbolic run lengths are unrolled by forking up to this many repetitions (boundary counts are pinned separately)
RUN_UNWIND = 5 if __import__("os").environ.get("VERIF_TIER_EFFECTIVE") == "thorough" else 3



class Case:
    """one symbolic run: .paths = list of dict(pc, status, detail, got (terms), want (terms | None), header_ok, complete, ...)"""

    def __init__(self, name, decoder, params):
        self.name = name
        self.decoder = decoder
        self.params = params
        self.paths = []
        self.src = ""
        self.cells = []
        self.premises = []
        self.replay = None  # callable(model) -> (real output bytes | exception text, concrete input bytes)


def nibbles_ref(pal, data_cells):
    want = []
    for c in data_cells:
        want += rgb6(sel(pal, z3.LShR(term(c), bv(4)))) + rgb6(sel(pal, term(c) & bv(15)))
    return want


# ----------------------------------------------------------------------------- HRS
def hrs_case(width, height, skip, nbytes):
    """whole hrstoppm.convert on a stream of nbytes symbolic bytes"""
    mod = D.load("hrstoppm")
    cs, pre = cells(nbytes, "b")
    case = Case(f"hrs:w{width}h{height}s{skip}L{nbytes}", "hrstoppm", dict(width=width, height=height, skip=skip, nbytes=nbytes))
    case.cells, case.premises = cs, pre

    def build():
        stream = Stream(cs, "in.hrs")
        sink = Sink("out.ppm")
        return dict(input_image_stream=stream, output_image_stream=sink, width=width, height=height, skip=skip), sink, {"in.hrs": stream}, {}

    results, case.src = D.run_function(mod, "convert", build, pre)
    hdr = header(f"P6\n{width} {height}\n255\n")
    body = cs[(skip or 0):]
    pal = body[:16]
    need = 16 + (width // 2) * height
    for r in results:
        out = D.out_terms(r["out"])
        got_hdr = out[:len(hdr)]
        samples = out[len(hdr):]
        # reference: pixels of the bytes that exist
        data = body[16:16 + (width // 2) * height]
        want = nibbles_ref(pal, data) if len(pal) == 16 else []
        r.update(got=samples, want=want, header_ok=[int(str(x)) if z3.is_bv_value(x) else None for x in got_hdr] == hdr if len(out) >= len(hdr) else (r["status"] != "ok"),
                 announced=(width, height), expected_samples=3 * width * height, input_complete=len(body) >= need)
        case.paths.append(r)

    def replay(model):
        import coco.hrstoppm as H

        data = D.model_bytes(model, cs)
        out = io.BytesIO()
        try:
            H.convert(io.BytesIO(data), out, width, height, skip)
            return out.getvalue(), data
        except Exception as e:  # noqa: BLE001
            return "EXC:" + type(e).__name__ + ":" + out.getvalue().hex(), data

    case.replay = replay
    return case


# ----------------------------------------------------------------------------- PIX
def pix_case(nbytes):
    mod = D.load("pixtopgm")
    cs, pre = cells(nbytes, "p")
    case = Case(f"pix:L{nbytes}", "pixtopgm", dict(nbytes=nbytes))
    case.cells, case.premises = cs, pre

    def build():
        stream = Stream(cs, "in.pix")
        sink = Sink("out.pgm")
        return dict(input_image_stream=stream, output_image_stream=sink), sink, {"in.pix": stream}, {}

    results, case.src = D.run_function(mod, "convert", build, pre)
    import math

    side = int(math.sqrt(nbytes * 2))
    hdr = header(f"P5\n{side} {side}\n255\n")
    for r in results:
        out = D.out_terms(r["out"])
        samples = out[len(hdr):]
        # reference (sideways layout): byte k = y*(side//2)+x holds rows 2x (high nibble) and 2x+1 (low nibble) of column y
        want = [None] * (side * side)
        for y in range(side):
            for x in range(side // 2):
                k = y * (side // 2) + x
                if k < len(cs):
                    v = term(cs[k])
                    want[(2 * x) * side + y] = bv(255) - z3.LShR(v, bv(4)) * 17
                    want[(2 * x + 1) * side + y] = bv(255) - (v & bv(15)) * 17
        r.update(got=samples, want=want, header_ok=[int(str(x)) for x in out[:len(hdr)] if z3.is_bv_value(x)] == hdr, announced=(side, side), expected_samples=side * side,
                 input_complete=True, sparse_want=True)
        case.paths.append(r)

    def replay(model):
        import coco.pixtopgm as P
        import os
        import tempfile

        data = D.model_bytes(model, cs)
        fd, path = tempfile.mkstemp(suffix=".pix")
        os.write(fd, data)
        os.close(fd)
        out = io.BytesIO()
        try:
            with open(path, "rb") as f:
                P.convert(f, out)
            return out.getvalue(), data
        except Exception as e:  # noqa: BLE001
            return "EXC:" + type(e).__name__ + ":" + out.getvalue().hex(), data
        finally:
            os.remove(path)

    case.replay = replay
    return case


# ----------------------------------------------------------------------------- MAX / ART
PIXEL_MODES = {0: "BW", 1: "BR", 2: "RB", 3: "BR2", 4: "RB2", 5: "BR3", 6: "RB3", 7: "S10", 8: "S11"}
BR2 = [[0, 0, 0], [255, 85, 0], [0, 170, 255], [255, 255, 255]]
BR3 = [[0, 0, 0], [255, 0, 0], [0, 0, 255], [255, 255, 255]]
SEMIG = [[0, 0, 0], [0, 255, 0], [255, 255, 0], [0, 0, 255], [255, 0, 0], [255, 255, 255], [0, 211, 170], [204, 0, 255], [255, 128, 0]]


def table_sel(table, idx):
    """table[idx] (rows of 3 ints) as three terms"""
    return [sel([row[j] for row in table], idx) for j in range(3)]


def clipz(v):
    return z3.If(v > 255, bv(255), z3.If(v < 0, bv(0), v))


def max_row_ref(arte, row_cells):
    want = []
    oy = r2 = g2 = b2 = bv(0)
    for c in row_cells:
        v = term(c)
        if arte == 0:
            for k in range(8):
                want += table_sel(BR2, bit(v, 7 - k) * 3)
        elif arte in (1, 2):
            x = -100 if arte == 1 else 100
            for k in range(8):
                ny = bit(v, 7 - k) * 255
                y = z3.LShR(oy + ny + z3.LShR(ny, bv(2)), bv(1))
                d = y - oy
                # Python's >> on a possibly negative int is an arithmetic shift (floor)
                i = (bv(x) * d) >> 7
                r = clipz((y * 10000 + i * 9563) / bv(10000))
                g = clipz((y * 10000 - i * 2721) / bv(10000))
                b = clipz((y * 10000 - i * 11070) / bv(10000))
                want += [z3.LShR(r + r2, bv(1)), z3.LShR(g + g2, bv(1)), z3.LShR(b + b2, bv(1))]
                oy, x, r2, g2, b2 = ny, -x, r, g, b
        else:
            for k in range(4):
                hi, lo = bit(v, 7 - 2 * k), bit(v, 6 - 2 * k)
                if arte == 3:
                    px = table_sel(BR2, hi * 2 + lo)
                elif arte == 4:
                    px = table_sel(BR2, hi + lo * 2)
                elif arte == 5:
                    px = table_sel(BR3, hi * 2 + lo)
                elif arte == 6:
                    px = table_sel(BR3, hi + lo * 2)
                elif arte == 7:
                    px = table_sel(SEMIG, 1 + hi + lo * 2)
                else:
                    px = table_sel(SEMIG, 5 + hi + lo * 2)
                want += px + px
    return want


def max_case(arte, newsroom, cols, rows, skip, ignore, nbytes, unwind=None):
    unwind = unwind or RUN_UNWIND
    mod = D.load("maxtoppm")
    cs, pre = cells(nbytes, "m")
    case = Case(f"max:mode{arte}{'N' if newsroom else ''}c{cols}r{rows}s{skip}{'i' if ignore else ''}L{nbytes}", "maxtoppm",
                dict(arte=arte, newsroom=newsroom, cols=cols, rows=rows, skip=skip, ignore=ignore, nbytes=nbytes))
    case.cells, case.premises = cs, pre

    def build():
        stream = Stream(cs, "in.max")
        sink = Sink("out.ppm")
        return dict(input_image_stream=stream, output_image_stream=sink, arte=arte, newsroom=newsroom, cols=cols, rows=rows, skip=skip,
                    ignore_header_errors=ignore), sink, {"in.max": stream}, {}

    results, case.src = D.run_function(mod, "convert", build, pre, unwind=unwind or RUN_UNWIND)
    body = cs[(skip or 0):]
    for r in results:
        out = r["out"]
        # header: either concrete text or one Fmt piece
        hdr_cols = hdr_rows = None
        samples = []
        if out and isinstance(out[0], Fmt):
            f = out[0]
            if f.template == "P6\n{} {}\n255\n":
                hdr_cols, hdr_rows = f.args
            samples = D.out_terms(out[1:])
        elif out:
            txt = bytes(x for x in out[:32] if isinstance(x, int))
            import re as _re

            m = _re.match(rb"P6\n(\d+) (\d+)\n255\n", txt)
            if m:
                hdr_cols, hdr_rows = int(m.group(1)), int(m.group(2))
                samples = D.out_terms(out[m.end():])
        # reference geometry
        if newsroom:
            head = body[:2]
            ecols = term(head[0]) * 8 if len(head) > 0 else None
            erows = term(head[1]) if len(head) > 1 else None
            data = body[2:]
        else:
            head = body[:5]
            ecols = bv(cols)
            erows = bv(rows) if rows else (z3.UDiv((term(head[1]) * 256 + term(head[2])) * 8, bv(cols)) if len(head) > 2 else None)
            data = body[5:]
        r.update(hdr=(hdr_cols, hdr_rows), expect=(ecols, erows), samples=samples, data=data, head=head)
        case.paths.append(r)

    def replay(model):
        import coco.maxtoppm as M

        data = D.model_bytes(model, cs)
        out = io.BytesIO()
        try:
            ok = M.convert(io.BytesIO(data), out, arte, newsroom, cols, rows, skip, ignore)
            return (out.getvalue(), ok), data
        except Exception as e:  # noqa: BLE001
            return "EXC:" + type(e).__name__ + ":" + out.getvalue().hex(), data

    case.replay = replay
    return case


# ----------------------------------------------------------------------------- MGE
C2R_REF = [0, 21, 2, 20, 6, 49, 35, 4, 33, 5, 14, 1, 12, 10, 3, 28, 7, 17, 16, 22, 48, 34, 37, 32, 44, 40, 42, 13, 8, 11, 24, 26, 56, 19, 18, 50, 54, 52, 38, 36,
           46, 45, 41, 15, 9, 25, 27, 30, 63, 58, 23, 51, 55, 53, 39, 60, 47, 61, 43, 57, 29, 31, 59, 62]
MGE_TITLE = list(b"TITLE\0") + [0] * 24


def mge_case(mode, ndata, rgb=True, unwind=None, header_symbolic=False):
    """mode 'raw' (flag byte non-zero) or 'rle' (flag byte 0); ndata symbolic bytes after the 51-byte header"""
    mod = D.load("mgetoppm")
    pal, pre_p = cells(16, "pal")
    data, pre_d = cells(ndata, "d")
    h0, pre_h = cells(1, "hdr")
    flagc, pre_f = cells(1, "flag")
    pre = pre_p + pre_d + pre_h + pre_f
    if not rgb:
        pre = pre + [z3.ULE(c.t, 63) for c in pal]
    first = h0[0] if header_symbolic else 0
    flag = flagc[0]
    pre = pre + ([flag.t != 0] if mode == "raw" else [flag.t == 0])
    stream_cells = [first] + pal + [0 if rgb else 1, flag] + MGE_TITLE + [7, 0x21] + data
    case = Case(f"mge:{mode}:{'rgb' if rgb else 'cmp'}:n{ndata}{':hdr' if header_symbolic else ''}", "mgetoppm", dict(mode=mode, ndata=ndata, rgb=rgb))
    case.cells, case.premises = pal + data + h0 + flagc, pre
    case.layout = stream_cells

    def build():
        stream = Stream(stream_cells, "in.mge")
        sink = Sink("out.ppm")
        return dict(input_image_stream=stream, output_image_stream=sink), sink, {"in.mge": stream}, {}

    results, case.src = D.run_function(mod, "convert", build, pre, unwind=unwind or RUN_UNWIND)
    hdr = header("P6\n320 200\n255\n")
    palterms = [term(c) for c in pal] if rgb else [sel(C2R_REF, term(c)) for c in pal]
    for r in results:
        out = D.out_terms(r["out"])
        samples = out[len(hdr):] if len(out) >= len(hdr) else []
        r.update(samples=samples, header_ok=(len(out) < len(hdr) and r["status"] != "ok") or [int(str(x)) for x in out[:len(hdr)]] == hdr,
                 palterms=palterms, data=data, expected_samples=320 * 200 * 3)
        case.paths.append(r)

    def replay(model):
        import coco.mgetoppm as G

        vals = {c.t.decl().name(): model.eval(c.t, model_completion=True).as_long() & 0xFF for c in case.cells}
        raw = bytes((vals[x.t.decl().name()] if isinstance(x, Sym) else x) for x in stream_cells)
        out = io.BytesIO()
        try:
            G.convert(io.BytesIO(raw), out)
            return out.getvalue(), raw
        except BaseException as e:  # noqa: BLE001  (sys.exit)
            return "EXC:" + type(e).__name__ + ":" + out.getvalue().hex(), raw

    case.replay = replay
    return case


def ref_rle_mge(path, data, palterms, limit_bytes):
    """reference run-length decoder: (count, value) pairs, count 0 ends; -> (sample terms, ended_by_zero, consumed)"""
    want = []
    i = 0
    produced = 0
    while i < len(data):
        b = data[i]
        if path.branch(b.t == 0):
            return want, True, i + 1
        if i + 1 >= len(data):
            return want, False, i
        v = term(data[i + 1])
        # run of b pixels-bytes; the picture holds limit_bytes bytes
        k = 0
        while path.branch(z3.UGT(b.t, bv(k))):
            if produced < limit_bytes:
                want += rgb6(sel(palterms, z3.LShR(v, bv(4)))) + rgb6(sel(palterms, v & bv(15)))
            produced += 1
            k += 1
            if k > 300:
                raise HarnessGap("reference run too long")
        i += 2
    return want, False, i


# ----------------------------------------------------------------------------- RAT
def rat_case(ndata, unwind=None, packed_symbolic=False):
    mod = D.load("rattoppm")
    esc, pre_e = cells(1, "esc")
    pk, pre_k = cells(1, "packed")
    pal, pre_p = cells(16, "pal")
    data, pre_d = cells(ndata, "d")
    pre = pre_e + pre_k + pre_p + pre_d + ([] if packed_symbolic else [pk[0].t != 0])
    stream_cells = [esc[0], pk[0], 0] + pal + data
    case = Case(f"rat:n{ndata}{':pk' if packed_symbolic else ''}", "rattoppm", dict(ndata=ndata))
    case.cells, case.premises = esc + pk + pal + data, pre

    def build():
        stream = Stream(stream_cells, "in.rat")
        sink = Sink("out.ppm")
        return dict(input_image_stream=stream, output_image_stream=sink), sink, {"in.rat": stream}, {}

    results, case.src = D.run_function(mod, "convert", build, pre, unwind=unwind or RUN_UNWIND)
    hdr = header("P6\n320 199\n255\n")
    for r in results:
        out = D.out_terms(r["out"])
        samples = out[len(hdr):] if len(out) >= len(hdr) else []
        r.update(samples=samples, header_ok=(len(out) < len(hdr) and r["status"] != "ok") or [int(str(x)) for x in out[:len(hdr)]] == hdr, pal=pal, esc=esc[0], data=data,
                 expected_samples=320 * 199 * 3)
        case.paths.append(r)

    def replay(model):
        import coco.rattoppm as R

        raw = bytes((model.eval(x.t, model_completion=True).as_long() & 0xFF if isinstance(x, Sym) else x) for x in stream_cells)
        out = io.BytesIO()
        try:
            R.convert(io.BytesIO(raw), out)
            return out.getvalue(), raw
        except BaseException as e:  # noqa: BLE001
            return "EXC:" + type(e).__name__ + ":" + out.getvalue().hex(), raw

    case.replay = replay
    return case


def ref_rat(path, esc, data, pal, limit_bytes):
    """reference escape-coded decoder: literal byte, or escape, repeat, value"""
    want = []
    i = 0
    produced = 0
    palterms = [term(c) for c in pal]

    def px(v):
        return rgb6(sel(palterms, z3.LShR(v, bv(4)))) + rgb6(sel(palterms, v & bv(15)))

    while i < len(data) and produced < limit_bytes:
        c = data[i]
        if path.branch(c.t != esc.t):
            want += px(term(c))
            produced += 1
            i += 1
            continue
        if i + 2 >= len(data):
            break
        rep, v = data[i + 1], term(data[i + 2])
        k = 0
        while path.branch(z3.UGT(rep.t, bv(k))):
            want += px(v)
            produced += 1
            k += 1
            if k > 300:
                raise HarnessGap("reference run too long")
        i += 3
    return want


# ----------------------------------------------------------------------------- CM3
def cm3_line_ref(contr, buff1, buff2, literals, linbuf):
    """one line: -> (160 byte terms, literals consumed)"""
    out = []
    u = y = 0
    bitu = bity = 7
    li = 0
    cur = list(linbuf)
    for x in range(160):
        if contr >= 128:
            a = literals[li]
            li += 1
        else:
            cc = (buff1[u] >> bitu) & 1
            bitu -= 1
            if bitu < 0:
                bitu, u = 7, u + 1
            if cc == 0:
                a = cur[(x - 1) % 160]  # same as the previous byte; column 0 wraps to the last byte of the buffer
            else:
                cc = (buff2[y] >> bity) & 1
                bity -= 1
                if bity < 0:
                    bity, y = 7, y + 1
                if cc == 0:
                    a = cur[x]
                else:
                    a = literals[li]
                    li += 1
        cur[x] = a
        out.append(a)
    return out, li, cur


CM3_PATTERNS = {
    # name: (buff1 bytes (20), buff2 generator) - concrete control bits; data bytes stay symbolic
    "all-literal": ([0xFF] * 20, lambda k: [0xFF] * k),
    "all-left": ([0x00] * 20, lambda k: [0xFF] * k),
    "all-up": ([0xFF] * 20, lambda k: [0x00] * k),
    "alternate": ([0xAA] * 20, lambda k: [0xCC] * k),
    "left-at-col0-then-literal": ([0x7F] + [0xFF] * 19, lambda k: [0xFF] * k),
    "mixed": ([0x5A, 0xC3] * 10, lambda k: ([0x96, 0x0F] * k)[:k]),
}


def cm3_case(pictyp, line_specs, nlit_extra=0, lines_byte=None):
    """line_specs: list of (contr, pattern name | None).  Literal bytes are symbolic; control bits concrete."""
    mod = D.load("cm3toppm")
    pal, pre_p = cells(16, "pal")
    pre = list(pre_p)
    hdr_tail = [1, 2] + [0] * 8 + [0x80, 0x00]
    stream_cells = [pictyp] + pal + hdr_tail
    if not (pictyp & 1):
        stream_cells += [0] * 243
    line_specs = list(line_specs)
    # an entry ("page", None) starts the second page of a two-page picture: the lines before it are page 1
    page_at = [i for i, (c, p_) in enumerate(line_specs) if c == "page"]
    nlines = page_at[0] if page_at else len(line_specs)
    stream_cells.append(nlines if lines_byte is None else lines_byte)
    linbuf = [bv(0)] * 160
    want_bytes = []
    lits_all = []
    for ln, (contr, pat) in enumerate(line_specs):
        if contr == "page":
            stream_cells.append(len(line_specs) - ln - 1)  # lines byte of page 2; the line buffer carries over
            continue
        stream_cells.append(contr)
        if contr is not None and contr >= 128:
            lits, pre_l = cells(160, f"l{ln}_")
            pre += pre_l
            lits_all += lits
            stream_cells += lits
            line, used, linbuf = cm3_line_ref(contr, None, None, [term(c) for c in lits], linbuf)
        else:
            b1, mk = CM3_PATTERNS[pat]
            if contr is None:
                # as many second-stream bytes as the line needs
                ones = sum((b1[k // 8] >> (7 - k % 8)) & 1 for k in range(160))
                contr = (ones + 7) // 8
                line_specs[ln] = (contr, pat)
                stream_cells[-1] = contr
            b2 = mk(contr)
            stream_cells += b1 + b2
            # count literals needed by running the reference once with placeholders
            probe, used, _ = cm3_line_ref(contr, b1, b2, [bv(0)] * 200, [bv(0)] * 160)
            lits, pre_l = cells(used, f"l{ln}_")
            pre += pre_l
            lits_all += lits
            stream_cells += lits
            line, used2, linbuf = cm3_line_ref(contr, b1, b2, [term(c) for c in lits], linbuf)
        want_bytes += line
    extra, pre_x = cells(nlit_extra, "x")
    pre += pre_x
    stream_cells += extra
    case = Case(f"cm3:t{pictyp:02x}:" + ",".join(f"{c}{'/' + p if p else ''}" for c, p in line_specs) + (f":lines={lines_byte}" if lines_byte is not None else ""), "cm3toppm",
                dict(pictyp=pictyp, lines=line_specs))
    case.cells, case.premises = pal + lits_all + extra, pre

    def build():
        stream = Stream(stream_cells, "in.cm3")
        sink = Sink("out.ppm")
        return dict(input_image_stream=stream, output_image_stream=sink), sink, {"in.cm3": stream}, {}

    results, case.src = D.run_function(mod, "convert", build, pre, unwind=8)
    rows = 384 if pictyp & 0x80 else 192
    hdr = header(f"P6\n320 {rows}\n255\n")
    palterms = [term(c) for c in pal]
    want = []
    for b in want_bytes:
        want += rgb6(sel(palterms, z3.LShR(b, bv(4)))) + rgb6(sel(palterms, b & bv(15)))
    for r in results:
        out = D.out_terms(r["out"])
        samples = out[len(hdr):] if len(out) >= len(hdr) else []
        r.update(samples=samples, want=want, header_ok=(len(out) < len(hdr) and r["status"] != "ok") or [int(str(x)) for x in out[:len(hdr)]] == hdr, expected_samples=320 * rows * 3)
        case.paths.append(r)

    def replay(model):
        import coco.cm3toppm as C

        raw = bytes((model.eval(x.t, model_completion=True).as_long() & 0xFF if isinstance(x, Sym) else x) for x in stream_cells)
        out = io.BytesIO()
        try:
            C.convert(io.BytesIO(raw), out)
            return out.getvalue(), raw
        except BaseException as e:  # noqa: BLE001
            return "EXC:" + type(e).__name__ + ":" + out.getvalue().hex(), raw

    case.replay = replay
    return case


# ----------------------------------------------------------------------------- VEF
class FakeImageFile:
    def resize(self, size):
        return self

    def save(self, name):
        return None

    def close(self):
        return None


class FakeImage:
    @staticmethod
    def open(name):
        return FakeImageFile()


# the pixel / size obligations (C16-C18) run the tool on PREFIXES of a picture (a few symbolic data bytes stand for the
# first bytes of a full-size file), so "the PNG holds fewer rows than announced" is an artefact there; the damaged-file
# obligations (C19), where the byte string IS the file, switch the contract on
VEF_PILLOW_CONTRACT = False


def vef_case(type_byte, ndata, squashed=None, first_byte=0):
    """whole veftopng.start([in, out]).  squashed: None = raw data of ndata symbolic bytes, or a list of record byte
    lists (concrete count bytes and control bytes given as ints, payload as 'sym')"""
    mod = D.load("veftopng")
    pal, pre_p = cells(16, "pal")
    tb, pre_t = cells(1, "type")
    pre = pre_p + pre_t
    if type_byte is not None:
        pre = pre + [tb[0].t == type_byte]
    data, pre_d = cells(ndata, "d")
    pre += pre_d
    body = []
    k = 0
    if squashed is None:
        body = list(data)
    else:
        for rec in squashed:
            for item in rec:
                if item == "sym":
                    body.append(data[k])
                    k += 1
                else:
                    body.append(item)
    stream_cells = [first_byte if squashed is None else 128, tb[0]] + pal + body
    case = Case(f"vef:type{type_byte}:n{ndata}{':squashed' if squashed is not None else ''}", "veftopng", dict(type_byte=type_byte, ndata=ndata))
    case.cells, case.premises = tb + pal + data, pre
    writers = []

    def build():
        stream = Stream(stream_cells, "in.vef")
        sink = Sink("out.png")
        holder = {}

        def fake_open(I, name, mode="r"):
            return stream if "r" in mode else sink

        def make_writer(I, width, height, **kw):
            w = pysym.Writer(width, height, **kw)
            holder["writer"] = w
            return w

        class FakePng:
            Writer = pysym.Intrinsic(make_writer)

        class RecImageFile(FakeImageFile):
            def resize(self, size):
                holder["resized"] = tuple(size)
                return self

        class RecImage:
            @staticmethod
            def open(name):
                # contract of Pillow (validated by the concrete 640-wide truncation sweep of C19): loading a PNG whose
                # IDAT data holds fewer than width x height pixels raises OSError("image file is truncated")
                holder["image_opened"] = True
                w = holder.get("writer")
                if VEF_PILLOW_CONTRACT and (w is None or w.bitmap is None or len(w.bitmap.cells) < w.width * w.height):
                    raise Failure("OSError", "image file is truncated")
                return RecImageFile()

        return dict(argv=["in.vef", "out.png"]), sink, {"in.vef": stream}, {"holder": holder, "intr": {"open": pysym.Intrinsic(fake_open), "png": FakePng, "Image": RecImage}}

    node, case.src = pysym.func_ast(mod.start)

    def make_run():
        args, sink, registry, extra = build()
        intr = dict(pysym.BASE_INTRINSICS)
        intr["sys"] = D.FakeSys
        intr.update(extra["intr"])

        def run(path):
            I = pysym.Interp(path, mod.__dict__, intr, 140 if squashed is None else 420)  # the record loop of a squashed file runs 400 times
            env = [dict(args)]
            try:
                I.block(node.body, env)
            except pysym._Return as r:
                return r.v
            return None

        return run, sink, extra

    results = D.explore(make_run, pre, unwind=140, max_paths=300)
    for r in results:
        w = r["extra"]["holder"].get("writer")
        r.update(writer=w, pal=pal, data=data, body=body, resized=r["extra"]["holder"].get("resized"))
        case.paths.append(r)

    def replay(model):
        import os
        import tempfile

        import coco.veftopng as V

        raw = bytes((model.eval(x.t, model_completion=True).as_long() & 0xFF if isinstance(x, Sym) else x) for x in stream_cells)
        d = tempfile.mkdtemp(prefix="vefreplay")
        try:
            with open(os.path.join(d, "in.vef"), "wb") as f:
                f.write(raw)
            try:
                V.start([os.path.join(d, "in.vef"), os.path.join(d, "out.png")])
                import png as _png

                rd = _png.Reader(filename=os.path.join(d, "out.png"))
                w, h, rows, info = rd.read()
                rows = [list(r) for r in rows]
                return ("ok", w, h, sum(len(r) for r in rows), rows[0][:8] if rows else []), raw
            except BaseException as e:  # noqa: BLE001
                return "EXC:" + type(e).__name__ + ":" + str(e)[:60], raw
        finally:
            import shutil

            shutil.rmtree(d, ignore_errors=True)

    case.replay = replay
    return case


def unsquash_case(count, orig_len):
    """veftopng.unsquash on `count` symbolic bytes"""
    mod = D.load("veftopng")
    data, pre = cells(count, "u")
    case = Case(f"unsquash:n{count}:len{orig_len}", "veftopng", dict(count=count, orig_len=orig_len))
    case.cells, case.premises = data, pre

    def build():
        return dict(data=SList(list(data)), count=count, orig_len=orig_len), None, {}, {}

    results, case.src = D.run_function(mod, "unsquash", build, pre, unwind=orig_len + 2, while_unwind=orig_len + 2, max_paths=4000)
    for r in results:
        r.update(data=data)
        case.paths.append(r)

    def replay(model):
        import coco.veftopng as V

        raw = bytearray(model.eval(c.t, model_completion=True).as_long() & 0xFF for c in data)
        try:
            return V.unsquash(raw, count, orig_len), bytes(raw)
        except Exception as e:  # noqa: BLE001
            return "EXC:" + type(e).__name__, bytes(raw)

    case.replay = replay
    return case


def ref_unsquash(path, data, orig_len):
    """reference: groups of (n > 128: repeat next byte n-128 times | n <= 128: n literal bytes); truncated to orig_len.
    -> (list of terms, status) ; status 'ok' or 'overrun' (a group needs bytes beyond the record)"""
    out = []
    i = 0
    n = len(data)
    while i < n:
        c = data[i]
        i += 1
        if path.branch(z3.UGT(c.t, bv(128))):
            if i >= n:
                return out, "overrun"
            k = 0
            while path.branch(z3.UGT(c.t - 128, bv(k))):
                out.append(term(data[i]))
                k += 1
                if k > orig_len + 3:
                    # the remainder is cut off by the truncation to orig_len anyway
                    break
            i += 1
        else:
            k = 0
            while path.branch(z3.UGT(c.t, bv(k))):
                if i >= n:
                    return out, "overrun"
                out.append(term(data[i]))
                i += 1
                k += 1
    return out[:orig_len], "ok"
