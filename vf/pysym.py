"""E1: symbolic execution of the decoders from their Python source (ast), over z3 bit-vectors.

Python ints are signed 32-bit vectors carrying a conservative interval; an operation whose interval could leave
32 bits stops the run with a harness error, so wrap-around never stands in for Python's unbounded ints.  Booleans are
z3 Bools.  Byte strings / lists have concrete length and symbolic cells; indexing by a symbolic index is an ITE chain.
`if`/`while` on symbolic conditions fork (depth-first re-execution with a decision prefix, feasibility by z3).
Names that the interpreter does not define fall back to the real Python objects of the module under test, which are
called concretely when all arguments are concrete (argparse, str.format, ...).
"""
import ast
import builtins
import inspect
import re
import textwrap

import z3

from vf import smt

W = 32


class HarnessGap(Exception):
    """construct or value the interpreter cannot encode soundly"""


class Failure(Exception):
    """the program under test reported failure (exception, sys.exit, ...)"""

    def __init__(self, kind, detail=""):
        super().__init__(f"{kind}: {detail}")
        self.kind = kind
        self.detail = detail


class _Break(Exception):
    pass


class _Continue(Exception):
    pass


class _Return(Exception):
    def __init__(self, v):
        self.v = v


class Unwind(Exception):
    """a loop exceeded its unwinding bound on this path"""


def bv(v):
    return z3.BitVecVal(v, W)


class Sym:
    """symbolic int: term + conservative interval"""

    __slots__ = ("t", "lo", "hi")

    def __init__(self, t, lo, hi):
        if lo < -(2 ** 31) or hi >= 2 ** 31:
            raise HarnessGap("interval leaves 32 bits")
        self.t = t
        self.lo = lo
        self.hi = hi

    def __repr__(self):
        return f"Sym({self.t}, {self.lo}..{self.hi})"


class SymFrac:
    """rational num/den with BV numerator (for the YIQ formula of maxtoppm: exact in scaled integers)"""

    __slots__ = ("num", "den", "lo", "hi")

    def __init__(self, num, den, lo, hi):
        if lo < -(2 ** 31) or hi >= 2 ** 31:
            raise HarnessGap("scaled interval leaves 32 bits")
        self.num, self.den, self.lo, self.hi = num, den, lo, hi


def is_sym(x):
    return isinstance(x, Sym)


def term(x):
    if isinstance(x, Sym):
        return x.t
    if isinstance(x, z3.BitVecRef):
        return x
    if isinstance(x, bool):
        return bv(int(x))
    if isinstance(x, int):
        return bv(x)
    raise HarnessGap(f"no integer term for {type(x).__name__}")


def rng(x):
    if isinstance(x, Sym):
        return x.lo, x.hi
    return int(x), int(x)


class Bytes:
    """immutable sequence of byte/char cells (result of f.read, pack, str of chars)"""

    def __init__(self, cells):
        self.cells = list(cells)

    def __len__(self):
        return len(self.cells)

    def __repr__(self):
        return f"Bytes({len(self.cells)})"


class SList:
    """mutable list with concrete length"""

    def __init__(self, cells):
        self.cells = list(cells)

    def __len__(self):
        return len(self.cells)


class SDict:
    """dict with concrete or symbolic integer keys: association list, newest binding last"""

    def __init__(self, items=()):
        self.items = list(items)


class Stream:
    """input file: symbolic cells, concrete or symbolic length; read(n) returns min(n, remaining) cells"""

    PIPE = False  # harness switch: model the input as a pipe (not seekable)

    def __init__(self, cells, name="input", length=None):
        self.cells = list(cells)
        self.pos = 0
        self.name = name
        self.length = len(self.cells) if length is None else length
        self.pipe = Stream.PIPE

    def seekable(self):
        return not self.pipe

    def tell(self):
        if self.pipe:
            raise Failure("UnsupportedOperation", "tell() on a pipe")
        return self.pos

    def seek(self, offset, whence=0):
        if self.pipe:
            raise Failure("UnsupportedOperation", "seek() on a pipe")
        base = 0 if whence == 0 else self.pos if whence == 1 else len(self.cells)
        self.pos = max(0, min(len(self.cells), base + int(offset)))
        return self.pos

    def read(self, n=None):
        if n is None or n < 0:
            out = self.cells[self.pos:]
        else:
            out = self.cells[self.pos:self.pos + n]
        self.pos += len(out)
        return Bytes(out)


class Sink:
    """output file: list of written pieces"""

    def __init__(self, name="output"):
        self.pieces = []
        self.name = name
        self.closed = False

    def flat(self):
        out = []
        for p in self.pieces:
            out.extend(p)
        return out


class LambdaClosure:
    def __init__(self, node, env):
        self.node = node
        self.env = env


class SentinelIter:
    """iter(callable, sentinel): iterated lazily by the for statement"""

    def __init__(self, fn, sentinel):
        self.fn = fn
        self.sentinel = sentinel


class Closure:
    def __init__(self, node, env, interp, defaults=None):
        self.node = node
        self.env = env
        self.defaults = defaults or {}  # parameter name -> value (evaluated once, when the def statement ran)


class Path:
    """decision vector of one symbolic path.  Every non-trivial branch is recorded (forced ones too, so a replayed
    prefix lines up with the same branch points); siblings are scheduled only for branches that were open both ways."""

    def __init__(self, decisions, premises):
        self.dec = list(decisions)  # list of (value, forced)
        self.i = 0
        self.pc = list(premises)
        self.state = {}  # per-path copies of process-lifetime objects (mutable default arguments of the tool's functions)

    def branch(self, cond):
        c = z3.simplify(cond)
        if z3.is_true(c):
            return True
        if z3.is_false(c):
            return False
        if self.i < len(self.dec):
            v, forced = self.dec[self.i]
            self.i += 1
            if not forced:
                self.pc.append(c if v else z3.Not(c))
            return v
        rt, _ = smt.check(self.pc + [c], 20000, count=False)
        rf, _ = smt.check(self.pc + [z3.Not(c)], 20000, count=False)
        if rt == "unknown" or rf == "unknown":
            raise HarnessGap("feasibility unknown")
        if rt == "sat" and rf == "sat":
            self.dec.append((True, False))
            self.i += 1
            self.pc.append(c)
            return True
        v = rt == "sat"
        if not v and rf != "sat":
            raise HarnessGap("path condition became unsatisfiable")
        self.dec.append((v, True))
        self.i += 1
        return v

    def siblings(self, start):
        out = []
        for j in range(start, len(self.dec)):
            v, forced = self.dec[j]
            if not forced:
                out.append(self.dec[:j] + [(not v, False)])
        return out


class Interp:
    def __init__(self, path, module_globals, intrinsics, unwind=64, range_unwind=None):
        self.path = path
        self.g = module_globals
        self.intr = intrinsics
        self.unwind = unwind  # iterations of a `while` loop per path
        self.range_unwind = unwind if range_unwind is None else range_unwind  # trips of `for .. in range(<symbolic>)`
        self.stats = {"steps": 0}

    # ------------------------------------------------------------------ helpers
    def truth(self, v):
        if isinstance(v, z3.BoolRef):
            return self.path.branch(v)
        if is_sym(v):
            return self.path.branch(v.t != 0)
        if isinstance(v, (Bytes, SList)):
            return len(v) > 0
        return bool(v)

    def concretize(self, v, cap):
        """fork over the feasible values of a symbolic int (0..cap); beyond the cap the path is cut (Unwind)"""
        if not is_sym(v):
            return v
        for k in range(max(v.lo, 0), min(v.hi, cap) + 1):
            if self.path.branch(v.t == k):
                return k
        raise Unwind(f"symbolic size beyond {cap}")

    def select(self, seq, idx):
        """seq[idx] with symbolic idx"""
        cells = seq.cells if isinstance(seq, (Bytes, SList)) else list(seq)
        if cells and all(isinstance(c, str) and len(c) == 1 for c in cells):
            cells = [Bytes([ord(c)]) for c in cells]  # a table of characters (chr(..) results): one-cell byte strings
        n = len(cells)
        lo, hi = idx.lo, idx.hi
        if lo < -n or hi >= n:
            # IndexError possible: fork
            inrange = z3.And(idx.t >= -n if lo < 0 else z3.BoolVal(True), idx.t < n)
            if not self.path.branch(inrange):
                raise Failure("IndexError", "index out of range")
            lo, hi = max(lo, -n), min(hi, n - 1)
        if lo < 0:
            # Python's negative indexes: k < 0 means n + k (and -0 is 0): rewrite the index term accordingly
            shifted = z3.If(idx.t < 0, idx.t + bv(n), idx.t)
            idx = Sym(z3.simplify(shifted), 0, n - 1)
            lo, hi = 0, n - 1
        cand = list(range(lo, hi + 1))
        first = cells[cand[-1]]
        if isinstance(first, Bytes):
            ln = len(first)
            if any(not isinstance(cells[k], Bytes) or len(cells[k]) != ln for k in cand):
                raise HarnessGap("select over sequences of different length")
            out = []
            for j in range(ln):
                e = term(cells[cand[-1]].cells[j])
                l2, h2 = rng(cells[cand[-1]].cells[j])
                for k in reversed(cand[:-1]):
                    e = z3.If(idx.t == k, term(cells[k].cells[j]), e)
                    a, b = rng(cells[k].cells[j])
                    l2, h2 = min(l2, a), max(h2, b)
                out.append(Sym(e, l2, h2))
            return Bytes(out)
        e = term(first)
        l2, h2 = rng(first)
        for k in reversed(cand[:-1]):
            e = z3.If(idx.t == k, term(cells[k]), e)
            a, b = rng(cells[k])
            l2, h2 = min(l2, a), max(h2, b)
        return Sym(e, l2, h2)

    def store(self, lst, idx, val):
        n = len(lst.cells)
        if idx.lo < 0 or idx.hi >= n:
            inrange = z3.And(idx.t >= 0, idx.t < n)
            if not self.path.branch(inrange):
                raise Failure("IndexError", "assignment index out of range")
        for k in range(max(0, idx.lo), min(n - 1, idx.hi) + 1):
            old = lst.cells[k]
            a, b = rng(old)
            c, d = rng(val)
            lst.cells[k] = Sym(z3.If(idx.t == k, term(val), term(old)), min(a, c), max(b, d))

    # ------------------------------------------------------------------ expressions
    def ev(self, n, env):
        self.stats["steps"] += 1
        return getattr(self, "e_" + type(n).__name__)(n, env)

    def e_Constant(self, n, env):
        return n.value

    def lookup(self, name, env):
        for e in env:
            if name in e:
                return e[name]
        if name in self.intr:
            return self.intr[name]
        if name in self.g:
            v = self.g[name]
            if isinstance(v, (list, dict, bytearray)) and not isinstance(v, (SList, SDict)):
                # a mutable module-level object lives as long as the process: one copy of its import-time value per symbolic
                # path (= a fresh process; state carried between conversions is the history obligations' subject)
                key = ("global", id(self.g), name)
                if key not in self.path.state:
                    self.path.state[key] = SDict(list(v.items())) if isinstance(v, dict) else SList(list(v))
                return self.path.state[key]
            return v
        if hasattr(builtins, name):
            return getattr(builtins, name)
        raise NameError(name)

    def e_Name(self, n, env):
        return self.lookup(n.id, env)

    def e_List(self, n, env):
        return SList([self.ev(x, env) for x in n.elts])

    def e_Dict(self, n, env):
        if any(k is None for k in n.keys):
            raise HarnessGap("dict unpacking")
        return SDict([(self.ev(k, env), self.ev(v, env)) for k, v in zip(n.keys, n.values)])

    def e_Tuple(self, n, env):
        return tuple(self.ev(x, env) for x in n.elts)

    def e_JoinedStr(self, n, env):
        raise HarnessGap("f-string")

    def e_Attribute(self, n, env):
        o = self.ev(n.value, env)
        if isinstance(o, (Stream, Sink)) and n.attr == "name":
            return o.name
        if isinstance(o, (Stream, Sink, SList, SDict, Bytes, Writer)) or (isinstance(o, str) and n.attr in ("format", "join")):
            return ("attr", o, n.attr)
        if isinstance(o, Intrinsic):
            if o.fn is i_int and n.attr == "from_bytes":
                return Intrinsic(i_from_bytes)
            raise HarnessGap(f"attribute {n.attr!r} of a modelled builtin")
        try:
            return getattr(o, n.attr)
        except AttributeError:
            raise HarnessGap(f"attribute {n.attr!r} of {type(o).__name__}")

    def e_Lambda(self, n, env):
        return LambdaClosure(n, env)

    def e_IfExp(self, n, env):
        c = self.ev(n.test, env)
        if isinstance(c, z3.BoolRef) or is_sym(c):
            cond = c if isinstance(c, z3.BoolRef) else c.t != 0
            cs = z3.simplify(cond)
            if z3.is_true(cs):
                return self.ev(n.body, env)
            if z3.is_false(cs):
                return self.ev(n.orelse, env)
            a, b = self.ev(n.body, env), self.ev(n.orelse, env)
            if isinstance(a, (int, Sym)) and isinstance(b, (int, Sym)) and not isinstance(a, bool):
                return Sym(z3.If(cond, term(a), term(b)), min(rng(a)[0], rng(b)[0]), max(rng(a)[1], rng(b)[1]))
            # non-integer alternatives: fork
            return a if self.path.branch(cond) else b
        return self.ev(n.body, env) if c else self.ev(n.orelse, env)

    def e_UnaryOp(self, n, env):
        v = self.ev(n.operand, env)
        op = type(n.op).__name__
        if op == "Not":
            if isinstance(v, z3.BoolRef):
                return z3.Not(v)
            if is_sym(v):
                return v.t == 0
            if isinstance(v, (Bytes, SList)):
                return len(v) == 0
            return not v
        if op == "USub":
            if is_sym(v):
                return Sym(-v.t, -v.hi, -v.lo)
            if isinstance(v, SymFrac):
                return SymFrac(-v.num, v.den, -v.hi, -v.lo)
            return -v
        if op == "UAdd":
            return v
        raise HarnessGap("unary " + op)

    def e_BoolOp(self, n, env):
        isand = isinstance(n.op, ast.And)
        acc = None
        for x in n.values:
            v = self.ev(x, env)
            if isinstance(v, z3.BoolRef) or is_sym(v):
                c = v if isinstance(v, z3.BoolRef) else v.t != 0
                acc = c if acc is None else (z3.And(acc, c) if isand else z3.Or(acc, c))
            else:
                if isand and not v:
                    return False if acc is None else z3.BoolVal(False)
                if not isand and v:
                    return v if acc is None else z3.BoolVal(True)
        return acc if acc is not None else isand

    def arith(self, op, a, b):
        if isinstance(a, str) and op == "Mod":
            return a % b
        if isinstance(a, (Bytes, SList)) or isinstance(b, (Bytes, SList)):
            if op == "Mult":
                seq, k = (a, b) if isinstance(a, (Bytes, SList)) else (b, a)
                if is_sym(k):
                    k = self.concretize(k, self.range_unwind)
                return type(seq)(seq.cells * max(k, 0))
            if op == "Add" and isinstance(a, (Bytes, SList)) and isinstance(b, (Bytes, SList)):
                return (SList if isinstance(a, SList) or isinstance(b, SList) else Bytes)(a.cells + b.cells)
            if op == "Add" and isinstance(a, (Bytes, SList)) and isinstance(b, (bytes, str)):
                return type(a)(a.cells + list(b if isinstance(b, bytes) else b.encode("latin1")))
            raise HarnessGap("sequence arithmetic " + op)
        if isinstance(a, SymFrac) or isinstance(b, SymFrac) or isinstance(a, float) or isinstance(b, float):
            return self.frac(op, a, b)
        if not is_sym(a) and not is_sym(b):
            import operator as o

            f = {"Add": o.add, "Sub": o.sub, "Mult": o.mul, "FloorDiv": o.floordiv, "RShift": o.rshift, "LShift": o.lshift, "BitAnd": o.and_,
                 "BitOr": o.or_, "BitXor": o.xor, "Mod": o.mod, "Div": o.truediv, "Pow": o.pow}.get(op)
            if f is None:
                raise HarnessGap("binary " + op)
            return f(a, b)
        ta, tb = term(a), term(b)
        (la, ha), (lb, hb) = rng(a), rng(b)
        if op == "Add":
            return Sym(ta + tb, la + lb, ha + hb)
        if op == "Sub":
            return Sym(ta - tb, la - hb, ha - lb)
        if op == "Mult":
            c = [la * lb, la * hb, ha * lb, ha * hb]
            return Sym(ta * tb, min(c), max(c))
        if op == "RShift":
            if is_sym(b):
                raise HarnessGap("shift by a symbolic amount")
            if la < 0:
                return Sym(ta >> tb, la >> b, ha >> b)  # arithmetic shift = Python's floor semantics
            return Sym(z3.LShR(ta, tb), la >> b, ha >> b)
        if op == "LShift":
            if is_sym(b) or la < 0:
                raise HarnessGap("shift by a symbolic amount")
            return Sym(ta << tb, la << b, ha << b)
        if op == "BitAnd":
            if la < 0 or lb < 0:
                raise HarnessGap("& on possibly negative values")
            return Sym(ta & tb, 0, min(ha, hb))
        if op in ("BitOr", "BitXor"):
            if la < 0 or lb < 0:
                raise HarnessGap("| on possibly negative values")
            return Sym(ta | tb if op == "BitOr" else ta ^ tb, 0, (1 << max(ha, hb).bit_length()) - 1)
        if op == "FloorDiv":
            if is_sym(b) or b <= 0:
                raise HarnessGap("// by a symbolic or non-positive value")
            if la >= 0:
                return Sym(z3.UDiv(ta, tb), la // b, ha // b)
            # floor division for possibly negative dividend: (a - ((a % b + b) % b)) / b
            m = z3.SRem(z3.SRem(ta, tb) + tb, tb)
            return Sym((ta - m) / tb, la // b, ha // b)
        if op == "Mod":
            if is_sym(b) or b <= 0:
                raise HarnessGap("% by a symbolic or non-positive value")
            m = z3.SRem(z3.SRem(ta, tb) + tb, tb)
            return Sym(m, 0, b - 1)
        raise HarnessGap("binary " + op + " on symbolic ints")

    def frac(self, op, a, b):
        """rational arithmetic with denominator 10000 (only what the YIQ formula needs)"""
        DEN = 10000

        def as_frac(x):
            if isinstance(x, SymFrac):
                return x
            if isinstance(x, float):
                n = round(x * DEN)
                if abs(n / DEN - x) > 1e-12:
                    raise HarnessGap("float constant is not a multiple of 1e-4")
                return ("const", n)
            if isinstance(x, (int, Sym)):
                lo, hi = rng(x)
                return SymFrac(term(x) * DEN, DEN, lo * DEN, hi * DEN)
            raise HarnessGap("frac operand")

        fa, fb = as_frac(a), as_frac(b)
        if op == "Mult":
            if isinstance(fa, tuple) and isinstance(fb, SymFrac):
                fa, fb = fb, fa
            if isinstance(fb, tuple) and isinstance(fa, SymFrac):
                # (n/DEN) * (k/DEN): only constant * integer is exact in this scale
                if not isinstance(a, (int, Sym)) and not isinstance(b, (int, Sym)):
                    raise HarnessGap("product of two fractions")
                k = fb[1]
                whole = a if isinstance(a, (int, Sym)) else b
                lo, hi = rng(whole)
                c = [lo * k, hi * k]
                return SymFrac(term(whole) * k, DEN, min(c), max(c))
            raise HarnessGap("frac product")
        if op in ("Add", "Sub"):
            def nm(f):
                return (bv(f[1]), f[1], f[1]) if isinstance(f, tuple) else (f.num, f.lo, f.hi)

            (na, la, ha), (nb, lb, hb) = nm(fa), nm(fb)
            if op == "Add":
                return SymFrac(na + nb, DEN, la + lb, ha + hb)
            return SymFrac(na - nb, DEN, la - hb, ha - lb)
        raise HarnessGap("frac op " + op)

    def e_BinOp(self, n, env):
        return self.arith(type(n.op).__name__, self.ev(n.left, env), self.ev(n.right, env))

    def compare(self, op, a, b):
        if op in ("In", "NotIn"):
            if isinstance(b, SDict):
                found = self.dict_find(b, a) is not None
            elif isinstance(b, (SList, Bytes)) or (isinstance(b, (list, tuple, range)) and is_sym(a)):
                cells_ = b.cells if isinstance(b, (SList, Bytes)) else list(b)
                if isinstance(a, Bytes) and len(a) == 1:
                    a = a.cells[0]
                if not isinstance(a, (int, Sym)):
                    raise HarnessGap("membership of " + type(a).__name__)
                found = any(self.truth(self.compare("Eq", c, a)) for c in cells_ if isinstance(c, (int, Sym)))
            elif is_sym(a) or isinstance(a, (Bytes, SList)):
                raise HarnessGap("membership in " + type(b).__name__)
            else:
                found = a in b
            return found if op == "In" else not found
        if isinstance(a, Bytes) and isinstance(b, Bytes):
            if op in ("Eq", "NotEq"):
                if len(a) != len(b):
                    return op == "NotEq"
                if not a.cells:
                    return op == "Eq"
                eq = z3.And(*[term(x) == term(y) for x, y in zip(a.cells, b.cells)])
                return eq if op == "Eq" else z3.Not(eq)
        if isinstance(a, Bytes) and isinstance(b, (str, bytes)):
            if op in ("Eq", "NotEq"):
                bb = b if isinstance(b, bytes) else b.encode("latin1")
                if len(a) != len(bb):
                    return op == "NotEq"
                if not bb:
                    return op == "Eq"
                eq = z3.And(*[term(x) == c for x, c in zip(a.cells, bb)])
                return eq if op == "Eq" else z3.Not(eq)
        if not is_sym(a) and not is_sym(b):
            import operator as o

            return {"Eq": o.eq, "NotEq": o.ne, "Lt": o.lt, "Gt": o.gt, "LtE": o.le, "GtE": o.ge, "Is": o.is_, "IsNot": o.is_not}[op](a, b)
        if a is None or b is None:
            return op in ("NotEq", "IsNot")
        ta, tb = term(a), term(b)
        return {"Eq": ta == tb, "NotEq": ta != tb, "Lt": ta < tb, "Gt": ta > tb, "LtE": ta <= tb, "GtE": ta >= tb}[op]

    def e_Compare(self, n, env):
        left = self.ev(n.left, env)
        acc = None
        for op, rn in zip(n.ops, n.comparators):
            right = self.ev(rn, env)
            r = self.compare(type(op).__name__, left, right)
            if isinstance(r, z3.BoolRef):
                acc = r if acc is None else z3.And(acc, r)
            elif not r:
                return False
            left = right
        return True if acc is None else acc

    def e_Subscript(self, n, env):
        o = self.ev(n.value, env)
        if isinstance(n.slice, ast.Slice):
            lo = self.ev(n.slice.lower, env) if n.slice.lower else None
            hi = self.ev(n.slice.upper, env) if n.slice.upper else None
            if is_sym(lo) or is_sym(hi):
                n = len(o.cells) if isinstance(o, (Bytes, SList)) else len(o)
                lo = self.concretize(lo, n) if is_sym(lo) else lo
                hi = self.concretize(hi, n + self.range_unwind) if is_sym(hi) else hi
            if isinstance(o, (Bytes, SList)):
                return type(o)(o.cells[lo:hi])
            return o[lo:hi]
        i = self.ev(n.slice, env)
        if isinstance(o, SDict):
            j = self.dict_find(o, i)
            if j is None:
                raise Failure("KeyError", "key not in dict")
            return o.items[j][1]
        if is_sym(i):
            return self.select(o, i)
        if isinstance(o, (Bytes, SList)):
            try:
                c = o.cells[i]
            except IndexError:
                raise Failure("IndexError", "index out of range")
            return Bytes([c]) if isinstance(o, Bytes) and self.bytes_index_gives_seq else c
        try:
            return o[i]
        except IndexError:
            raise Failure("IndexError", "index out of range")

    bytes_index_gives_seq = True  # decoders index str objects (iotostr of bytes): a one-character string

    def e_ListComp(self, n, env):
        if len(n.generators) != 1 or n.generators[0].ifs:
            raise HarnessGap("comprehension shape")
        g = n.generators[0]
        out = []
        it = self.iterate(self.ev(g.iter, env))
        if isinstance(it, SymRange):  # same path-forking unwinding as s_For
            k = 0
            while self.truth(self.compare("Lt", k, it.n)):
                if k >= it.bound:
                    raise Unwind(f"comprehension over range(symbolic) beyond {it.bound}")
                e2 = [{}] + env
                self.assign(g.target, k, e2)
                out.append(self.ev(n.elt, e2))
                k += 1
            return SList(out)
        if isinstance(it, SentinelIter):
            raise HarnessGap("comprehension over iter(callable, sentinel)")
        for v in it:
            e2 = [{}] + env
            self.assign(g.target, v, e2)
            out.append(self.ev(n.elt, e2))
        return SList(out)

    def e_GeneratorExp(self, n, env):
        return self.e_ListComp(n, env)

    def iterate(self, v):
        if isinstance(v, Bytes):
            return [Bytes([c]) for c in v.cells]
        if isinstance(v, SList):
            return list(v.cells)
        if isinstance(v, range):
            return list(v)
        if isinstance(v, (list, tuple, str)):
            return list(v)
        if isinstance(v, (SymRange, SentinelIter)):
            return v
        raise HarnessGap(f"iteration over {type(v).__name__}")

    def e_Call(self, n, env):
        f = self.ev(n.func, env)
        args = [self.ev(a, env) for a in n.args]
        kwargs = {k.arg: self.ev(k.value, env) for k in n.keywords}
        return self.call(f, args, kwargs)

    def call(self, f, args, kwargs):
        if isinstance(f, Closure):
            fn = f.node
            loc = dict(f.defaults)
            names = [a.arg for a in fn.args.args]
            for a, v in zip(names, args):
                loc[a] = v
            for k, v in kwargs.items():
                loc[k] = v
            try:
                self.block(fn.body, [loc] + f.env)
            except _Return as r:
                return r.v
            return None
        if isinstance(f, LambdaClosure):
            loc = {}
            for a, v in zip([a.arg for a in f.node.args.args], args):
                loc[a] = v
            loc.update(kwargs)
            return self.ev(f.node.body, [loc] + f.env)
        if isinstance(f, tuple) and f and f[0] == "attr":
            return self.method(f[1], f[2], args, kwargs)
        if isinstance(f, Intrinsic):
            return f.fn(self, *args, **kwargs)
        if inspect.isfunction(f) and (f.__module__ or "").startswith("coco"):
            # a helper of the tool itself (util.getbit, ...): interpret its source too
            node, _ = func_ast(f)
            sub = Interp(self.path, f.__globals__, self.intr, self.unwind, self.range_unwind)
            sub.stats = self.stats
            return sub.call(Closure(node, [], sub, self.real_defaults(f)), args, kwargs)
        if getattr(f, "__name__", "") == "unpack" and getattr(f, "__module__", "") in ("_struct", "struct"):
            return i_struct_unpack(self, *args)
        symbolic = any(isinstance(a, (Sym, Bytes, SList, Stream, Sink, SymFrac, z3.ExprRef)) for a in list(args) + list(kwargs.values()))
        if symbolic:
            raise HarnessGap(f"real function {getattr(f, '__name__', f)!r} called with symbolic arguments")
        try:
            return f(*args, **kwargs)
        except SystemExit as e:
            raise Failure("exit", str(e.code))

    def real_defaults(self, f):
        """default arguments of one of the tool's own functions.  They are evaluated once per process; a mutable one is a
        process-lifetime object, modelled as one copy of its definition-time value per symbolic path (= a fresh process;
        state carried from one conversion to the next is the subject of the history obligations, not of this model)"""
        key = ("defaults", f.__module__, f.__qualname__)
        if key not in self.path.state:
            import inspect as _i

            out = {}
            for nm, prm in _i.signature(f).parameters.items():
                if prm.default is _i.Parameter.empty:
                    continue
                d = prm.default
                if isinstance(d, dict):
                    d = SDict(list(d.items()))
                elif isinstance(d, (list, bytearray)):
                    d = SList(list(d))
                elif not isinstance(d, (int, float, str, bytes, bool, tuple, type(None))):
                    raise HarnessGap(f"default argument {nm}={type(d).__name__} of {f.__qualname__}")
                out[nm] = d
            self.path.state[key] = out
        return self.path.state[key]

    def dict_find(self, d, k):
        """index of the newest binding of k in d (forking on symbolic equalities), or None"""
        for j in range(len(d.items) - 1, -1, -1):
            kj = d.items[j][0]
            if isinstance(kj, (int, Sym)) and isinstance(k, (int, Sym)):
                if self.truth(self.compare("Eq", kj, k)):
                    return j
            elif isinstance(kj, (Bytes, SList, SDict)) or isinstance(k, (Bytes, SList, SDict)):
                raise HarnessGap("dict key of a modelled sequence type")
            elif kj == k:
                return j
        return None

    def method(self, o, name, args, kwargs):
        if isinstance(o, SDict):
            if name == "get":
                j = self.dict_find(o, args[0])
                return o.items[j][1] if j is not None else (args[1] if len(args) > 1 else None)
            if name == "clear":
                o.items.clear()
                return None
            if name == "setdefault":
                j = self.dict_find(o, args[0])
                if j is None:
                    o.items.append((args[0], args[1] if len(args) > 1 else None))
                    return o.items[-1][1]
                return o.items[j][1]
            raise HarnessGap("dict." + name)
        if isinstance(o, Stream):
            if name == "read":
                n = args[0] if args else None
                if is_sym(n):
                    # fork over the number of bytes actually delivered
                    remaining = len(o.cells) - o.pos
                    for k in range(0, remaining):
                        if self.path.branch(n.t == k):
                            return o.read(k)
                    return o.read(remaining)
                return o.read(n)
            if name == "close":
                return None
            if name == "readinto":
                buf = args[0]
                if not isinstance(buf, SList):
                    raise HarnessGap("readinto a " + type(buf).__name__)
                got = o.read(len(buf.cells))
                for k, c in enumerate(got.cells):
                    buf.cells[k] = c
                return len(got.cells)
            if name in ("seek", "tell", "seekable"):
                cargs = [self.concretize(a, 1 << 16) if is_sym(a) else (0 if a is None else a) for a in args]
                return getattr(o, name)(*cargs)
            if name == "name":
                return o.name
        if isinstance(o, Sink):
            if name == "write":
                x = args[0]
                if isinstance(x, Bytes):
                    o.pieces.append(list(x.cells))
                elif isinstance(x, (bytes, str)):
                    bb = x if isinstance(x, bytes) else x.encode("latin1")
                    o.pieces.append(list(bb))
                elif isinstance(x, Fmt):
                    o.pieces.append([x])
                elif isinstance(x, SList):
                    o.pieces.append(list(x.cells))
                else:
                    raise HarnessGap(f"write of {type(x).__name__}")
                return None
            if name == "close":
                o.closed = True
                return None
        if isinstance(o, SList):
            if name == "clear":
                o.cells.clear()
                return None
            if name == "append":
                o.cells.append(args[0])
                return None
            if name == "extend":
                o.cells.extend(self.iterate(args[0]) if not isinstance(args[0], (SList, Bytes)) else args[0].cells)
                return None
            if name == "index":
                raise HarnessGap("list.index")
        if isinstance(o, Bytes):
            if name == "index":
                # first position of a byte value: fork over positions
                want = args[0]
                wv = ord(want) if isinstance(want, str) else want
                for k, c in enumerate(o.cells):
                    if self.truth(self.compare("Eq", c, wv)):
                        return k
                raise Failure("ValueError", "substring not found")
            if name == "rstrip":
                if any(is_sym(c) for c in o.cells):
                    raise HarnessGap("rstrip of symbolic text")
                return o
        if isinstance(o, Writer):
            if name == "write_array":
                o.bitmap = args[1]
                o.target = args[0]
                return None
        if isinstance(o, str) and name == "join":
            out = []
            for c in (args[0].cells if isinstance(args[0], (SList, Bytes)) else list(args[0])):
                if isinstance(c, Bytes):
                    out.extend(c.cells)
                elif isinstance(c, str):
                    out.extend(list(c.encode("latin1")))
                else:
                    raise HarnessGap("join of non-strings")
                if o:
                    raise HarnessGap("join with a separator")
            return Bytes(out)
        if isinstance(o, str) and name == "format":
            if any(is_sym(a) for a in args):
                return Fmt(o, args)
            return o.format(*args)
        raise HarnessGap(f"method {type(o).__name__}.{name}")

    # ------------------------------------------------------------------ statements
    def block(self, body, env):
        for s in body:
            self.stats["steps"] += 1
            getattr(self, "s_" + type(s).__name__)(s, env)

    def s_Pass(self, s, env):
        pass

    def s_Import(self, s, env):
        pass

    def s_ImportFrom(self, s, env):
        pass

    def s_FunctionDef(self, s, env):
        names = [a.arg for a in s.args.args]
        defaults = {nm: self.ev(d, env) for nm, d in zip(names[len(names) - len(s.args.defaults):], s.args.defaults)}
        for a, d in zip(s.args.kwonlyargs, s.args.kw_defaults):
            if d is not None:
                defaults[a.arg] = self.ev(d, env)
        env[0][s.name] = Closure(s, env, self, defaults)

    def assign(self, t, v, env):
        if isinstance(t, ast.Name):
            # assignment goes to the innermost scope (closures in the decoders only read outer names)
            env[0][t.id] = v
        elif isinstance(t, (ast.Tuple, ast.List)):
            vals = v.cells if isinstance(v, (SList, Bytes)) else list(v)
            if len(vals) != len(t.elts):
                raise Failure("ValueError", "unpack")
            for tt, vv in zip(t.elts, vals):
                self.assign(tt, vv, env)
        elif isinstance(t, ast.Subscript) and isinstance(t.slice, ast.Slice):
            o = self.ev(t.value, env)
            if not isinstance(o, SList):
                raise HarnessGap("slice assignment on " + type(o).__name__)
            if t.slice.step is not None:
                raise HarnessGap("slice assignment with a step")
            lo = self.ev(t.slice.lower, env) if t.slice.lower else None
            hi = self.ev(t.slice.upper, env) if t.slice.upper else None
            if is_sym(lo) or is_sym(hi):
                raise HarnessGap("slice assignment with symbolic bounds")
            o.cells[lo:hi] = v.cells if isinstance(v, (SList, Bytes)) else list(self.iterate(v))
        elif isinstance(t, ast.Subscript):
            o = self.ev(t.value, env)
            i = self.ev(t.slice, env)
            if isinstance(o, SDict):
                j = self.dict_find(o, i)
                if j is None:
                    o.items.append((i, v))
                else:
                    o.items[j] = (o.items[j][0], v)
                return
            if not isinstance(o, SList):
                raise HarnessGap("item assignment on " + type(o).__name__)
            if is_sym(i):
                self.store(o, i, v)
            else:
                try:
                    o.cells[i] = v
                except IndexError:
                    raise Failure("IndexError", "assignment index out of range")
        else:
            raise HarnessGap("assignment target " + type(t).__name__)

    def s_Assign(self, s, env):
        v = self.ev(s.value, env)
        for t in s.targets:
            self.assign(t, v, env)

    def s_AugAssign(self, s, env):
        cur = self.ev(s.target, env)
        v = self.arith(type(s.op).__name__, cur, self.ev(s.value, env))
        self.assign(s.target, v, env)

    def s_Expr(self, s, env):
        self.ev(s.value, env)

    def s_If(self, s, env):
        if self.truth(self.ev(s.test, env)):
            self.block(s.body, env)
        else:
            self.block(s.orelse, env)

    def s_For(self, s, env):
        it = self.iterate(self.ev(s.iter, env))
        if isinstance(it, SymRange):
            k = 0
            while True:
                if not self.truth(self.compare("Lt", k, it.n)):
                    break
                if k >= it.bound:
                    raise Unwind(f"for over range(symbolic) beyond {it.bound}")
                self.assign(s.target, k, env)
                try:
                    self.block(s.body, env)
                except _Break:
                    return
                except _Continue:
                    pass
                k += 1
            self.block(s.orelse, env)
            return
        if isinstance(it, SentinelIter):
            k = 0
            while True:
                v = self.call(it.fn, [], {})
                same = (isinstance(v, (Bytes, SList)) and isinstance(it.sentinel, (Bytes, SList, bytes, str)) and len(v.cells) == 0 and len(it.sentinel.cells if isinstance(it.sentinel, (Bytes, SList)) else it.sentinel) == 0)
                if not same and not isinstance(v, (Bytes, SList)):
                    same = self.truth(self.compare("Eq", v, it.sentinel))
                if same:
                    break
                if k >= self.unwind:
                    raise Unwind(f"for over iter(callable, sentinel) beyond {self.unwind} iterations")
                k += 1
                self.assign(s.target, v, env)
                try:
                    self.block(s.body, env)
                except _Break:
                    return
                except _Continue:
                    pass
            self.block(s.orelse, env)
            return
        for v in it:
            self.assign(s.target, v, env)
            try:
                self.block(s.body, env)
            except _Break:
                return
            except _Continue:
                continue
        self.block(s.orelse, env)

    def s_While(self, s, env):
        k = 0
        while self.truth(self.ev(s.test, env)):
            if k >= self.unwind:
                raise Unwind(f"while loop beyond {self.unwind} iterations")
            k += 1
            try:
                self.block(s.body, env)
            except _Break:
                return
            except _Continue:
                continue

    def s_Break(self, s, env):
        raise _Break()

    def s_Continue(self, s, env):
        raise _Continue()

    def s_Return(self, s, env):
        raise _Return(self.ev(s.value, env) if s.value else None)

    def s_Raise(self, s, env):
        raise Failure("raise", ast.unparse(s)[:60])

    def s_With(self, s, env):
        for item in s.items:
            v = self.ev(item.context_expr, env)
            if item.optional_vars is not None:
                self.assign(item.optional_vars, v, env)
        self.block(s.body, env)

    def s_Delete(self, s, env):
        for t in s.targets:
            if isinstance(t, ast.Subscript):
                o = self.ev(t.value, env)
                if not isinstance(o, SList):
                    raise HarnessGap("del on " + type(o).__name__)
                if isinstance(t.slice, ast.Slice):
                    lo = self.ev(t.slice.lower, env) if t.slice.lower else None
                    hi = self.ev(t.slice.upper, env) if t.slice.upper else None
                    if is_sym(lo) or is_sym(hi):
                        raise HarnessGap("del with symbolic slice")
                    del o.cells[lo:hi]
                else:
                    i = self.ev(t.slice, env)
                    if is_sym(i):
                        raise HarnessGap("del with symbolic index")
                    del o.cells[i]
            elif isinstance(t, ast.Name):
                for e in env:
                    if t.id in e:
                        del e[t.id]
                        break
            else:
                raise HarnessGap("del target")

    def s_Global(self, s, env):
        pass

    def s_Assert(self, s, env):
        if not self.truth(self.ev(s.test, env)):
            raise Failure("AssertionError")


class Intrinsic:
    def __init__(self, fn):
        self.fn = fn


class Fmt:
    """header text with symbolic numbers"""

    def __init__(self, template, args):
        self.template = template
        self.args = args

    def __repr__(self):
        return f"Fmt({self.template!r}, {[str(a) for a in self.args]})"


class SymRange:
    def __init__(self, n, bound):
        self.n = n
        self.bound = bound


class Writer:
    """stand-in for png.Writer: records geometry, palette and the bitmap handed to write_array"""

    def __init__(self, width, height, palette=None, bitdepth=8, **kw):
        self.width, self.height, self.palette, self.bitdepth = width, height, palette, bitdepth
        self.bitmap = None
        self.target = None


# ---------------------------------------------------------------------- intrinsics shared by all decoder harnesses
def i_ord(I, x):
    if isinstance(x, Bytes):
        if len(x) != 1:
            raise Failure("TypeError", f"ord() expected a character, but string of length {len(x)} found")
        return x.cells[0]
    if isinstance(x, (str, bytes)):
        if len(x) != 1:
            raise Failure("TypeError", "ord() of a non-character")
        return ord(x)
    if isinstance(x, (int, Sym)):
        return x
    raise HarnessGap("ord of " + type(x).__name__)


def i_chr(I, x):
    if is_sym(x):
        if x.lo < 0 or x.hi > 255:
            if not I.truth(z3.And(x.t >= 0, x.t <= 255)):
                raise Failure("ValueError", "chr/bytes out of range")
        return Bytes([x])
    if not 0 <= x < 0x110000:
        raise Failure("ValueError", "chr out of range")
    return Bytes([x])


def i_pack(I, a):
    cells = a.cells if isinstance(a, (SList, Bytes)) else list(a)
    out = []
    for c in cells:
        if is_sym(c):
            if c.lo < 0 or c.hi > 255:
                if not I.truth(z3.And(c.t >= 0, c.t <= 255)):
                    raise Failure("ValueError", "bytes must be in range(0, 256)")
                c = Sym(c.t, max(c.lo, 0), min(c.hi, 255))
        elif not 0 <= c <= 255:
            raise Failure("ValueError", "bytes must be in range(0, 256)")
        out.append(c)
    return Bytes(out)


def i_identity(I, x):
    if isinstance(x, (str, bytes)):
        bb = x if isinstance(x, bytes) else x.encode("latin1")
        return Bytes(list(bb))
    return x


def i_range(I, *a):
    if any(is_sym(x) for x in a):
        if len(a) != 1:
            raise HarnessGap("range with symbolic start/step")
        return SymRange(a[0], I.range_unwind)
    return range(*a)


def i_len(I, x):
    return len(x)


def i_int(I, x, base=None):
    if isinstance(x, SymFrac):
        # int() truncates toward zero; bvsdiv truncates toward zero
        lo, hi = int(x.lo / x.den), int(x.hi / x.den)
        return Sym(x.num / bv(x.den), min(lo, hi) - 1, max(lo, hi) + 1)
    if is_sym(x):
        return x
    return int(x) if base is None else int(x, base)


def _minmax(ismin):
    def f(I, *a, **kw):
        if kw:
            raise HarnessGap("min/max with keyword arguments")
        vals = a
        if len(a) == 1:
            vals = a[0].cells if isinstance(a[0], (SList, Bytes)) else list(a[0])
            if not vals:
                raise Failure("ValueError", "min()/max() of an empty sequence")
        if not all(isinstance(v, (int, Sym)) for v in vals):
            if any(isinstance(v, (Sym, Bytes, SList)) for v in vals):
                raise HarnessGap("min/max of non-integers")
            return (min if ismin else max)(vals)
        acc = vals[0]
        for v in vals[1:]:
            if not is_sym(acc) and not is_sym(v):
                acc = (min if ismin else max)(acc, v)
                continue
            (la, ha), (lb, hb) = rng(acc), rng(v)
            ta, tb = term(acc), term(v)
            c = (tb < ta) if ismin else (tb > ta)
            acc = Sym(z3.If(c, tb, ta), min(la, lb) if ismin else max(la, lb), min(ha, hb) if ismin else max(ha, hb))
        return acc

    return f


def i_struct_unpack(I, fmt, data):
    """struct.unpack for the byte / half-word codes b B h H (and x) with an optional byte-order character"""
    order = ">"
    if fmt and fmt[0] in "<>=!@":
        order = "<" if fmt[0] == "<" else ">" if fmt[0] in ">!" else "<"  # native on the machines this runs on: little endian
        fmt = fmt[1:]
    fmt = re.sub(r"(\d+)([a-zA-Z?])", lambda m: m.group(2) * int(m.group(1)), fmt.replace(" ", ""))
    cells_ = list(data.cells) if isinstance(data, (Bytes, SList)) else list(data)
    need = sum({"b": 1, "B": 1, "x": 1, "h": 2, "H": 2}.get(ch, 99) for ch in fmt)
    if need > 90:
        raise HarnessGap(f"struct.unpack format {fmt!r}")
    if need != len(cells_):
        raise Failure("struct.error", f"unpack requires a buffer of {need} bytes")
    out = []
    pos = 0
    for ch in fmt:
        if ch == "x":
            pos += 1
            continue
        n = 1 if ch in "bB" else 2
        part = cells_[pos:pos + n]
        pos += n
        if order == "<":
            part = part[::-1]
        if all(isinstance(c, int) for c in part):
            v = 0
            for c in part:
                v = v * 256 + c
            if ch in "bh" and v >= 1 << (8 * n - 1):
                v -= 1 << (8 * n)
            out.append(v)
            continue
        t = bv(0)
        for c in part:
            t = t * bv(256) + term(c)
        if ch in "bh":
            half = 1 << (8 * n - 1)
            t = z3.If(z3.UGE(t, bv(half)), t - bv(1 << (8 * n)), t)
            out.append(Sym(z3.simplify(t), -half, half - 1))
        else:
            out.append(Sym(z3.simplify(t), 0, (1 << (8 * n)) - 1))
    return tuple(out)


def i_from_bytes(I, data, byteorder="big", signed=False):
    """int.from_bytes on a (possibly empty) sequence of symbolic bytes"""
    if signed:
        raise HarnessGap("int.from_bytes(signed=True)")
    cells_ = list(data.cells) if isinstance(data, (Bytes, SList)) else [c for c in data]
    if byteorder == "little":
        cells_ = cells_[::-1]
    if not cells_:
        return 0
    if len(cells_) > 3:
        raise HarnessGap("int.from_bytes of more than 3 bytes")
    if all(isinstance(c, int) for c in cells_):
        v = 0
        for c in cells_:
            v = v * 256 + c
        return v
    t = bv(0)
    for c in cells_:
        t = t * bv(256) + term(c)
    return Sym(z3.simplify(t), 0, 256 ** len(cells_) - 1)


def i_join(I, x):
    raise HarnessGap("str.join")


def i_noop(I, *a, **k):
    return None


def i_exit(I, *a):
    raise Failure("exit", str(a[0]) if a else "")


def i_sum(I, x, start=0):
    acc = start
    for v in (x.cells if isinstance(x, (SList, Bytes)) else I.iterate(x)):
        acc = I.arith("Add", acc, v)
    return acc


def i_bytearray(I, x=None):
    if x is None:
        return SList([])
    if isinstance(x, int) and not isinstance(x, bool):
        return SList([0] * x)
    if isinstance(x, (Bytes, SList)):
        return SList(list(x.cells))
    return SList(list(x))


def i_list(I, x=()):
    if isinstance(x, (Bytes, SList)):
        return SList(list(x.cells))
    return SList(list(x))


def i_isinstance(I, x, t):
    return isinstance(x, t)


BASE_INTRINSICS = {
    "ord": Intrinsic(i_ord),
    "chr": Intrinsic(i_chr),
    "iotostr": Intrinsic(i_identity),
    "strtoio": Intrinsic(i_identity),
    "iotobytes": Intrinsic(i_identity),
    "pack": Intrinsic(i_pack),
    "range": Intrinsic(i_range),
    "len": Intrinsic(i_len),
    "iter": Intrinsic(lambda I, fn, *sentinel: SentinelIter(fn, sentinel[0]) if sentinel else I.iterate(fn)),
    "int": Intrinsic(i_int),
    "print": Intrinsic(i_noop),
    "bytearray": Intrinsic(i_bytearray),
    "bytes": Intrinsic(i_pack),
    "list": Intrinsic(i_list),
    "sum": Intrinsic(i_sum),
    "min": Intrinsic(_minmax(True)),
    "max": Intrinsic(_minmax(False)),
}


def func_ast(fn):
    src = textwrap.dedent(inspect.getsource(fn))
    return ast.parse(src).body[0], src


def explore(run, premises=(), max_paths=400):
    """run(path) under every feasible decision vector -> list of (path condition, outcome)"""
    results = []
    stack = [[]]
    while stack:
        dec = stack.pop()
        path = Path(dec, premises)
        try:
            out = ("ok", run(path))
        except Failure as f:
            out = ("fail", f.kind + ": " + f.detail)
        except Unwind as u:
            out = ("unwind", str(u))
        results.append((list(path.pc), out))
        stack.extend(path.siblings(len(dec)))
        if len(results) > max_paths:
            raise HarnessGap("path explosion")
    return results
